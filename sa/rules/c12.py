"""C12 Progress accounting is exact for any history and any interleaving (atomicity decided statically)."""
from __future__ import annotations

import ast
from typing import List, Optional, Set

from .. import cfg as cfgmod
from ..absint import Const, FloatIv, IntIv, Interp, Opaque, Rec, as_iv
from ..astutil import alias_map, call_name, const_int, expand_alias, is_attr_of
from ..index import AnalysisError, AnchorVanished, norm, short, walk_local
from .common import fmt_locks, get_cg, must_held

LEVEL = "other"
UNDECIDED = [
    "arithmetic identities over histories (completed == last set value + sum of advances) beyond the per-operation read-modify-write being atomic",
    "the numeric values of speed / time_remaining estimates",
    "actual interleavings",
]
TRUSTED = ["CPython ast parser", "threading.RLock mutual exclusion and re-entrancy", "deque.append/popleft semantics"]

PLOCK = ("Progress", "_lock")
TASK_FIELDS = {"completed", "total", "finished_time", "_progress", "start_time", "stop_time", "visible", "description", "fields"}


def _progress_methods(ctx):
    c = ctx.repo.cls("progress:Progress")
    for name, lst in c.methods.items():
        for f in lst:
            yield f



def _call_args_for_param(ctx, f, pname):
    """[(caller FuncInfo, call node, argument expr or None)] for every resolved call of f."""
    cg, _ = get_cg(ctx)
    out = []
    params = f.params[1:] if f.cls is not None and not f.is_staticmethod else f.params
    for e in cg.inc.get(f.fq, []):
        if e.kind not in ("call", "dispatch") or not isinstance(e.node, ast.Call):
            continue
        c = e.node
        arg = None
        for k in c.keywords:
            if k.arg == pname:
                arg = k.value
        if arg is None and pname in params:
            i = params.index(pname)
            if i < len(c.args):
                arg = c.args[i]
        out.append((e.caller, c, arg))
    return out


def _timestamp_ok(ctx, f, call_or_stmt, ts, depth=0):
    """(ok, [problems]) - is the timestamp expression `ts`, used at `call_or_stmt` in f, a clock reading taken under Progress._lock?"""
    cg, locks = get_cg(ctx)
    if depth > 3:
        return False, ["timestamp provenance too deep to follow"]
    if isinstance(ts, ast.Call) and "get_time" in norm(ts):
        held = must_held(ctx, f, ts)
        return (PLOCK in held), ([] if PLOCK in held else [f"clock read `{short(ts)}` in {f.qualname} is outside Progress._lock"])
    if not isinstance(ts, ast.Name):
        return False, [f"timestamp `{norm(ts)}` is not a clock reading"]
    g = cfgmod.build(f.node)
    rd = g.reaching_defs(weak=False)
    st = call_or_stmt
    while not isinstance(st, ast.stmt):
        st = f.module.parent_of[st]
    defs = set()
    for nid in g.nodes_of(st):
        defs |= rd.get(nid, {}).get(ts.id, set())
    bad = []
    for d in defs:
        dn = g.nodes[d]
        if dn.kind == "entry":
            sites = _call_args_for_param(ctx, f, ts.id)
            if not sites:
                bad.append(f"`{ts.id}` is a parameter of {f.qualname}, which has no resolved caller")
            for caller, c, arg in sites:
                if arg is None:
                    bad.append(f"{caller.qualname} does not pass `{ts.id}`")
                    continue
                ok, probs = _timestamp_ok(ctx, caller, c, arg, depth + 1)
                bad += probs
            continue
        v = getattr(dn.stmt, "value", None)
        if v is None or "get_time" not in norm(v):
            bad.append(f"`{ts.id}` defined by `{short(dn.stmt)}`, not a clock reading")
            continue
        dheld = locks.held_lex(f, dn.stmt) | locks.must_held_on_entry().get(f.fq, frozenset())
        if PLOCK not in dheld:
            bad.append(f"clock read `{short(dn.stmt)}` at line {dn.lineno} of {f.qualname} happens before Progress._lock is taken")
    return (not bad), bad

def r12_1(ctx):
    ctx.rule("R12.1", "guarded-by: every read/write of a Task's counters and of Progress._tasks/_task_index in Progress methods (and helpers reached only from them) executes with Progress._lock held, lexically or on entry from every non-constructor caller")
    cg, locks = get_cg(ctx)
    T = cg.types
    n = 0
    regions = 0
    # accepted idiom (one symbol, one reason): Progress.make_tasks_table(tasks) is the overridable rendering hook - it only READS the
    # tasks it is handed to draw them and updates nothing; inside the package it is reached from refresh()/get_renderable() with the
    # lock held, a direct outside call draws a momentary snapshot.  No accounting clause of the property depends on it.
    READ_ONLY_RENDER_HOOKS = {"make_tasks_table"}
    for f in _progress_methods(ctx):
        if f.name in ("__init__",):
            continue
        regions += sum(1 for _w, ls, _h in locks.lock_withs(f) if PLOCK in ls)
        if f.name in READ_ONLY_RENDER_HOOKS:
            stores = [x for x in walk_local(f.node) if isinstance(x, ast.Attribute) and isinstance(x.ctx, (ast.Store, ast.Del)) and x.attr in TASK_FIELDS]
            ctx.check(not stores, f.fq, "read-only rendering hook", f.where, "the rendering hook writes no task state", f"{f.qualname} is exempt from the lock rule as a read-only rendering hook but writes task state: {[norm(x) for x in stores]}")
            continue
        env = T.local_types(f)
        for x in walk_local(f.node):
            what = None
            if isinstance(x, ast.Attribute) and is_attr_of(x, "self") and x.attr in ("_tasks", "_task_index"):
                what = f"self.{x.attr}"
            elif isinstance(x, ast.Attribute) and x.attr in TASK_FIELDS | {"_reset", "elapsed", "finished", "percentage", "speed", "time_remaining", "remaining", "started"}:
                c = T.infer(f, x.value, env)
                if c is not None and c.name == "Task":
                    what = norm(x)
            elif isinstance(x, ast.Call):
                # passing a Task to another callable is a read of it at this point
                for a in list(x.args) + [k.value for k in x.keywords]:
                    if isinstance(a, ast.Name):
                        c = T.infer(f, a, env)
                        if c is not None and c.name == "Task":
                            what = f"{short(x, 60)} (task passed)"
            if what is None:
                continue
            n += 1
            held = must_held(ctx, f, x)
            ctx.check(PLOCK in held, f.fq, what, f"{f.module.relpath}:{x.lineno}", f"{what} under {fmt_locks(held)}",
                      f"{what} accessed without Progress._lock (held: {fmt_locks(held)}): a concurrent advance/update can be lost or seen half-applied")
    ctx.floor(n, 40, "task-state accesses in Progress methods")
    ctx.floor(regions, 12, "Progress._lock regions")
    ctx.extra["progress_lock_regions"] = regions


def r12_2(ctx):
    ctx.rule("R12.2", "speed samples are timestamped inside the critical section: the timestamp of every appended ProgressSample is a get_time() reading taken with Progress._lock held - in the method itself or, when the append lives in a helper, at every call site of that helper (otherwise two threads can append out of time order => negative speed)")
    cg, locks = get_cg(ctx)
    n = 0
    for f in _progress_methods(ctx):
        for x in walk_local(f.node):
            if not (isinstance(x, ast.Call) and call_name(x) == "ProgressSample"):
                continue
            n += 1
            ts = x.args[0] if x.args else None
            where = f"{f.module.relpath}:{x.lineno}"
            held_here = must_held(ctx, f, x)
            ok, bad = _timestamp_ok(ctx, f, x, ts) if ts is not None else (False, ["no timestamp"])
            ctx.check(PLOCK in held_here and ok, f.fq, short(x), where, "sample timestamp read inside the lock region that appends it",
                      "speed sample is appended under the lock but " + "; ".join(bad or ["the append itself is outside Progress._lock"]) + ": two racing calls can append samples out of time order, making total_time and the speed estimate negative")
    ctx.floor(n, 1, "ProgressSample appends")


def r12_6(ctx):
    ctx.rule("R12.6", "speed samples are non-negative: the amount of every appended ProgressSample is either dominated by a `> 0` test or is the difference task.completed - completed_start around a single `task.completed += <advance parameter>` (non-negative for non-negative advances); so a completed count set lower by update() never enters the speed window as a negative sample")
    n = 0
    for f in _progress_methods(ctx):
        g = None
        for x in walk_local(f.node):
            if not (isinstance(x, ast.Call) and call_name(x) == "ProgressSample" and len(x.args) >= 2):
                continue
            n += 1
            if g is None:
                g = cfgmod.build(f.node)
                rd = g.reaching_defs(weak=False)
            amt = x.args[1]
            st = x
            while not isinstance(st, ast.stmt):
                st = f.module.parent_of[st]
            where = f"{f.module.relpath}:{x.lineno}"
            ok = False
            why = ""
            for nid in g.nodes_of(st):
                for t, v in g.branch_facts(nid):
                    if v is True and norm(t) in (f"{norm(amt)} > 0", f"0 < {norm(amt)}"):
                        ok = True
            if not ok and isinstance(amt, ast.Name) and amt.id in f.params:
                sites = _call_args_for_param(ctx, f, amt.id)
                oks = []
                for caller, c, arg in sites:
                    if arg is None:
                        oks.append(False)
                        continue
                    cgf = cfgmod.build(caller.node)
                    cst = c
                    while not isinstance(cst, ast.stmt):
                        cst = caller.module.parent_of[cst]
                    good = False
                    for nid in cgf.nodes_of(cst):
                        for t, v in cgf.branch_facts(nid):
                            if v is True and norm(t) in (f"{norm(arg)} > 0", f"0 < {norm(arg)}"):
                                good = True
                    if not good and isinstance(arg, ast.Name):
                        stores = [s_ for s_ in walk_local(caller.node) if isinstance(s_, (ast.Assign, ast.AugAssign)) and any(norm(t).endswith(".completed") for t in (s_.targets if isinstance(s_, ast.Assign) else [s_.target]))]
                        dfs = [d_ for d_ in walk_local(caller.node) if isinstance(d_, ast.Assign) and norm(d_.targets[0]) == arg.id]
                        diff = len(dfs) == 1 and isinstance(dfs[0].value, ast.BinOp) and isinstance(dfs[0].value.op, ast.Sub) and norm(dfs[0].value.left).endswith(".completed")
                        good = diff and bool(stores) and all(isinstance(s_, ast.AugAssign) and isinstance(s_.op, ast.Add) and isinstance(s_.value, ast.Name) and s_.value.id in caller.params for s_ in stores)
                        if not good:
                            why = f"{caller.qualname} passes `{arg.id}`, which can be negative there (completed is also assigned directly)"
                    oks.append(good)
                ok = bool(oks) and all(oks)
            elif not ok and isinstance(amt, ast.Name):
                defs = set()
                for nid in g.nodes_of(st):
                    defs |= rd.get(nid, {}).get(amt.id, set())
                if len(defs) == 1:
                    d = g.nodes[next(iter(defs))].stmt
                    v = getattr(d, "value", None)
                    if isinstance(v, ast.BinOp) and isinstance(v.op, ast.Sub) and norm(v.left).endswith(".completed") and isinstance(v.right, ast.Name):
                        stores = [s for s in walk_local(f.node) if isinstance(s, (ast.Assign, ast.AugAssign)) and any(norm(t).endswith(".completed") for t in (s.targets if isinstance(s, ast.Assign) else [s.target]))]
                        ok = bool(stores) and all(isinstance(s, ast.AugAssign) and isinstance(s.op, ast.Add) and isinstance(s.value, ast.Name) and s.value.id in f.params for s in stores)
                        if not ok:
                            why = f"`{amt.id}` is a difference of completed counts but completed is also assigned directly ({[short(s) for s in stores if not isinstance(s, ast.AugAssign)]})"
            ctx.check(ok, f.fq, short(x), where, "sample amount is provably non-negative",
                      f"a speed sample with amount `{norm(amt)}` is appended without a `> 0` guard{'; ' + why if why else ''}: update(completed=<lower value>) records a negative sample and the speed / time-remaining estimates go negative although every advance is non-negative")
    ctx.floor(n, 1, "ProgressSample appends")


def _is_finish_test(n: ast.If) -> bool:
    t = n.test
    if not (isinstance(t, ast.BoolOp) and isinstance(t.op, ast.And)):
        return False
    ge = fin = False
    for v in t.values:
        if isinstance(v, ast.Compare) and len(v.ops) == 1:
            l, r = norm(v.left), norm(v.comparators[0])
            if l.endswith(".completed") and r.endswith(".total") and isinstance(v.ops[0], ast.GtE):
                ge = True
            if l.endswith(".total") and r.endswith(".completed") and isinstance(v.ops[0], ast.LtE):
                ge = True
            if l.endswith(".finished_time") and isinstance(v.ops[0], ast.Is) and norm(v.comparators[0]) == "None":
                fin = True
    if not (ge and fin):
        return False
    for b in n.body:
        if isinstance(b, ast.Assign) and norm(b.targets[0]).endswith(".finished_time") and norm(b.value).endswith(".elapsed"):
            return True
    return False


def _always_finish_tests(h) -> bool:
    """helper summary: every normal path through h passes the finish test."""
    g = cfgmod.build(h.node)
    tests = {nd.id for nd in g.stmt_nodes() if nd.kind == "test" and isinstance(nd.stmt, ast.If) and _is_finish_test(nd.stmt)}
    return bool(tests) and g.must_pass(g.entry, tests, {g.exit}) is None


def r12_3(ctx):
    ctx.rule("R12.3", "finish bookkeeping is uniform: after every store to task.completed / task.total, every path to the end of the method passes, inside Progress._lock, either the finish test (completed >= total and finished_time is None -> finished_time = elapsed) or a reset of finished_time; finished_time has no other writer")
    cg, locks = get_cg(ctx)
    T = cg.types
    n = 0
    for f in _progress_methods(ctx):
        stores = []
        for x in walk_local(f.node):
            tg = []
            if isinstance(x, ast.Assign):
                tg = x.targets
            elif isinstance(x, ast.AugAssign):
                tg = [x.target]
            for t in tg:
                if isinstance(t, ast.Attribute) and t.attr in ("completed", "total"):
                    c = T.infer(f, t.value)
                    if c is not None and c.name == "Task":
                        stores.append(x)
        if not stores:
            continue
        g = cfgmod.build(f.node)
        good: Set[int] = set()
        for nd in g.stmt_nodes():
            if nd.kind == "test" and isinstance(nd.stmt, ast.If) and _is_finish_test(nd.stmt):
                if PLOCK in must_held(ctx, f, nd.stmt):
                    good.add(nd.id)
            if nd.kind == "stmt" and nd.stmt is not None:
                for c in ast.walk(nd.stmt):
                    if isinstance(c, ast.Call):
                        for callee, kind in cg.resolve_call(f, c):
                            if callee.cls is not None and callee.cls.name == "Progress" and _always_finish_tests(callee) and PLOCK in must_held(ctx, f, c):
                                good.add(nd.id)
            if nd.kind == "stmt" and isinstance(nd.stmt, ast.Assign) and norm(nd.stmt.targets[0]).endswith(".finished_time") and norm(nd.stmt.value) == "None":
                good.add(nd.id)
            if nd.kind == "stmt" and isinstance(nd.stmt, ast.Expr) and isinstance(nd.stmt.value, ast.Call) and norm(nd.stmt.value.func).endswith("._reset"):
                pass  # _reset clears finished_time but a later completed store still needs the test
        for st in stores:
            n += 1
            for nid in g.nodes_of(st):
                w = g.must_pass(nid, good, {g.exit})
                ctx.check(w is None, f.fq, short(st), f"{f.module.relpath}:{st.lineno}", "followed on every normal path by the finish test or a finished_time reset",
                          "after this store a path reaches the end of the method without the finish test (completed >= total -> finished_time) or a reset: a task can stay unfinished after reaching its total, or keep a stale finish time",
                          g.describe_path(w) if w else None)
    ctx.floor(n, 5, "stores to task.completed/total")
    # other writers of finished_time
    writers = []
    extra = []
    for f in ctx.repo.all_functions():
        for x in walk_local(f.node):
            if isinstance(x, ast.Attribute) and x.attr == "finished_time" and isinstance(x.ctx, ast.Store):
                writers.append(f.fq)
                if not (f.cls is not None and f.cls.name in ("Progress", "Task") and f.module.short == "progress"):
                    extra.append(f.fq)
                elif f.cls.name == "Progress" and PLOCK not in must_held(ctx, f, x):
                    extra.append(f.fq + " (without Progress._lock)")
    extra = sorted(set(extra))
    ctx.check(not extra, "progress:Task", "writers of finished_time", "rich/progress.py", f"finished_time written only by {sorted(set(writers))}",
              f"finished_time is written outside Progress/Task or without the lock: {extra}")
    # a total change un-finishes the task: in Progress.update the branch that stores the new total clears finished_time on every
    # path - by a store of None, or through a Task method all of whose paths store None to self.finished_time (Task._reset)
    task_cls = ctx.repo.cls("progress:Task")

    def clears_ft(method_name) -> bool:
        h = task_cls.method(method_name)
        if h is None:
            return False
        gh = cfgmod.build(h.node)
        clr = {nd.id for nd in gh.stmt_nodes() if nd.kind == "stmt" and isinstance(nd.stmt, ast.Assign) and any(norm(t_) == f"{h.params[0]}.finished_time" for t_ in nd.stmt.targets) and norm(nd.stmt.value) == "None"}
        return bool(clr) and gh.exit not in gh.reach([gh.entry], avoid=clr)
    u = ctx.repo.fn("progress:Progress.update")
    gu = cfgmod.build(u.node)
    tstores = [nd for nd in gu.stmt_nodes() if nd.kind == "stmt" and isinstance(nd.stmt, ast.Assign) and any(isinstance(t_, ast.Attribute) and t_.attr == "total" for t_ in nd.stmt.targets)]
    ctx.floor(len(tstores), 1, "stores of a new total in Progress.update")
    for nd in tstores:
        good_u = set()
        relied = []
        for x in gu.stmt_nodes():
            if x.kind != "stmt" or x.stmt is None:
                continue
            if isinstance(x.stmt, ast.Assign) and any(isinstance(t_, ast.Attribute) and t_.attr == "finished_time" for t_ in x.stmt.targets) and norm(x.stmt.value) == "None":
                good_u.add(x.id)
            for c_ in ast.walk(x.stmt):
                if isinstance(c_, ast.Call) and isinstance(c_.func, ast.Attribute) and task_cls.method(c_.func.attr) is not None and c_.func.attr.startswith("_"):
                    if clears_ft(c_.func.attr):
                        good_u.add(x.id)
                    else:
                        relied.append(c_.func.attr)
        w = gu.must_pass(nd.id, good_u, {gu.exit}) if good_u else [nd.id]
        ctx.check(w is None, u.fq, short(nd.stmt), f"{u.module.relpath}:{nd.lineno}", "a changed total clears the recorded finish time on every path",
                  f"after `{short(nd.stmt)}` a path leaves update() without clearing finished_time" + (f" (it calls Task.{relied[0]}(), which does not store None to finished_time on every path)" if relied else "") +
                  ": a task that had finished keeps its old finish time under the new total - it stays `finished` with completed < total, and a later real finish keeps the stale time")


def r12_4(ctx):
    ctx.rule("R12.4", "derived values: percentage is 0 when total is falsy and otherwise clamped to [0,100] (abstract interpretation of the property); every division in Task properties is dominated by a non-zero test of its denominator; speed sums the samples after the first over (last - first) timestamps")
    task = ctx.repo.cls("progress:Task")
    pm = ctx.repo.mod("progress")
    it = Interp(ctx.repo, pm)
    p = task.method("percentage")
    if p is None:
        raise AnchorVanished("Task.percentage not found")
    for total, label in ((IntIv(0, 0), "total == 0"), (Opaque("total"), "total unknown")):
        selfv = Rec("Task", {"total": total, "completed": Opaque("completed")}, ["total", "completed"], "self")
        outs = it.run(p, {"self": selfv})
        for o in outs:
            where = f"{pm.relpath}:{o.node.lineno}" if o.node is not None else p.where
            if o.kind != "return":
                ctx.violation(p.fq, f"{label}: {o!r}", where, f"percentage can raise {o.value!r} when {label}")
                continue
            iv = as_iv(o.value)
            if label == "total == 0":
                ok = iv is not None and iv[0] == iv[1] == 0
                ctx.check(ok, p.fq, f"{label}: {short(o.node)}", where, "percentage is 0 when the total is 0", f"percentage returns {o.value!r} when the total is 0 (must be 0, and must not divide)")
            else:
                # with completed and total unknown the percentage cannot be one fixed number: a path that returns a constant
                # answers from something else than completed / total (a sticky `finished` flag, a cached value)
                def _foreign(cond):
                    # a condition that looks at neither completed nor total nor a local computed from them
                    try:
                        ce = ast.parse(cond, mode="eval").body
                    except SyntaxError:
                        return False
                    if any(isinstance(y, ast.Name) and y.id != "self" for y in ast.walk(ce)):
                        return False  # a local (e.g. the computed ratio): a clamp written as a chain of ifs
                    attrs = {y.attr for y in ast.walk(ce) if isinstance(y, ast.Attribute)}
                    return bool(attrs) and not (attrs & {"completed", "total", "remaining", "percentage"})
                if iv is not None and iv[0] == iv[1] and o.path.conds and _foreign(o.path.conds[-1]):
                    ctx.violation(p.fq, f"{label}: {short(o.node)} [{' & '.join(o.path.conds)}]", where,
                                  f"Task.percentage returns the constant {iv[0]} on the path [{' & '.join(o.path.conds)}] although the total is non-zero and completed is arbitrary there: the percentage is no longer completed / total (a task that finished and was then set back with update(completed=3) would still report this value)")
                    continue
                ok = iv is not None and iv[0] >= 0 and iv[1] <= 100
                ctx.check(ok, p.fq, f"{label}: {short(o.node)} [{' & '.join(o.path.conds)}]", where, f"percentage within {o.value!r} ⊆ [0,100]",
                          f"percentage can return {o.value!r} (outside 0..100) on path [{' & '.join(o.path.conds)}]")
    for hz in it.hazards:
        ctx.violation(p.fq, hz, p.where, f"percentage: {hz}")
    # divisions guarded
    nd = 0
    for name, lst in task.methods.items():
        for f in lst:
            divs = [x for x in walk_local(f.node) if isinstance(x, ast.BinOp) and isinstance(x.op, (ast.Div, ast.FloorDiv, ast.Mod))]
            if not divs:
                continue
            g = cfgmod.build(f.node)
            for d in divs:
                nd += 1
                den = norm(d.right)
                st = d
                while not isinstance(st, ast.stmt):
                    st = f.module.parent_of[st]
                ok = False
                if isinstance(d.right, ast.Constant) and d.right.value:
                    ok = True
                from ..astutil import expr_facts as _expr_facts
                inner = _expr_facts(f.module, d)
                for nid in g.nodes_of(st):
                    for t, v in list(g.branch_facts(nid)) + inner:
                        tt = norm(t)
                        if v is False and tt in (f"not {den}", f"{den} == 0", f"{den} == 0.0", f"0 == {den}"):
                            ok = True
                        if v is True and tt in (den, f"{den} != 0", f"{den} > 0"):
                            ok = True
                ctx.check(ok, f.fq, norm(d), f"{f.module.relpath}:{d.lineno}", f"division by `{den}` dominated by a non-zero test",
                          f"division `{norm(d)}` is not dominated by a test that `{den}` is non-zero: ZeroDivisionError / nonsense for a zero total or zero elapsed time")
    ctx.floor(nd, 3, "divisions in Task properties")
    # speed: structure
    s = task.method("speed")
    src = norm(s.node)
    ok = "progress[-1].timestamp - progress[0].timestamp" in src and "next(iter_progress)" in src and "sum((sample.completed for sample in iter_progress))" in src
    if not ok:
        ctx.note("Task.speed has been restructured; the (last-first, skip-first) shape is not recognised - only the guarded division is checked")


def r12_5(ctx):
    ctx.rule("R12.5", "track() advances once per element: each loop iterates the `sequence` argument itself, yields the loop variable exactly once and performs exactly one unit increment per iteration after the yield; the helper thread flushes its final count and is signalled before being joined")
    f = ctx.repo.fn("progress:Progress.track")
    seq = f.params[1]
    aliases = alias_map(f.node)
    loops = [x for x in walk_local(f.node) if isinstance(x, ast.For)]
    n = 0
    for lp in loops:
        if not any(isinstance(y, (ast.Yield, ast.YieldFrom)) for y in ast.walk(lp)):
            continue
        n += 1
        where = f"{f.module.relpath}:{lp.lineno}"
        ctx.check(norm(lp.iter) == seq, f.fq, f"for {norm(lp.target)} in {norm(lp.iter)}", where, "iterates the sequence argument itself",
                  f"loop iterates `{norm(lp.iter)}`, not the `{seq}` argument: elements can be skipped, repeated or reordered")
        yields = [y for b in lp.body for y in ast.walk(b) if isinstance(y, ast.Yield)]
        oky = len(yields) == 1 and yields[0].value is not None and norm(yields[0].value) == norm(lp.target)
        ctx.check(oky, f.fq, "yield " + (norm(yields[0].value) if yields and yields[0].value is not None else "?"), where, "yields the loop variable exactly once per iteration",
                  f"loop body yields {[norm(y) for y in yields]}: not exactly the loop variable once")
        incs = []
        for b in lp.body:
            for y in ast.walk(b):
                if isinstance(y, ast.AugAssign) and isinstance(y.op, ast.Add) and norm(y.target).endswith(".completed"):
                    incs.append((y, const_int(y.value)))
                if isinstance(y, ast.Call):
                    cn = norm(expand_alias(y.func, aliases))
                    if cn.endswith(".advance"):
                        amt = y.args[1] if len(y.args) > 1 else None
                        for k in y.keywords:
                            if k.arg == "advance":
                                amt = k.value
                        incs.append((y, const_int(amt) if amt is not None else 1))
                    if cn.endswith(".update") and any(k.arg in ("advance", "completed") for k in y.keywords):
                        incs.append((y, None))
        oki = len(incs) == 1 and incs[0][1] == 1
        ctx.check(oki, f.fq, "; ".join(short(i[0]) for i in incs) or "no increment", where, "exactly one unit increment per element",
                  f"per-element increments are {[(short(i[0]), i[1]) for i in incs]}: completed would not equal the number of elements yielded")
        if oki and yields:
            def _pos(node_):
                # position of the loop-body statement that holds the node (positions, not line numbers: expanded helpers share a line)
                for i_, b_ in enumerate(lp.body):
                    if any(y_ is node_ for y_ in ast.walk(b_)):
                        return i_
                return -1
            ctx.check(_pos(incs[0][0]) > _pos(yields[0]), f.fq, "order yield/increment", where, "the element is counted after it has been yielded",
                      "the increment happens before the yield: an element is counted although the consumer may never receive it")
        ctx.check(not lp.orelse and not any(isinstance(y, (ast.Break, ast.Continue)) for b in lp.body for y in ast.walk(b)), f.fq, "no break/continue", where,
                  "no break/continue skips elements", "loop body can skip the increment or remaining elements (break/continue/else)")
    ctx.floor(n, 2, "yielding loops in Progress.track")
    # no element may be yielded outside those counted loops
    counted = set()
    for lp in loops:
        if any(isinstance(y, (ast.Yield, ast.YieldFrom)) for y in ast.walk(lp)):
            for y in ast.walk(lp):
                counted.add(id(y))
    for y in walk_local(f.node):
        if isinstance(y, (ast.Yield, ast.YieldFrom)) and id(y) not in counted:
            ctx.violation(f.fq, norm(y), f"{f.module.relpath}:{y.lineno}", f"`{norm(y)}` hands elements to the caller outside the loops that count them: on that path (e.g. a disabled display) the task's completed count does not follow the elements yielded")
    tt = ctx.repo.cls("progress:_TrackThread")
    run = tt.method("run")
    ex = tt.method("__exit__")
    if run is None or ex is None:
        raise AnchorVanished("_TrackThread.run/__exit__ not found")
    last = run.node.body[-1]
    okf = isinstance(last, ast.Expr) and isinstance(last.value, ast.Call) and norm(last.value.func).endswith(".update") and any(k.arg == "completed" and norm(k.value) == "self.completed" for k in last.value.keywords)
    ctx.check(okf, run.fq, short(last), f"{run.module.relpath}:{last.lineno}", "helper thread flushes completed=self.completed after its loop",
              "_TrackThread.run does not end with update(completed=self.completed): increments made after the last periodic flush are lost")
    calls = [norm(x.value) for x in ex.node.body if isinstance(x, ast.Expr)]
    try:
        oks = calls.index("self.done.set()") < calls.index("self.join()")
    except ValueError:
        oks = False
    ctx.check(oks, ex.fq, " ; ".join(calls), ex.where, "__exit__ signals done before joining", "_TrackThread.__exit__ does not set `done` before join(): the join can wait forever / the final flush can be skipped")
    # module-level track() forwards the sequence unchanged
    tf = ctx.repo.fn("progress:track")
    fw = [x for x in walk_local(tf.node) if isinstance(x, ast.Call) and norm(x.func).endswith(".track")]
    ok = len(fw) == 1 and fw[0].args and norm(fw[0].args[0]) == tf.params[0]
    ctx.check(ok, tf.fq, short(fw[0]) if fw else "?", tf.where, "track() forwards its sequence argument unchanged to Progress.track", "track() does not forward its `sequence` argument unchanged")


def r12_7(ctx):
    ctx.rule("R12.7", "the two percentage computations agree: Task.percentage and ProgressBar.percentage_completed use the same expression (completed / total) * 100 with the same clamp, so huge values behave identically in the text column and in the bar")
    a = ctx.repo.cls("progress:Task").method("percentage")
    b = ctx.repo.cls("progress_bar:ProgressBar").method("percentage_completed")
    if a is None or b is None:
        raise AnchorVanished("Task.percentage / ProgressBar.percentage_completed not found")

    import copy

    class _Num(ast.NodeTransformer):
        def visit_Constant(self, node):
            if isinstance(node.value, (int, float)) and not isinstance(node.value, bool):
                return ast.copy_location(ast.Constant(value=float(node.value)), node)
            return node

    def factors(e):
        if isinstance(e, ast.BinOp) and isinstance(e.op, ast.Mult):
            return factors(e.left) + factors(e.right)
        return [e]

    def canon(e):
        # commutative product: the order of the factors does not change an IEEE product of two operands
        fs = factors(e)
        if len(fs) == 2:
            return " * ".join(sorted(f"({norm(f)})" if isinstance(f, ast.BinOp) else norm(f) for f in fs))
        return norm(e)

    def shape(fn):
        """Inline the single-assignment locals into the returned expression (names do not matter)."""
        env = {}
        out = None
        for x in walk_local(fn.node):
            if isinstance(x, ast.Assign) and isinstance(x.targets[0], ast.Name):
                v = _Num().visit(copy.deepcopy(x.value))
                v = _Subst(env).visit(v)
                env[x.targets[0].id] = v
            elif isinstance(x, ast.Return) and x.value is not None:
                out = _Subst(env).visit(_Num().visit(copy.deepcopy(x.value)))
        return out

    class _Subst(ast.NodeTransformer):
        def __init__(self, env):
            self.env = env

        def visit_Name(self, node):
            if node.id in self.env:
                return copy.deepcopy(self.env[node.id])
            return node

    def clamp_parts(e):
        """min(hi, max(lo, x)) / max(lo, min(hi, x)) -> (lo, hi, x)"""
        def call(e, name):
            return isinstance(e, ast.Call) and isinstance(e.func, ast.Name) and e.func.id == name and len(e.args) == 2
        if call(e, "min") or call(e, "max"):
            outer = e.func.id
            inner = "max" if outer == "min" else "min"
            consts = [a for a in e.args if isinstance(a, ast.Constant)]
            rest = [a for a in e.args if not isinstance(a, ast.Constant)]
            if len(consts) == 1 and len(rest) == 1 and call(rest[0], inner):
                c2 = [a for a in rest[0].args if isinstance(a, ast.Constant)]
                r2 = [a for a in rest[0].args if not isinstance(a, ast.Constant)]
                if len(c2) == 1 and len(r2) == 1:
                    hi, lo = (consts[0].value, c2[0].value) if outer == "min" else (c2[0].value, consts[0].value)
                    return lo, hi, r2[0]
        return None

    def clamp_by_paths(fn):
        """(0.0, 100.0, x) when every return of fn is 0 / 100 / the same expression x, and x is only returned on paths whose
        facts bound it: x > 0 (or >= 0) and x < 100 (or <= 100) - a clamp written with comparisons"""
        from ..yieldpaths import Unsupported, paths_of, resolve
        try:
            P = [resolve(p_) for p_ in paths_of(fn.node)]
        except Unsupported:
            return None
        xs = set()
        for p_ in P:
            rets = [e for e in p_ if e[0] == "return"]
            if len(rets) != 1 or rets[0][1] is None:
                return None
            try:
                v = _Num().visit(ast.parse(rets[0][1], mode="eval").body)
            except SyntaxError:
                return None
            facts = {}
            for e in p_:
                if e[0] == "cond":
                    try:
                        facts[norm(_Num().visit(ast.parse(e[1], mode="eval").body))] = e[2]
                    except SyntaxError:
                        pass
            if isinstance(v, ast.Constant):
                if not (isinstance(v.value, float) and 0.0 <= v.value <= 100.0):
                    return None
                continue
            x = norm(v)
            if "self.total" not in x:
                continue  # e.g. the `return 0.0`-like early exits already handled; other expressions are not the ratio
            lower = facts.get(f"{x} > 0.0") is True or facts.get(f"{x} < 0.0") is False or facts.get(f"0.0 < {x}") is True
            upper = facts.get(f"{x} < 100.0") is True or facts.get(f"{x} > 100.0") is False or facts.get(f"100.0 > {x}") is True
            if not (lower and upper):
                return None
            xs.add(x)
        if len(xs) != 1:
            return None
        return 0.0, 100.0, ast.parse(next(iter(xs)), mode="eval").body

    parts = []
    for fn in (a, b):
        e = shape(fn)
        cp = clamp_parts(e) if e is not None else None
        if cp is None:
            cp = clamp_by_paths(fn)
        ctx.check(cp is not None and cp[0] == 0.0 and cp[1] == 100.0, fn.fq, norm(e) if e is not None else "?", fn.where,
                  "the result is clamped to 0..100", f"{fn.fq} does not clamp its result to 0..100 with min/max (found `{short(e) if e is not None else '?'}`)")
        if cp is None:
            continue
        x = cp[2]
        fs = factors(x)
        ratio = [f for f in fs if isinstance(f, ast.BinOp) and isinstance(f.op, ast.Div) and norm(f.left) == "self.completed" and norm(f.right) == "self.total"]
        scale = [f for f in fs if isinstance(f, ast.Constant) and f.value == 100.0]
        ctx.check(len(fs) == 2 and len(ratio) == 1 and len(scale) == 1, fn.fq, norm(x), fn.where,
                  "the ratio completed / total is formed first and then scaled by 100",
                  f"{fn.fq} computes `{norm(x)}`: the percentage is not (self.completed / self.total) scaled by 100 - e.g. multiplying before dividing overflows or rounds differently for huge counts, so the value is no longer completed/total as a percentage")
        parts.append(canon(x))
    if len(parts) == 2:
        ctx.check(parts[0] == parts[1], a.fq, f"{parts[0]} vs {parts[1]}", a.where, "the text column and the bar compute the same percentage",
                  f"Task.percentage computes `{parts[0]}` but ProgressBar.percentage_completed computes `{parts[1]}`: the text column and the bar disagree")


def r12_8(ctx):
    ctx.rule("R12.8", "a finish time stays put until the total changes or the task is reset: in Progress.update every call that clears the task's finish bookkeeping (task._reset(), or a store of None to finished_time) is dominated by a test of the `total` argument (a new total was given) - never by the completed / advance arguments; Progress.reset is the only other caller")
    f = ctx.repo.cls("progress:Progress").method("update")
    if f is None:
        raise AnchorVanished("Progress.update not found")
    m = f.module
    g = cfgmod.build(f.node)
    n = 0
    for nd in g.stmt_nodes():
        if nd.kind != "stmt" or nd.stmt is None or isinstance(nd.stmt, (ast.With, ast.Try, ast.If, ast.For, ast.While)):
            continue
        clears = any(isinstance(c, ast.Call) and isinstance(c.func, ast.Attribute) and c.func.attr == "_reset" for c in ast.walk(nd.stmt)) or (
            isinstance(nd.stmt, ast.Assign) and norm(nd.stmt.targets[0]).endswith(".finished_time") and isinstance(nd.stmt.value, ast.Constant) and nd.stmt.value.value is None)
        if not clears:
            continue
        n += 1
        facts = [(norm(t), v) for t, v in g.branch_facts(nd.id)]
        names = {x.id for t, v in g.branch_facts(nd.id) for x in ast.walk(t) if isinstance(x, ast.Name)}
        on_total = any(v is True and t in ("total is not None",) or (v is True and "total" in t.split() and "!=" in t) for t, v in facts)
        other = sorted(names & {"completed", "advance", "description", "visible"})
        ctx.check(on_total and not other, f.fq, short(nd.stmt), f"{m.relpath}:{nd.lineno}", "finish bookkeeping is cleared only when a new total is given",
                  f"`{short(nd.stmt)}` clears the task's finish time / samples under {[t for t, v in facts] or 'no condition'}" + (f", which depends on {other}" if other else "") + ": an update that only changes `completed` on a finished task wipes its recorded finish time and records a new, later one")
    ctx.floor(n, 1, "resets of the finish bookkeeping in Progress.update")


def r12_9(ctx):
    ctx.rule("R12.9", "every request is applied as asked (the accounting statements exist and use the caller's value): Progress.advance adds its `advance` argument to task.completed on every path; Progress.update adds `advance` under `advance is not None`, stores `completed` / `total` / `description` / `visible` under their own `is not None` test; Progress.reset stores its `completed` argument unconditionally - and no other store to task.completed exists in these methods. A dropped or mis-guarded statement is invisible to a test that only calls advance(): update(advance=5) would change nothing")
    cls = ctx.repo.cls("progress:Progress")
    n = 0

    def task_store(st, field):
        """('=', value) / ('+=', value) if st stores <task>.<field>, else None"""
        if isinstance(st, ast.Assign) and len(st.targets) == 1 and isinstance(st.targets[0], ast.Attribute) and st.targets[0].attr == field and isinstance(st.targets[0].value, ast.Name):
            return "=", st.value
        if isinstance(st, ast.AugAssign) and isinstance(st.target, ast.Attribute) and st.target.attr == field and isinstance(st.target.value, ast.Name):
            return ("+=" if isinstance(st.op, ast.Add) else "op="), st.value
        return None
    for mname, wants in (("advance", [("completed", "+=", "advance", None)]),
                         ("update", [("completed", "+=", "advance", "advance"), ("completed", "=", "completed", "completed"), ("total", "=", "total", "total"),
                                     ("description", "=", "description", "description"), ("visible", "=", "visible", "visible")]),
                         ("reset", [("completed", "=", "completed", None)])):
        f = cls.method(mname)
        if f is None:
            raise AnchorVanished(f"progress:Progress.{mname} not found")
        from .common import inline_helpers_in_function
        g = cfgmod.build(f.node)
        dom = g.dominators()
        stmts = [nd for nd in g.stmt_nodes() if nd.kind == "stmt" and nd.stmt is not None]
        for field, op, param, guard in wants:
            if param not in f.params:
                raise AnalysisError(f"Progress.{mname} has no parameter `{param}`; the accounting clause is written differently")
            cands = [nd for nd in stmts if (ts := task_store(nd.stmt, field)) is not None and ts[0] == op and norm(ts[1]) == param]
            n += 1
            where = f.where
            if not cands and op == "=":
                # table-driven form:  for name, value in (("completed", completed), ..): if value is not None: setattr(task, name, value)
                from ..astutil import single_defs as _sdf129
                sd129 = _sdf129(f.node)
                table_ok = None
                for lp in walk_local(f.node):
                    if not (isinstance(lp, ast.For) and isinstance(lp.target, ast.Tuple) and len(lp.target.elts) == 2 and all(isinstance(e_, ast.Name) for e_ in lp.target.elts)):
                        continue
                    it = lp.iter
                    if isinstance(it, ast.Name) and it.id in sd129:
                        it = sd129[it.id]
                    if not isinstance(it, (ast.Tuple, ast.List)):
                        continue
                    an, vn = lp.target.elts[0].id, lp.target.elts[1].id
                    sets = [c_ for c_ in ast.walk(lp) if isinstance(c_, ast.Call) and norm(c_.func) == "setattr" and len(c_.args) == 3 and norm(c_.args[1]) == an and norm(c_.args[2]) == vn]
                    if not sets:
                        continue
                    guarded = any(isinstance(i_, ast.If) and norm(i_.test) == f"{vn} is not None" and any(c_ in list(ast.walk(i_)) for c_ in sets) for i_ in ast.walk(lp))
                    for e_ in it.elts:
                        if isinstance(e_, ast.Tuple) and len(e_.elts) == 2 and isinstance(e_.elts[0], ast.Constant) and e_.elts[0].value == field:
                            table_ok = guarded and norm(e_.elts[1]) == param and (guard is not None)
                if table_ok:
                    ctx.ok(where, f"`{param}` is stored in task.{field} by the table-driven setattr loop, under `is not None`", f.fq)
                    continue
                if table_ok is None and any(isinstance(c_, ast.Call) and norm(c_.func) == "setattr" for c_ in walk_local(f.node)):
                    raise AnalysisError(f"Progress.{mname}: task attributes are stored through setattr in a form this rule does not read; the accounting clause for `{param}` is not decided")
            if not cands:
                ctx.violation(f.fq, f"task.{field} {op} {param}", where, f"Progress.{mname} has no statement `task.{field} {op} {param}`: {mname}({param}=..) does not {'add the amount to' if op == '+=' else 'store the value in'} task.{field}")
                continue
            nd = cands[0]
            where = f"{f.module.relpath}:{nd.lineno}"
            if guard is None:
                ok = nd.id in dom.get(g.exit, set())
                ctx.check(ok, f.fq, short(nd.stmt), where, f"`{short(nd.stmt)}` runs on every normal path of {mname}()", f"`{short(nd.stmt)}` is skipped on some path of Progress.{mname}: the call returns without having applied `{param}`")
            else:
                facts = {(norm(t), v) for t, v in g.branch_facts(nd.id)}
                own = (f"{guard} is not None", True) in facts or (f"{guard} is None", False) in facts
                foreign = [t for t, v in facts if "is not None" in t and not t.startswith(guard + " ") and v is True]
                ctx.check(own and not foreign, f.fq, short(nd.stmt), where, f"`{short(nd.stmt)}` under `{guard} is not None` and nothing else",
                          f"`{short(nd.stmt)}` is not guarded by exactly `{guard} is not None`" + (f" (it also requires {foreign})" if foreign else "") + f": update({guard}=..) is ignored when the other argument is absent")
        # no other store to task.completed
        if mname in ("advance", "update"):
            extra = [nd for nd in stmts if (ts := task_store(nd.stmt, "completed")) is not None and norm(ts[1]) not in ("advance", "completed")]
            for nd in extra:
                ctx.violation(f.fq, short(nd.stmt), f"{f.module.relpath}:{nd.lineno}", f"`{short(nd.stmt)}` writes task.completed with something other than the caller's amount")
    ctx.floor(n, 7, "accounting statements in advance / update / reset")


RULES = [r12_1, r12_2, r12_3, r12_4, r12_5, r12_6, r12_7, r12_8, r12_9]


def _xcheck(ctx):
    from .common import mypy_crosscheck
    mypy_crosscheck(ctx)


THOROUGH = [_xcheck]
