#!/venv/bin/python
"""Maintenance tool (not a check): run every property check against behaviour-preserving refactorings.
For each /tmp/benign_out/<Cxx>/<n>.patch.diff: apply in a scratch worktree of /repo HEAD (/tmp/wt_benign), run all 20 checks with
RICH_REPO pointing there; any exit != 0 is a false alarm of the machinery.  usage: benign_eval.py [Cxx ...]"""
import json
import os
import subprocess
import sys
from concurrent.futures import ThreadPoolExecutor

VERIF = "/verif"
OUT = os.environ.get("BENIGN_DIR", "/tmp/benign_out")
WT = "/tmp/wt_benign"
PY = "/venv/bin/python"


def sh(cmd, cwd=None, env=None, timeout=600):
    e = dict(os.environ)
    if env:
        e.update(env)
    p = subprocess.run(cmd, shell=True, cwd=cwd, capture_output=True, text=True, timeout=timeout, env=e)
    return p.returncode, p.stdout + p.stderr


def main(argv):
    props = [l.split('"id": "')[1][:3] for l in open(f"{VERIF}/properties.jsonl")]
    want = set(argv)
    sh(f"git -C /repo worktree remove --force {WT}; git -C /repo worktree prune; git -C /repo worktree add --detach {WT} HEAD")
    results = {}
    try:
        for d in sorted(os.listdir(OUT)):
            if not os.path.isdir(f"{OUT}/{d}") or (want and d not in want):
                continue
            for fn in sorted(os.listdir(f"{OUT}/{d}")):
                if not fn.endswith(".patch.diff"):
                    continue
                key = f"{d}/{fn.split('.')[0]}"
                sh("git checkout -q -- . && git clean -fdq", cwd=WT)
                rc, out = sh(f"git apply {OUT}/{d}/{fn}", cwd=WT)
                if rc != 0:
                    results[key] = {"apply": "FAILED " + out[-200:]}
                    print(key, "APPLY-FAILED", out[-200:])
                    continue

                def run(p):
                    rc, out = sh(f"{PY} -m sa.check {p}", cwd=VERIF, env={"RICH_REPO": WT, "SA_NO_EVIDENCE": "1"})
                    lines = [l.strip()[:300] for l in out.splitlines() if ((l.strip().startswith("R") and " in " in l) or l.startswith("ANALYSIS-ERROR")) and " instances - " not in l]
                    return p, rc, lines
                with ThreadPoolExecutor(8) as ex:
                    res = list(ex.map(run, props))
                bad = {p: {"exit": rc, "findings": lines[:4]} for p, rc, lines in res if rc != 0}
                results[key] = bad
                print(key, "OK" if not bad else "FALSE-ALARM " + json.dumps(bad, indent=1))
                sys.stdout.flush()
    finally:
        sh(f"git -C /repo worktree remove --force {WT}; git -C /repo worktree prune")
    json.dump(results, open("/tmp/benign_results.json", "w"), indent=1)
    n_bad = sum(1 for v in results.values() if v)
    print(f"{len(results)} patches, {n_bad} with false alarms")


if __name__ == "__main__":
    main(sys.argv[1:])
