"""Sensitivity sweep: in-memory variants of the current source (never written to disk, never
executed) on which a property's rules must fire (breaking variants) or stay silent (benign
variants).  A rule that stays silent on its own broken instance is vacuous.

Used by the thorough tier of every check and by `python -m sa.selftest`.
"""
from __future__ import annotations

import os
from typing import Dict, List, Optional, Tuple

from .index import Repo, REPO_ROOT

# (id, property, file, old, new, expected rule prefix or None for benign)
Variant = Tuple[str, str, str, str, str, Optional[str]]

VARIANTS: List[Variant] = []


def V(id_, prop, file, old, new, rule):
    VARIANTS.append((id_, prop, file, old, new, rule))


def load_catalogue():
    if VARIANTS:
        return VARIANTS
    from . import sweep_catalogue  # noqa: F401  (fills VARIANTS)
    return VARIANTS


def apply_variant(v: Variant, root: Optional[str] = None) -> Optional[Dict[str, str]]:
    """overrides dict for Repo, or None if the variant does not apply to the current tree (stale)."""
    _id, _prop, file, old, new, _rule = v
    path = os.path.join(root or REPO_ROOT, file)
    try:
        src = open(path, encoding="utf-8").read()
    except OSError:
        return None
    pairs = old if isinstance(old, list) else [(old, new)]
    for o, n in pairs:
        if src.count(o) != 1:
            return None
        src = src.replace(o, n)
    return {file: src}


def run_variant(v: Variant) -> Tuple[str, str, str]:
    """(id, status, detail); status in detected / missed / silent / false-alarm / stale / error."""
    from .check import run_property

    vid, prop, file, old, new, rule = v
    ov = apply_variant(v)
    if ov is None:
        return vid, "stale", "pattern not found exactly once in " + file
    try:
        repo = Repo(overrides=ov)
    except Exception as e:
        return vid, "error", f"variant does not parse: {e}"
    ctx = run_property(prop, "quick", repo=repo, quiet=True, write_evidence=False)
    fired = [x for x in ctx.unlisted]
    if rule is None:
        if ctx.exit_code == 0:
            return vid, "silent", ""
        if ctx.exit_code == 2:
            return vid, "false-alarm", "ANALYSIS-ERROR on a behaviour-preserving variant: " + "; ".join(ctx.errors[:2])
        return vid, "false-alarm", "; ".join(f"{x.rule} {x.function}: {x.message[:120]}" for x in fired[:2])
    if ctx.exit_code == 1 and any(x.rule.startswith(rule) for x in fired):
        return vid, "detected", "; ".join(f"{x.rule} {x.where}" for x in fired if x.rule.startswith(rule))[:200]
    if ctx.exit_code == 1:
        return vid, "detected-other", "; ".join(f"{x.rule} {x.where}" for x in fired)[:200]
    if ctx.exit_code == 2:
        return vid, "missed", "ANALYSIS-ERROR instead of a violation: " + "; ".join(ctx.errors[:2])
    return vid, "missed", "no rule fired"


def sweep_property(ctx) -> None:
    """Thorough tier: run every catalogue variant of ctx.prop; record results in ctx."""
    from concurrent.futures import ProcessPoolExecutor

    cat = [v for v in load_catalogue() if v[1] == ctx.prop]
    ctx.rule("SWEEP", "sensitivity sweep: each rule instance broken in an in-memory variant of the current source must be reported by the named rule; behaviour-preserving variants must stay silent")
    if not cat:
        ctx.note("no sweep variants catalogued for this property")
        return
    # only meaningful on a tree where the property currently holds
    results = []
    workers = min(16, len(cat))
    try:
        with ProcessPoolExecutor(max_workers=workers) as ex:
            results = list(ex.map(run_variant, cat))
    except Exception:
        results = [run_variant(v) for v in cat]
    counts: Dict[str, int] = {}
    for (vid, status, detail), v in zip(results, cat):
        counts[status] = counts.get(status, 0) + 1
        where = v[2]
        if status in ("detected", "detected-other", "silent"):
            ctx.ok(where, f"variant {vid}: {status} {detail}")
        elif status == "stale":
            ctx.note(f"variant {vid} stale (source changed): {detail}")
        elif status == "missed":
            if ctx.violations:
                ctx.note(f"variant {vid} not evaluated against a clean baseline (tree already violates): {detail}")
            else:
                ctx.error(f"sweep variant {vid} ({v[5]}) NOT detected - the rule is vacuous for this instance: {detail}")
        elif status == "false-alarm":
            if ctx.violations or ctx.errors:
                ctx.note(f"benign variant {vid} not silent, but the tree itself is not clean: {detail}")
            else:
                ctx.error(f"benign variant {vid} raised an alarm - the rule is too strict: {detail}")
        else:
            ctx.error(f"sweep variant {vid}: {status} {detail}")
    ctx.extra["sweep"] = counts
    ctx.extra["sweep_variants"] = len(cat)
