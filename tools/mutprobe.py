#!/venv/bin/python
"""mutprobe.py [--out FILE] [--only module[,module]] [--jobs N] [--limit N]

Maintenance / discovery tool, NOT a property check and never part of a verdict.

Systematic blind-spot probe: for every function of rich/ that at least one rule says it analysed (the union of
`functions_analysed` over the 20 quick checks on the current tree), derive single-edit mutants by generic operators (comparison
boundary, +-1 on small integer literals, + <-> -, min <-> max, cell_len <-> len, and <-> or, negated test, dropped call
statement, removed `with` region, swapped call arguments, True <-> False keyword) as in-memory source variants (never written to
disk, never executed), and run the checks of every property that analyses something in that module against each one.

Result per mutant: killed (some check exits 1), undecided (only ANALYSIS-ERROR), survived (all silent).  Survivors are NOT
violations of anything - most are equivalent or irrelevant to the properties - they are the reading list for finding clauses the
rules do not reach.  Output: JSON lines + a summary table."""
from __future__ import annotations

import ast
import json
import os
import sys
from concurrent.futures import ProcessPoolExecutor

sys.path.insert(0, "/verif")
os.environ.setdefault("SA_NO_EVIDENCE", "1")

from sa.check import CLAIMED, run_property  # noqa: E402
from sa.index import REPO_ROOT, Repo  # noqa: E402

CMP = {ast.Lt: "<=", ast.LtE: "<", ast.Gt: ">=", ast.GtE: ">", ast.Eq: "!=", ast.NotEq: "=="}
CMPTXT = {ast.Lt: "<", ast.LtE: "<=", ast.Gt: ">", ast.GtE: ">=", ast.Eq: "==", ast.NotEq: "!="}


def offsets(src):
    lines = src.splitlines(keepends=True)
    starts = [0]
    for l in lines:
        starts.append(starts[-1] + len(l.encode("utf-8")))
    return starts


class Mut:
    def __init__(self, src):
        self.src = src
        self.b = src.encode("utf-8")
        self.starts = offsets(src)

    def pos(self, line, col):
        return self.starts[line - 1] + col

    def span(self, node):
        return self.pos(node.lineno, node.col_offset), self.pos(node.end_lineno, node.end_col_offset)

    def text(self, node):
        a, b = self.span(node)
        return self.b[a:b].decode("utf-8")

    def replace(self, a, b, new):
        return (self.b[:a] + new.encode("utf-8") + self.b[b:]).decode("utf-8")


def fq_functions(tree, modname):
    """yield (qualname, node) in the naming used by sa (module:Class.func, nested: outer.<locals>.inner)"""
    def walk(body, prefix):
        for n in body:
            if isinstance(n, (ast.FunctionDef, ast.AsyncFunctionDef)):
                q = f"{prefix}{n.name}"
                yield f"{modname}:{q}", n
                yield from walk(n.body, q + ".<locals>.")
            elif isinstance(n, ast.ClassDef):
                yield from walk(n.body, f"{prefix}{n.name}.")
            elif isinstance(n, (ast.If, ast.Try, ast.With)):
                for sub in ("body", "orelse", "finalbody"):
                    yield from walk(getattr(n, sub, []) or [], prefix)
    yield from walk(tree.body, "")


def mutants_of(m: Mut, fn: ast.AST):
    """yield (operator, lineno, before, after, new_source)"""
    own_nested = {id(x) for n in ast.walk(fn) if n is not fn and isinstance(n, (ast.FunctionDef, ast.AsyncFunctionDef, ast.Lambda)) for x in ast.walk(n)}
    doc = fn.body[0] if fn.body and isinstance(fn.body[0], ast.Expr) and isinstance(getattr(fn.body[0], "value", None), ast.Constant) and isinstance(fn.body[0].value.value, str) else None
    for node in ast.walk(fn):
        if id(node) in own_nested and not isinstance(node, (ast.FunctionDef,)):
            pass  # nested functions are mutated as part of their parent too (they carry the parent's rules)
        if isinstance(node, ast.Compare) and len(node.ops) == 1 and type(node.ops[0]) in CMP:
            a = m.span(node.left)[1]
            b = m.span(node.comparators[0])[0]
            mid = m.b[a:b].decode("utf-8")
            old = CMPTXT[type(node.ops[0])]
            if mid.count(old) == 1:
                yield "cmp", node.lineno, m.text(node), None, m.replace(a, b, mid.replace(old, CMP[type(node.ops[0])]))
        elif isinstance(node, ast.BinOp) and isinstance(node.op, (ast.Add, ast.Sub)):
            if isinstance(node.left, ast.Constant) and isinstance(node.left.value, str):
                continue
            if isinstance(node.right, ast.Constant) and isinstance(node.right.value, str):
                continue
            a = m.span(node.left)[1]
            b = m.span(node.right)[0]
            mid = m.b[a:b].decode("utf-8")
            old, new = ("+", "-") if isinstance(node.op, ast.Add) else ("-", "+")
            if mid.count(old) == 1 and "(" not in mid and ")" not in mid:
                yield "addsub", node.lineno, m.text(node), None, m.replace(a, b, mid.replace(old, new))
        elif isinstance(node, ast.Constant) and type(node.value) is int and 0 <= node.value <= 8 and not isinstance(getattr(node, "_parent", None), ast.Subscript):
            a, b = m.span(node)
            if m.b[a:b].decode() == str(node.value):
                yield "const+1", node.lineno, str(node.value), str(node.value + 1), m.replace(a, b, str(node.value + 1))
                if node.value > 0:
                    yield "const-1", node.lineno, str(node.value), str(node.value - 1), m.replace(a, b, str(node.value - 1))
        elif isinstance(node, ast.Call) and isinstance(node.func, ast.Name) and node.func.id in ("min", "max", "cell_len", "_cell_len", "len", "any", "all"):
            swap = {"min": "max", "max": "min", "cell_len": "len", "_cell_len": "len", "any": "all", "all": "any"}
            a, b = m.span(node.func)
            if node.func.id == "len":
                # only where the argument looks like text
                arg = node.args[0] if node.args else None
                t = m.text(arg) if arg is not None else ""
                if not any(k in t for k in ("text", "plain", "line", "word", "title", "label", "str(")):
                    continue
                if "cell_len" not in m.src:
                    continue
                yield "len->cell_len", node.lineno, m.text(node), None, m.replace(a, b, "cell_len" if "import cell_len" in m.src or "def cell_len" in m.src else "_cell_len")
            else:
                yield "callswap", node.lineno, m.text(node), None, m.replace(a, b, swap[node.func.id])
        elif isinstance(node, ast.BoolOp):
            a = m.span(node.values[0])[1]
            b = m.span(node.values[1])[0]
            mid = m.b[a:b].decode("utf-8")
            old, new = (" and ", " or ") if isinstance(node.op, ast.And) else (" or ", " and ")
            if old.strip() in mid.split() and "(" not in mid and ")" not in mid:
                yield "boolop", node.lineno, m.text(node), None, m.replace(a, b, mid.replace(old.strip(), new.strip(), 1))
        if isinstance(node, (ast.If, ast.While)) or isinstance(node, ast.IfExp):
            t = node.test
            a, b = m.span(t)
            txt = m.text(t)
            if isinstance(t, ast.UnaryOp) and isinstance(t.op, ast.Not):
                yield "negate", node.lineno, txt, None, m.replace(a, b, "(" + m.text(t.operand) + ")")
            elif not (isinstance(node, ast.While) and isinstance(t, ast.Constant)):
                yield "negate", node.lineno, txt, None, m.replace(a, b, "not (" + txt + ")")
        if isinstance(node, ast.Expr) and node is not doc and isinstance(node.value, ast.Call):
            a, b = m.span(node)
            yield "dropcall", node.lineno, m.text(node), None, m.replace(a, b, "pass")
        if isinstance(node, ast.AugAssign):
            a, b = m.span(node)
            yield "dropaug", node.lineno, m.text(node), None, m.replace(a, b, "pass")
        if isinstance(node, ast.With) and len(node.items) == 1 and node.items[0].optional_vars is None:
            # `with X:` -> `if True:` (region removed, body kept)
            a = m.pos(node.lineno, node.col_offset)
            b = m.span(node.items[0].context_expr)[1]
            yield "dropwith", node.lineno, "with " + m.text(node.items[0].context_expr), None, m.replace(a, b, "if True")
        if isinstance(node, ast.Call) and len(node.args) == 2 and not node.keywords and not any(isinstance(x, ast.Starred) for x in node.args):
            a0, b0 = m.span(node.args[0])
            a1, b1 = m.span(node.args[1])
            t0, t1 = m.text(node.args[0]), m.text(node.args[1])
            if t0 != t1 and isinstance(node.func, (ast.Name, ast.Attribute)) and (m.text(node.func).split(".")[-1] in ("divmod", "range", "min", "max", "isinstance", "getattr", "setattr", "hasattr", "zip", "partition", "split", "replace", "join") ) is False:
                src2 = m.replace(a1, b1, t0)
                m2 = Mut(src2)
                yield "swapargs", node.lineno, m.text(node), None, m2.replace(a0, b0, t1)
        if isinstance(node, ast.keyword) and isinstance(node.value, ast.Constant) and isinstance(node.value.value, bool):
            a, b = m.span(node.value)
            yield "boolflip", node.value.lineno, f"{node.arg}={node.value.value}", None, m.replace(a, b, str(not node.value.value))
        if isinstance(node, ast.Return) and node.value is not None and isinstance(node.value, ast.Name) is False and isinstance(node.value, ast.Constant) and isinstance(node.value.value, bool):
            a, b = m.span(node.value)
            yield "retflip", node.lineno, m.text(node), None, m.replace(a, b, str(not node.value.value))


_BASE = {}


def _job(args):
    mid, file, fq, op, line, before, new_src, props = args
    try:
        compile(new_src, file, "exec")
    except SyntaxError as e:
        return mid, {"status": "invalid", "detail": str(e)}
    try:
        repo = Repo(overrides={file: new_src})
    except Exception as e:
        return mid, {"status": "invalid", "detail": repr(e)[:200]}
    res = {}
    killed, undec = [], []
    for p in props:
        try:
            ctx = run_property(p, "quick", repo=repo, quiet=True, write_evidence=False)
        except Exception as e:  # pragma: no cover
            res[p] = {"exit": 2, "detail": repr(e)[:200]}
            undec.append(p)
            continue
        if ctx.exit_code == 1:
            killed.append(p)
            res[p] = {"exit": 1, "rules": sorted({v.rule for v in ctx.unlisted})[:6]}
        elif ctx.exit_code == 2:
            undec.append(p)
            res[p] = {"exit": 2, "detail": (ctx.errors[0][:160] if ctx.errors else "")}
    status = "killed" if killed else ("undecided" if undec else "survived")
    return mid, {"status": status, "by": res}


def main(argv):
    out = "/tmp/mutprobe.jsonl"
    only = None
    jobs = 16
    limit = None
    i = 0
    while i < len(argv):
        if argv[i] == "--out":
            out = argv[i + 1]; i += 2
        elif argv[i] == "--only":
            only = set(argv[i + 1].split(",")); i += 2
        elif argv[i] == "--jobs":
            jobs = int(argv[i + 1]); i += 2
        elif argv[i] == "--limit":
            limit = int(argv[i + 1]); i += 2
        else:
            i += 1
    repo = Repo()
    analysed = {}
    for p in CLAIMED:
        ctx = run_property(p, "quick", repo=repo, quiet=True, write_evidence=False)
        if ctx.exit_code not in (0,):
            print("tree not clean for", p, "- probe is only meaningful on a clean tree")
        for fn in ctx.functions_analysed:
            analysed.setdefault(fn, set()).add(p)
    by_mod = {}
    for fn, ps in analysed.items():
        by_mod.setdefault(fn.split(":")[0], set()).update(ps)
    todo = []
    pkg = os.path.join(REPO_ROOT, "rich")
    for modname in sorted(by_mod):
        if only and modname not in only:
            continue
        file = f"rich/{modname}.py"
        path = os.path.join(REPO_ROOT, file)
        if not os.path.exists(path):
            continue
        src = open(path, encoding="utf-8").read()
        tree = ast.parse(src)
        for parent in ast.walk(tree):
            for ch in ast.iter_child_nodes(parent):
                if isinstance(parent, ast.Subscript) and ch is parent.slice:
                    ch._parent = parent
        m = Mut(src)
        seen_src = set()
        for fq, node in fq_functions(tree, modname):
            if fq not in analysed or ".<locals>." in fq:
                continue
            props = sorted(by_mod[modname])
            for k, (op, line, before, after, new_src) in enumerate(mutants_of(m, node)):
                h = hash(new_src)
                if h in seen_src or new_src == src:
                    continue
                seen_src.add(h)
                mid = f"{fq}#{op}@{line}.{k}"
                todo.append((mid, file, fq, op, line, before[:160], new_src, props))
    if limit:
        import random
        random.Random(1).shuffle(todo)
        todo = todo[:limit]
    print(f"{len(todo)} mutants over {len({t[2] for t in todo})} functions", flush=True)
    counts = {}
    per_op = {}
    with open(out, "w") as fo, ProcessPoolExecutor(max_workers=jobs) as ex:
        for (mid, r), t in zip(ex.map(_job, todo, chunksize=2), todo):
            rec = {"id": mid, "file": t[1], "function": t[2], "op": t[3], "line": t[4], "before": t[5], **r}
            fo.write(json.dumps(rec) + "\n")
            fo.flush()
            counts[r["status"]] = counts.get(r["status"], 0) + 1
            per_op.setdefault(t[3], {}).setdefault(r["status"], 0)
            per_op[t[3]][r["status"]] += 1
    print(json.dumps(counts))
    for op, c in sorted(per_op.items()):
        print(f"  {op:14s} {c}")


if __name__ == "__main__":
    main(sys.argv[1:])
