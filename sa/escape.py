"""Exception-escape (effect) analysis over precise may-raise sources.

Sources (each precise, none heuristic):
  * explicit `raise` (argument-contract raises guarded by isinstance on a parameter are excluded);
  * int(E[,base]) / float(E) unless E is provably a digit string (regex-group provenance, sound
    predicate guard) -> ValueError;
  * next(it) without default -> StopIteration (RuntimeError when it escapes a generator body);
  * tuple-unpack of a `.split()` result without a dominating length test -> ValueError;
  * subscript of a module-level dict literal with a non-constant key and no dominating membership
    test -> KeyError;
  * whatever escapes from resolved callees.
Handlers subtract by the exception class hierarchy (builtins + classes defined in rich).
"""
from __future__ import annotations

import ast
import re
from typing import Dict, List, Optional, Set, Tuple

from . import regexast
from .astutil import alias_map, call_name, const_int, expand_alias
from .index import FuncInfo, norm, short, walk_local

BUILTIN_BASES = {
    "BaseException": None, "Exception": "BaseException", "ArithmeticError": "Exception", "ZeroDivisionError": "ArithmeticError",
    "LookupError": "Exception", "KeyError": "LookupError", "IndexError": "LookupError", "ValueError": "Exception",
    "UnicodeError": "ValueError", "UnicodeEncodeError": "UnicodeError", "UnicodeDecodeError": "UnicodeError", "TypeError": "Exception",
    "StopIteration": "Exception", "RuntimeError": "Exception", "RecursionError": "RuntimeError", "NotImplementedError": "RuntimeError",
    "AssertionError": "Exception", "AttributeError": "Exception", "OSError": "Exception", "ImportError": "Exception", "NameError": "Exception",
    "GeneratorExit": "BaseException", "KeyboardInterrupt": "BaseException", "OverflowError": "ArithmeticError",
}


def _digit_guard(preds, a):
    """'nonempty' when a predicate proves `a` a non-empty ASCII-decimal string, 'maybe-empty' for `<that> or not a`, else None"""
    strict = (f"{a}.isdecimal()", f"{a}.isascii() and {a}.isdigit()", f"{a}.isdigit() and {a}.isascii()")
    empties = (f"not {a}", f"{a} == ''", f"len({a}) == 0", f"not len({a})")
    res = None
    for p in preds:
        if p in strict:
            return "nonempty"
        for st in strict:
            for em in empties:
                if p in (f"{st} or {em}", f"{em} or {st}"):
                    res = "maybe-empty"
    return res


class Witness:
    def __init__(self, exc: str, where: str, what: str, path: List[str]):
        self.exc, self.where, self.what, self.path = exc, where, what, path

    def via(self, hop: str) -> "Witness":
        return Witness(self.exc, self.where, self.what, [hop] + self.path)


class EscapeAnalysis:
    def __init__(self, repo, cg, skip: Optional[Dict[str, str]] = None, edge_accept=None):
        self.repo = repo
        self.cg = cg
        self.bases: Dict[str, Optional[str]] = dict(BUILTIN_BASES)
        for c in repo.all_classes():
            if c.bases:
                self.bases.setdefault(c.name, c.bases[0].split(".")[-1])
        self.memo: Dict[str, Dict[str, Witness]] = {}
        self.active: Set[str] = set()
        self.skip = skip or {}  # callee fq -> reason (summarised as total)
        self.edge_accept = edge_accept or {}  # (caller fq, callee fq, exc) -> reason
        self.sites_examined = 0
        self.functions: Set[str] = set()
        self.notes: List[str] = []

    # -- hierarchy --------------------------------------------------------
    def is_sub(self, exc: str, handler: str) -> bool:
        cur: Optional[str] = exc
        seen = 0
        while cur is not None and seen < 20:
            if cur == handler:
                return True
            cur = self.bases.get(cur, "Exception" if cur not in ("BaseException",) else None)
            seen += 1
        return False

    @staticmethod
    def handler_types(h: ast.ExceptHandler) -> List[str]:
        if h.type is None:
            return ["BaseException"]
        if isinstance(h.type, ast.Tuple):
            return [norm(e).split(".")[-1] for e in h.type.elts]
        return [norm(h.type).split(".")[-1]]

    # -- provenance of strings fed to int() --------------------------------
    def _regex_of_match(self, f: FuncInfo, mname: str):
        """(parsed regex, description) for a match object variable."""
        mod = f.module
        for n in walk_local(f.node):
            src = None
            if isinstance(n, ast.Assign) and len(n.targets) == 1 and norm(n.targets[0]) == mname:
                src = n.value
            elif isinstance(n, ast.For) and norm(n.target) == mname:
                src = n.iter
            if isinstance(src, ast.Call) and isinstance(src.func, ast.Attribute) and src.func.attr in ("match", "fullmatch", "search", "finditer") and isinstance(src.func.value, ast.Name):
                rname = src.func.value.id
                try:
                    gv = mod.global_assign(rname)
                except Exception:
                    continue
                c = regexast.compile_call(gv)
                if c is not None:
                    return regexast.parse_call(c), rname
        return None, None

    def str_lang(self, f: FuncInfo, e: ast.AST, depth: int = 0):
        """(chars set or None, minwidth, description) language of the string expression e, or None."""
        if depth > 6:
            return None
        if isinstance(e, ast.Constant) and isinstance(e.value, str):
            return ({("lit", ch) for ch in e.value}, len(e.value), repr(e.value))
        if isinstance(e, ast.Subscript) and isinstance(e.slice, ast.Slice):
            base = self.str_lang(f, e.value, depth + 1)
            lo = const_int(e.slice.lower) if e.slice.lower is not None else 0
            hi = const_int(e.slice.upper) if e.slice.upper is not None else None
            if base and lo is not None and hi is not None and 0 <= lo < hi <= base[1]:
                return (base[0], hi - lo, f"{base[2]}[{lo}:{hi}]")
            if base:
                return (base[0], 0, f"slice of {base[2]}")
            return None
        if isinstance(e, ast.Call) and isinstance(e.func, ast.Attribute) and e.func.attr in ("lower", "upper", "strip", "lstrip", "rstrip"):
            base = self.str_lang(f, e.func.value, depth + 1)
            if base:
                return (base[0], base[1] if e.func.attr in ("lower", "upper") else 0, base[2])
            return None
        if isinstance(e, ast.BoolOp) and isinstance(e.op, ast.Or) and len(e.values) == 2:
            # A or B on strings: A when it is non-empty, else B
            a, b = self.str_lang(f, e.values[0], depth + 1), self.str_lang(f, e.values[1], depth + 1)
            if a and b:
                return (a[0] | b[0], min(max(a[1], 1), b[1]), f"({a[2]} or {b[2]})")
            return None
        if isinstance(e, ast.Name):
            defs = self._defs_of(f, e.id)
            if not defs:
                return None
            langs = []
            for kind, node, extra in defs:
                if kind == "groups":
                    sp, rname = self._regex_of_match(f, extra[0])
                    if sp is None:
                        return None
                    sub = regexast.group_subpattern(sp, extra[1] + 1)
                    if sub is None:
                        return None
                    cs = regexast.chars_of(sub)
                    if cs is None:
                        return None
                    langs.append((cs, sub.getwidth()[0], f"group {extra[1] + 1} of {rname}"))
                elif kind == "split-elem":
                    base = self.str_lang(f, extra[0], depth + 1)
                    if base is None:
                        return None
                    sep = extra[1]
                    cs = {a for a in base[0] if not (a[0] == "lit" and a[1] in sep)}
                    langs.append((cs, 0, f"piece of {base[2]}.split({sep!r})"))
                elif kind == "assign":
                    l = self.str_lang(f, node, depth + 1)
                    if l is None:
                        return None
                    langs.append(l)
                else:
                    return None
            cs: Set = set()
            mw = min(l[1] for l in langs)
            for l in langs:
                cs |= l[0]
            return (cs, mw, " | ".join(l[2] for l in langs))
        return None

    INT_MAX_STR_DIGITS = 4300  # sys.int_max_str_digits default (CPython >= 3.11, and 3.7-3.10 security releases)

    def str_maxlen(self, f: FuncInfo, e: ast.AST, depth: int = 0) -> Optional[int]:
        """Upper bound of len(e) for a string expression, None if none is known."""
        if depth > 6:
            return None
        if isinstance(e, ast.Constant) and isinstance(e.value, str):
            return len(e.value)
        if isinstance(e, ast.Subscript) and isinstance(e.slice, ast.Slice) and e.slice.step is None:
            lo = const_int(e.slice.lower) if e.slice.lower is not None else 0
            hi = const_int(e.slice.upper) if e.slice.upper is not None else None
            if lo is not None and hi is not None and 0 <= lo <= hi:
                return hi - lo
            if e.slice.upper is None and lo is not None and lo < 0:
                return -lo
            return self.str_maxlen(f, e.value, depth + 1)
        if isinstance(e, ast.Call) and isinstance(e.func, ast.Attribute) and e.func.attr in ("lower", "upper", "strip", "lstrip", "rstrip", "casefold") :
            return self.str_maxlen(f, e.func.value, depth + 1)
        if isinstance(e, ast.BoolOp):
            parts = [self.str_maxlen(f, v, depth + 1) for v in e.values]
            return None if any(x is None for x in parts) else max(parts)
        if isinstance(e, ast.IfExp):
            parts = [self.str_maxlen(f, v, depth + 1) for v in (e.body, e.orelse)]
            return None if any(x is None for x in parts) else max(parts)
        if isinstance(e, ast.Name):
            defs = self._defs_of(f, e.id)
            if not defs:
                return None
            out = []
            for kind, node, extra in defs:
                if kind == "groups":
                    sp, _r = self._regex_of_match(f, extra[0])
                    sub = regexast.group_subpattern(sp, extra[1] + 1) if sp is not None else None
                    if sub is None:
                        return None
                    hi = sub.getwidth()[1]
                    if hi >= 65535:
                        return None
                    out.append(int(hi))
                elif kind == "split-elem":
                    b = self.str_maxlen(f, extra[0], depth + 1)
                    if b is None:
                        return None
                    out.append(b)
                elif kind == "assign":
                    b = self.str_maxlen(f, node, depth + 1)
                    if b is None:
                        return None
                    out.append(b)
                else:
                    return None
            # explicit length guards  `len(x) <= k` / `len(x) < k` among the predicates are handled by the caller
            return max(out)
        return None

    def _digits_bounded(self, f: FuncInfo, call: ast.Call, arg: ast.AST) -> Tuple[bool, str]:
        b = self.str_maxlen(f, arg)
        if b is not None and b <= self.INT_MAX_STR_DIGITS:
            return True, ""
        if isinstance(arg, ast.Name):
            a = arg.id
            for p in self._guard_predicates(f, call, a):
                m = re.fullmatch(rf"len\({re.escape(a)}\) (<=|<) (\d+)", p)
                if m and int(m.group(2)) <= self.INT_MAX_STR_DIGITS:
                    return True, ""
        return False, (f"digit string `{norm(arg)}` of unbounded length: int() raises ValueError ('Exceeds the limit (4300 digits) for integer string conversion') "
                       f"for more than sys.int_max_str_digits digits on CPython >= 3.11 - bound the length (slice, {{m,n}} in the regex, len() guard) before converting")

    def _defs_of(self, f: FuncInfo, name: str):
        """Definitions of a local name: list of (kind, node, extra)."""
        out = []
        for n in walk_local(f.node):
            if isinstance(n, ast.Assign):
                for t in n.targets:
                    if isinstance(t, ast.Name) and t.id == name:
                        v = n.value
                        if isinstance(v, ast.Call) and isinstance(v.func, ast.Attribute) and v.func.attr == "split":
                            out.append(("split", v, None))
                        else:
                            out.append(("assign", v, None))
                    elif isinstance(t, (ast.Tuple, ast.List)):
                        for i, el in enumerate(t.elts):
                            if isinstance(el, ast.Name) and el.id == name:
                                v = n.value
                                if isinstance(v, ast.Call) and isinstance(v.func, ast.Attribute) and v.func.attr == "groups" and isinstance(v.func.value, ast.Name):
                                    out.append(("groups", v, (v.func.value.id, i)))
                                elif isinstance(v, ast.Name):
                                    # unpack of a split result?
                                    sd = [d for d in self._defs_of(f, v.id) if d[0] == "split"]
                                    if sd:
                                        sc = sd[0][1]
                                        sep = sc.args[0].value if sc.args and isinstance(sc.args[0], ast.Constant) else " "
                                        out.append(("split-elem", v, (sc.func.value, sep)))
                                    else:
                                        out.append(("other", v, None))
                                else:
                                    out.append(("other", v, None))
            elif isinstance(n, (ast.For, ast.comprehension)):
                if isinstance(n.target, ast.Name) and n.target.id == name:
                    it = n.iter
                    if isinstance(it, ast.Call) and isinstance(it.func, ast.Attribute) and it.func.attr == "split":
                        sep = it.args[0].value if it.args and isinstance(it.args[0], ast.Constant) else " "
                        out.append(("split-elem", it, (it.func.value, sep)))
                    else:
                        out.append(("other", it, None))
            elif isinstance(n, ast.AnnAssign) and isinstance(n.target, ast.Name) and n.target.id == name and n.value is not None:
                out.append(("assign", n.value, None))
        if name in f.params:
            out.append(("param", None, None))
        return out

    def _guard_predicates(self, f: FuncInfo, call: ast.Call, argname: str) -> List[str]:
        """String predicates on `argname` that dominate the call lexically (comprehension ifs, enclosing If tests)."""
        preds = []
        mod = f.module
        cur = mod.parent_of.get(call)
        prev = call
        while cur is not None and cur is not f.node:
            if isinstance(cur, (ast.ListComp, ast.GeneratorExp, ast.SetComp)):
                for g in cur.generators:
                    for cond in g.ifs:
                        preds.append(norm(cond))
            if isinstance(cur, ast.If) and any(prev is s or prev in list(ast.walk(s)) for s in cur.body):
                preds.append(norm(cur.test))
            if isinstance(cur, ast.IfExp) and (prev is cur.body):
                preds.append(norm(cur.test))
            prev = cur
            cur = mod.parent_of.get(cur)
        return preds

    def int_call_safe(self, f: FuncInfo, call: ast.Call) -> Tuple[bool, str]:
        fname = call_name(call)
        if not call.args:
            return True, ""
        arg = call.args[0]
        base = 10
        if fname == "int" and len(call.args) > 1:
            b = const_int(call.args[1])
            base = b if b is not None else 10
        if isinstance(arg, ast.Constant):
            return True, ""
        # numeric expressions (not strings) are fine: int(x * 2), int(self.type), int(red) for float params
        if isinstance(arg, (ast.BinOp, ast.UnaryOp, ast.Attribute)) or (isinstance(arg, ast.Call) and call_name(arg) in ("round", "len", "min", "max", "abs", "ceil", "floor")):
            return True, ""
        if isinstance(arg, ast.Name):
            preds = self._guard_predicates(f, call, arg.id)
            a = arg.id
            dg = _digit_guard(preds, a)
            if dg == "nonempty":
                return self._digits_bounded(f, call, arg) if base == 10 else (True, "")
            if dg == "maybe-empty":
                return False, f"`{a}` can be the empty string (the guard lets '' through)"
            for p in preds:
                if p == f"{a}.isdigit()" or f"{a}.isdigit()" in p:
                    return False, f"guarded only by {a}.isdigit(), which is true for characters int() rejects (e.g. superscript digits like '²')"
                if f"{a}.isnumeric()" in p:
                    return False, f"guarded only by {a}.isnumeric(), which is true for characters int() rejects"
            defs = self._defs_of(f, a)
            if defs and all(d[0] == "param" for d in defs):
                # numeric parameter by annotation?
                for x in f.node.args.args + f.node.args.kwonlyargs:
                    if x.arg == a and x.annotation is not None and norm(x.annotation) in ("int", "float", "bool"):
                        return True, ""
                    if x.arg == a and x.annotation is not None and norm(x.annotation) == "str":
                        return False, f"string parameter `{a}` is not validated before conversion"
                return True, ""  # untyped parameter: numeric by contract
        # a sub-string of a validated name: slices and strips of `a` keep only characters of `a`; `<sub> or "<digits>"` cannot be empty
        def derived(e):
            if isinstance(e, ast.Name):
                return e.id, True
            if isinstance(e, ast.Subscript) and isinstance(e.slice, ast.Slice):
                d = derived(e.value)
                return (d[0], False) if d else None
            if isinstance(e, ast.Call) and isinstance(e.func, ast.Attribute) and e.func.attr in ("strip", "lstrip", "rstrip") and not e.keywords:
                d = derived(e.func.value)
                return (d[0], False) if d else None
            if isinstance(e, ast.BoolOp) and isinstance(e.op, ast.Or) and len(e.values) == 2 and isinstance(e.values[1], ast.Constant) and isinstance(e.values[1].value, str) and e.values[1].value.isascii() and e.values[1].value.isdigit():
                d = derived(e.values[0])
                return (d[0], True) if d else None
            return None
        dv = derived(arg) if not isinstance(arg, ast.Name) else None
        if dv is not None and base == 10:
            a = dv[0]
            preds = self._guard_predicates(f, call, a)
            if _digit_guard(preds, a) is not None:
                if not dv[1]:
                    return False, f"argument `{norm(arg)}` can be the empty string"
                return self._digits_bounded(f, call, arg)
            for p in preds:
                if p == f"{a}.isdigit()" or f"{a}.isdigit()" in p:
                    return False, f"guarded only by {a}.isdigit(), which is true for characters int() rejects (e.g. superscript digits like '²')"
                if f"{a}.isnumeric()" in p:
                    return False, f"guarded only by {a}.isnumeric(), which is true for characters int() rejects"
        lang = self.str_lang(f, arg)
        if lang is None:
            if isinstance(arg, ast.Name) and any(d[0] in ("other",) for d in self._defs_of(f, arg.id)):
                return True, ""  # provenance is not a string we track (loop over ints etc.)
            if isinstance(arg, ast.Name) and any(d[0] == "assign" and not isinstance(d[1], (ast.Constant, ast.JoinedStr)) for d in self._defs_of(f, arg.id)):
                return True, ""
            return True, ""
        cs, mw, desc = lang
        if mw < 1:
            return False, f"argument ({desc}) can be the empty string"
        allowed = "0123456789" if base == 10 else "0123456789abcdefABCDEF"
        for atom in sorted(cs):
            if atom[0] == "lit" and atom[1] not in allowed:
                return False, f"argument ({desc}) can contain {atom[1]!r}"
            if atom[0] == "range":
                for c in range(ord(atom[1]), ord(atom[2]) + 1):
                    if chr(c) not in allowed:
                        return False, f"argument ({desc}) can contain {chr(c)!r}"
            if atom[0] == "cat":
                if "DIGIT" in atom[1] and "NOT" not in atom[1] and base == 10:
                    continue
                return False, f"argument ({desc}) can contain characters of category {atom[1].split('.')[-1]}"
        if base == 10:
            return self._digits_bounded(f, call, arg)
        return True, ""

    # -- per-function escape sets -----------------------------------------
    def escapes(self, f: FuncInfo) -> Dict[str, Witness]:
        if f.fq in self.memo:
            return self.memo[f.fq]
        if f.fq in self.active:
            return {}
        self.active.add(f.fq)
        self.functions.add(f.fq)
        out: Dict[str, Witness] = {}
        try:
            self._block(f, f.node.body, [], out, f.is_generator, None)
        finally:
            self.active.discard(f.fq)
        self.memo[f.fq] = out
        return out

    def _emit(self, f: FuncInfo, exc: str, node, what: str, handlers: List[List[str]], out: Dict[str, Witness], in_gen: bool, wit: Optional[Witness] = None):
        for hs in reversed(handlers):
            for h in hs:
                if h.startswith("suppress:"):
                    if self.is_sub(exc, h[9:]):
                        return
                elif self.is_sub(exc, h):
                    return
        if in_gen and exc == "StopIteration":
            exc = "RuntimeError"
            what = what + " (StopIteration escaping a generator body becomes RuntimeError, PEP 479)"
        where = f"{f.module.relpath}:{getattr(node, 'lineno', 0)}"
        if exc not in out:
            if wit is not None:
                out[exc] = Witness(exc, wit.where, wit.what, [f"{f.fq} ({where}) calls"] + wit.path)
            else:
                out[exc] = Witness(exc, where, what, [f"{f.fq} ({where}): {what}"])

    def _is_contract_raise(self, f: FuncInfo, r: ast.Raise) -> bool:
        mod = f.module
        cur = mod.parent_of.get(r)
        while cur is not None and cur is not f.node:
            if isinstance(cur, ast.If) and "isinstance(" in norm(cur.test):
                names = {n.id for n in ast.walk(cur.test) if isinstance(n, ast.Name)}
                if names & set(f.params):
                    return True
            cur = mod.parent_of.get(cur)
        return False

    def _block(self, f: FuncInfo, stmts, handlers: List[List[str]], out, in_gen: bool, cur_handler: Optional[List[str]]):
        for st in stmts:
            self._stmt(f, st, handlers, out, in_gen, cur_handler)

    def _stmt(self, f: FuncInfo, st, handlers, out, in_gen, cur_handler):
        if isinstance(st, (ast.FunctionDef, ast.AsyncFunctionDef, ast.ClassDef)):
            return
        if isinstance(st, ast.Try):
            caught = []
            for h in st.handlers:
                caught += self.handler_types(h)
            self._block(f, st.body, handlers + [caught], out, in_gen, cur_handler)
            for h in st.handlers:
                self._block(f, h.body, handlers, out, in_gen, self.handler_types(h))
            self._block(f, st.orelse, handlers, out, in_gen, cur_handler)
            self._block(f, st.finalbody, handlers, out, in_gen, cur_handler)
            return
        if isinstance(st, (ast.With, ast.AsyncWith)):
            sup = []
            for it in st.items:
                ce = it.context_expr
                if isinstance(ce, ast.Call) and call_name(ce).endswith("suppress"):
                    for a in ce.args:
                        sup.append("suppress:" + norm(a).split(".")[-1])
                self._expr(f, ce, handlers, out, in_gen)
            self._block(f, st.body, handlers + ([sup] if sup else []), out, in_gen, cur_handler)
            return
        if isinstance(st, ast.If):
            self._expr(f, st.test, handlers, out, in_gen)
            self._block(f, st.body, handlers, out, in_gen, cur_handler)
            self._block(f, st.orelse, handlers, out, in_gen, cur_handler)
            return
        if isinstance(st, (ast.For, ast.AsyncFor)):
            self._expr(f, st.iter, handlers, out, in_gen)
            self._block(f, st.body, handlers, out, in_gen, cur_handler)
            self._block(f, st.orelse, handlers, out, in_gen, cur_handler)
            return
        if isinstance(st, ast.While):
            self._expr(f, st.test, handlers, out, in_gen)
            self._block(f, st.body, handlers, out, in_gen, cur_handler)
            self._block(f, st.orelse, handlers, out, in_gen, cur_handler)
            return
        if isinstance(st, ast.Raise):
            self.sites_examined += 1
            if st.exc is None:
                for t in (cur_handler or ["Exception"]):
                    self._emit(f, t, st, "re-raise", handlers, out, in_gen)
                return
            e = st.exc.func if isinstance(st.exc, ast.Call) else st.exc
            name = norm(e).split(".")[-1]
            if isinstance(st.exc, ast.Call):
                for a in st.exc.args:
                    self._expr(f, a, handlers, out, in_gen)
            if self._is_contract_raise(f, st):
                return
            if isinstance(e, ast.Name) and e.id not in self.bases and cur_handler:
                # `raise error` re-raising the caught object
                for t in cur_handler:
                    self._emit(f, t, st, f"raise {e.id}", handlers, out, in_gen)
                return
            self._emit(f, name, st, f"raise {name}", handlers, out, in_gen)
            return
        if isinstance(st, ast.Assign) and len(st.targets) == 1 and isinstance(st.targets[0], (ast.Tuple, ast.List)) and isinstance(st.value, ast.Name):
            # unpack of a split result
            sd = [d for d in self._defs_of(f, st.value.id) if d[0] == "split"]
            if sd:
                self.sites_examined += 1
                k = len(st.targets[0].elts)
                if not self._len_guard(f, st, st.value.id, k):
                    self._emit(f, "ValueError", st, f"unpacking {st.value.id} (a .split() result) into {k} names without a dominating length test", handlers, out, in_gen)
        if isinstance(st, ast.Assign) and len(st.targets) == 1 and isinstance(st.targets[0], (ast.Tuple, ast.List)) and isinstance(st.value, ast.Call) \
                and isinstance(st.value.func, ast.Attribute) and st.value.func.attr in ("split", "rsplit", "splitlines") and not any(isinstance(e, ast.Starred) for e in st.targets[0].elts):
            # direct unpack of a split result: the number of pieces depends on the data (partition() always gives three, split() does not)
            self.sites_examined += 1
            k = len(st.targets[0].elts)
            if not (k == 2 and self._sep_guard(f, st)):
                self._emit(f, "ValueError", st, f"unpacking `{norm(st.value)[:60]}` into {k} names: the number of pieces depends on the input", handlers, out, in_gen)
        for ch in ast.iter_child_nodes(st):
            if isinstance(ch, ast.expr):
                self._expr(f, ch, handlers, out, in_gen)

    def _sep_guard(self, f: FuncInfo, st) -> bool:
        """`a, b = x.split(SEP, 1)` (or rsplit) gives exactly two pieces when SEP occurs in x: the statement is reached only where
        `SEP in x` holds (branch facts of the CFG: an enclosing test, or an earlier `if SEP not in x: return/raise/continue`), SEP is
        a non-empty string constant and x is a plain name not stored between the test and the split."""
        c = st.value
        if c.func.attr not in ("split", "rsplit") or not isinstance(c.func.value, ast.Name) or c.keywords:
            return False
        if len(c.args) != 2 or not (isinstance(c.args[0], ast.Constant) and isinstance(c.args[0].value, str) and c.args[0].value):
            return False
        if not (isinstance(c.args[1], ast.Constant) and c.args[1].value == 1):
            return False
        x, sep = c.func.value.id, repr(c.args[0].value)
        stores = [n for n in ast.walk(f.node) if isinstance(n, ast.Name) and n.id == x and isinstance(n.ctx, ast.Store)]
        if len(stores) > 1 or (stores and any(a.arg == x for a in ast.walk(f.node.args) if isinstance(a, ast.arg))):
            return False
        from . import cfg as _cfg
        g = _cfg.build(f.node)
        for nid in g.nodes_of(st):
            for t, v in g.branch_facts(nid):
                tt = norm(t)
                if (v is True and tt == f"{sep} in {x}") or (v is False and tt == f"{sep} not in {x}"):
                    return True
        return False

    def _len_guard(self, f: FuncInfo, st, name: str, k: int) -> bool:
        """A preceding `if len(name) != k: raise` (or == k test enclosing) in the same block."""
        mod = f.module
        par = mod.parent_of.get(st)
        body = getattr(par, "body", [])
        for blk in (body, getattr(par, "orelse", [])):
            if st in blk:
                for prev in blk[: blk.index(st)]:
                    if isinstance(prev, ast.If) and norm(prev.test) in (f"len({name}) != {k}", f"not len({name}) == {k}") and any(isinstance(b, (ast.Raise, ast.Return, ast.Continue)) for b in prev.body):
                        return True
        cur = par
        while cur is not None and cur is not f.node:
            if isinstance(cur, ast.If) and norm(cur.test) == f"len({name}) == {k}":
                return True
            cur = mod.parent_of.get(cur)
        return False

    @staticmethod
    def _enclosing(mod, f, node):
        cur = mod.parent_of.get(node)
        while cur is not None and cur is not f.node:
            yield cur
            cur = mod.parent_of.get(cur)

    def _expr(self, f: FuncInfo, e, handlers, out, in_gen):
        mod = f.module
        for n in ast.walk(e):
            if isinstance(n, ast.Lambda):
                continue
            if isinstance(n, ast.Call):
                self.sites_examined += 1
                cn = call_name(n)
                if cn in ("int", "float"):
                    ok, why = self.int_call_safe(f, n)
                    if not ok:
                        self._emit(f, "ValueError", n, f"{short(n)}: {why}", handlers, out, in_gen)
                    continue
                if cn == "next" and len(n.args) == 1:
                    self._emit(f, "StopIteration", n, f"{short(n)} without a default", handlers, out, in_gen)
                    continue
                targets = self.cg.resolve_call(f, n)
                # f(*<at most k items>) where f needs exactly r positional arguments: TypeError when the iterable runs short
                stars = [a for a in n.args if isinstance(a, ast.Starred)]
                if len(stars) == 1 and len(n.args) == 1 and not n.keywords:
                    sv = stars[0].value
                    short_iter = (isinstance(sv, ast.Call) and call_name(sv) == "islice") or (isinstance(sv, ast.Subscript) and isinstance(sv.slice, ast.Slice))
                    if short_iter:
                        for callee, kind in targets:
                            a_ = callee.node.args
                            req = [x.arg for x in a_.posonlyargs + a_.args][: len(a_.posonlyargs + a_.args) - len(a_.defaults)]
                            req = [x for x in req if x not in ("self", "cls")]
                            if req and not a_.vararg:
                                # a dominating length test on the sliced value discharges it
                                guarded = False
                                if isinstance(sv, ast.Subscript) and isinstance(sv.value, ast.Name):
                                    guarded = any(isinstance(t, ast.If) and f"len({sv.value.id})" in norm(t.test) for t in self._enclosing(mod, f, n))
                                if not guarded:
                                    self._emit(f, "TypeError", n, f"{short(n)}: `{norm(sv)}` can yield fewer than the {len(req)} arguments {callee.qualname} requires (a truncated sequence)", handlers, out, in_gen)
                for callee, kind in targets:
                    if kind == "thread":
                        continue
                    if callee.fq in self.skip:
                        continue
                    sub = self.escapes(callee)
                    for exc, w in sub.items():
                        if (f.fq, callee.fq, exc) in self.edge_accept:
                            continue
                        self._emit(f, exc, n, "", handlers, out, in_gen, wit=w)
            elif isinstance(n, ast.Subscript) and isinstance(n.ctx, ast.Load) and isinstance(n.value, ast.Name) and not isinstance(n.slice, (ast.Slice, ast.Constant)):
                # module-level dict literal?
                nm = n.value.id
                tgt_mod, tgt_name = mod, nm
                imp = mod.imports.get(nm)
                if imp and imp[0].startswith("rich") and imp[1]:
                    tm = self.repo.modules.get(imp[0])
                    if tm is not None:
                        tgt_mod, tgt_name = tm, imp[1]
                try:
                    gv = tgt_mod.global_assign(tgt_name)
                except Exception:
                    continue
                if not isinstance(gv, ast.Dict):
                    continue
                if nm in {x.id for x in ast.walk(f.node) if isinstance(x, ast.Name) and isinstance(x.ctx, ast.Store)}:
                    continue
                self.sites_examined += 1
                key = norm(n.slice)
                guarded = False
                cur = mod.parent_of.get(n)
                prev = n
                while cur is not None and cur is not f.node:
                    if isinstance(cur, ast.If) and norm(cur.test) in (f"{key} in {nm}",) and any(prev is s or prev in list(ast.walk(s)) for s in cur.body):
                        guarded = True
                    prev = cur
                    cur = mod.parent_of.get(cur)
                if not guarded:
                    self._emit(f, "KeyError", n, f"{short(n)}: key not checked against the table", handlers, out, in_gen)
