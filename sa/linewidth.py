"""Width reasoning for container renderables.

* `WidthEnv.val`  - linear form of an int expression at a CFG node (names resolved through
  single linear reaching definitions; everything else becomes an atom tagged with its defs).
* `WidthEnv.ub`   - upper bound c such that expr <= W + c, where W = options.max_width of the
  function's ConsoleOptions parameter (abstract domain "<= W + c"; None = unknown).
* `emitted_lines` - abstract execution of a generator body that yields Segments: the cell
  width of every emitted line as a linear form.
"""
from __future__ import annotations

import ast
from typing import Dict, List, Optional, Set, Tuple

from . import cfg as cfgmod
from .astutil import call_name, const_int, kwarg
from .index import AnalysisError, norm, short, walk_local
from .linear import Lin, eq as lin_eq, show

NONNEG_ATTRS = {"left", "right", "top", "bottom", "cell_len", "cell_length", "pad", "indent"}


def _add(a: Lin, b: Lin, k: int = 1) -> Lin:
    out = dict(a)
    for x, v in b.items():
        out[x] = out.get(x, 0) + k * v
        if out[x] == 0:
            del out[x]
    return out


class WidthEnv:
    def __init__(self, f, options_param: str = "options"):
        self.f = f
        self.mod = f.module
        self.g = cfgmod.build(f.node)
        self.rd = self.g.reaching_defs(weak=True)
        self.opt = options_param
        self.W = f"{options_param}.max_width"
        self.atom_defs: Dict[str, List[Tuple[ast.AST, int]]] = {}
        self.notes: List[str] = []

    def nid(self, node) -> int:
        st = node
        while not isinstance(st, ast.stmt):
            st = self.mod.parent_of[st]
        ids = self.g.nodes_of(st)
        if not ids:
            # node inside a compound header (if test / for iter)
            for n in self.g.stmt_nodes():
                if n.stmt is st:
                    return n.id
            return self.g.entry
        return ids[0]

    # -- definitions --------------------------------------------------------
    def defs(self, name: str, nid: int) -> List[Tuple[Optional[ast.AST], int]]:
        out = []
        for d in sorted(self.rd.get(nid, {}).get(name, set())):
            dn = self.g.nodes[d]
            st = dn.stmt
            v = None
            if dn.kind == "stmt" and isinstance(st, ast.Assign) and len(st.targets) == 1 and isinstance(st.targets[0], ast.Name) and st.targets[0].id == name:
                v = st.value
            elif dn.kind == "stmt" and isinstance(st, ast.AnnAssign) and st.value is not None and norm(st.target) == name:
                v = st.value
            elif dn.kind == "stmt" and isinstance(st, ast.Assign) and len(st.targets) == 1 and isinstance(st.targets[0], ast.Tuple) and isinstance(st.value, ast.Tuple) and len(st.targets[0].elts) == len(st.value.elts):
                # a, b = x, y  (elementwise; no target is read on the right-hand side)
                tn = [t.id for t in st.targets[0].elts if isinstance(t, ast.Name)]
                if len(tn) == len(st.value.elts) and name in tn and not any(isinstance(x, ast.Name) and x.id in tn for e_ in st.value.elts for x in ast.walk(e_)):
                    v = st.value.elts[tn.index(name)]
            out.append((v, d))
        return out

    def val(self, e: ast.AST, nid: int, depth: int = 0) -> Lin:
        if isinstance(e, ast.Constant) and isinstance(e.value, int) and not isinstance(e.value, bool):
            return {"": e.value} if e.value else {}
        if isinstance(e, ast.BinOp) and isinstance(e.op, (ast.Add, ast.Sub)):
            return _add(self.val(e.left, nid, depth), self.val(e.right, nid, depth), 1 if isinstance(e.op, ast.Add) else -1)
        if isinstance(e, ast.Name):
            ds = self.defs(e.id, nid)
            if len(ds) == 1 and ds[0][0] is not None and depth < 8:
                v, d = ds[0]
                if isinstance(v, (ast.BinOp, ast.Name, ast.Constant, ast.Attribute)):
                    return self.val(v, d, depth + 1)
            tag = "+".join(f"L{self.g.nodes[d].lineno}" if self.g.nodes[d].kind != "entry" else "param" for _v, d in ds) or "?"
            atom = f"{e.id}@{tag}"
            self.atom_defs[atom] = [(v, d) for v, d in ds]
            return {atom: 1}
        if isinstance(e, ast.Attribute) and e.attr == "max_width" and isinstance(e.value, ast.Name) and e.value.id != self.opt:
            ow = self.options_width(e.value, nid)
            if ow is not None:
                return ow[0]
        if isinstance(e, ast.Attribute):
            return {norm(e): 1}
        return {norm(e): 1}

    # -- upper bounds -------------------------------------------------------
    def ub(self, e: ast.AST, nid: int, depth: int = 0) -> Optional[int]:
        """c with e <= W + c, or None."""
        if depth > 10:
            return None
        if norm(e) == self.W:
            return 0
        if isinstance(e, ast.Attribute) and e.attr == "max_width" and isinstance(e.value, ast.Name) and e.value.id != self.opt:
            ow = self.options_width(e.value, nid)
            if ow is not None:
                return ow[1]
        if isinstance(e, ast.Call) and call_name(e) == "min" and e.args:
            bs = [self.ub(a, nid, depth + 1) for a in e.args]
            bs = [b for b in bs if b is not None]
            return min(bs) if bs else None
        if isinstance(e, ast.Call) and call_name(e) == "max" and e.args:
            bs = [self.ub(a, nid, depth + 1) for a in e.args]
            if any(b is None for b in bs):
                return None
            return max(bs)
        if isinstance(e, ast.IfExp):
            a, b = self.ub(e.body, nid, depth + 1), self.ub(e.orelse, nid, depth + 1)
            return None if a is None or b is None else max(a, b)
        if isinstance(e, ast.BinOp) and isinstance(e.op, ast.Sub):
            a = self.ub(e.left, nid, depth + 1)
            if a is None:
                return None
            k = const_int(e.right)
            if k is not None:
                return a - k
            if self.nonneg(e.right, nid):
                return a
            return None
        if isinstance(e, ast.BinOp) and isinstance(e.op, ast.Add):
            for x, y in ((e.left, e.right), (e.right, e.left)):
                k = const_int(y)
                if k is not None:
                    a = self.ub(x, nid, depth + 1)
                    return None if a is None else a + k
            return None
        if isinstance(e, ast.Attribute) and e.attr in ("maximum", "minimum") and isinstance(e.value, ast.Call) and norm(e.value.func) in ("Measurement.get", "measure", "get_measurement"):
            c = e.value
            mw = c.args[2] if len(c.args) > 2 else kwarg(c, "max_width")
            if mw is None:
                return None  # defaults to console.width, not related to the options budget
            return self.ub(mw, nid, depth + 1)  # C09/R9.1: Measurement.get(...).maximum <= its max_width argument
        if isinstance(e, ast.Name):
            ds = self.defs(e.id, nid)
            if not ds:
                return None
            bs = []
            for v, d in ds:
                if v is None:
                    return None
                b = self.ub(v, d, depth + 1)
                if b is None:
                    return None
                bs.append(b)
            return max(bs)
        if isinstance(e, ast.Constant) and isinstance(e.value, int):
            return None
        return None

    def _ub_candidates(self, v: ast.AST, d: int, depth: int = 0) -> List[Lin]:
        """linear forms F with v <= F (exact value forms, and for min(..) the forms of each argument)"""
        if depth > 6 or v is None:
            return []
        if isinstance(v, ast.Call) and call_name(v) == "min" and v.args:
            out: List[Lin] = []
            for a in v.args:
                out += self._ub_candidates(a, d, depth + 1)
            return out
        if isinstance(v, ast.IfExp):
            a, b = self._ub_candidates(v.body, d, depth + 1), self._ub_candidates(v.orelse, d, depth + 1)
            return [x for x in a if any(lin_eq(x, y) for y in b)]
        if isinstance(v, ast.Name):
            ds = self.defs(v.id, d)
            if len(ds) == 1 and ds[0][0] is not None:
                return self._ub_candidates(ds[0][0], ds[0][1], depth + 1)
        if isinstance(v, (ast.BinOp, ast.Name, ast.Attribute, ast.Constant)):
            return [self.val(v, d)]
        return []

    def ub_form(self, form: Lin, _depth: int = 0) -> Optional[int]:
        """Upper bound (relative to W) of a linear form whose atoms were produced by `val`."""
        r = self._ub_form_numeric(form)
        if r is not None or _depth > 3:
            return r
        # an atom that is defined on several paths (if / else) by values with one common linear upper bound - e.g.
        # child_width = available | min(child_maximum, available) with available = W - left - right - is replaced by that bound
        for a, c in form.items():
            if a in ("", self.W) or c <= 0 or a not in self.atom_defs:
                continue
            cands = None
            for v, d in self.atom_defs[a]:
                cs = self._ub_candidates(v, d)
                cands = cs if cands is None else [x for x in cands if any(lin_eq(x, y) for y in cs)]
            for bound in cands or []:
                if a in bound:
                    continue
                new = {k: v_ for k, v_ in form.items() if k != a}
                for k, v_ in bound.items():
                    new[k] = new.get(k, 0) + c * v_
                    if new[k] == 0:
                        del new[k]
                r = self.ub_form(new, _depth + 1)
                if r is not None:
                    return r
        return None

    def _ub_form_numeric(self, form: Lin) -> Optional[int]:
        total = form.get("", 0)
        sawW = 0
        for a, c in form.items():
            if a == "":
                continue
            if a == self.W:
                sawW += c
                continue
            if c < 0:
                # subtracting a non-negative atom only lowers the bound
                if a.split("@")[0].split(".")[-1] in NONNEG_ATTRS:
                    continue
                return None
            if a not in self.atom_defs:
                return None
            bs = []
            for v, d in self.atom_defs[a]:
                if v is None:
                    return None
                b = self.ub(v, d)
                if b is None:
                    return None
                bs.append(b)
            if not bs:
                return None
            total += c * max(bs)
            sawW += c
        if sawW != 1:
            return None
        return total

    def nonneg(self, e: ast.AST, nid: int) -> bool:
        if isinstance(e, ast.Constant) and isinstance(e.value, int):
            return e.value >= 0
        if isinstance(e, ast.Attribute) and e.attr in NONNEG_ATTRS:
            return True
        if isinstance(e, ast.BinOp) and isinstance(e.op, ast.Add):
            return self.nonneg(e.left, nid) and self.nonneg(e.right, nid)
        if isinstance(e, ast.Call) and call_name(e) in ("sum", "len", "cell_len"):
            if call_name(e) == "sum" and e.args and isinstance(e.args[0], ast.GeneratorExp):
                return self.nonneg(e.args[0].elt, nid)
            return True
        if isinstance(e, ast.Name):
            ds = self.defs(e.id, nid)
            return bool(ds) and all(v is not None and self.nonneg(v, d) for v, d in ds)
        return False

    # -- options ---------------------------------------------------------------
    def options_width(self, opts: ast.AST, nid: int) -> Optional[Tuple[Lin, Optional[int], str]]:
        """(width form, upper bound, description) of a ConsoleOptions expression's max_width."""
        if isinstance(opts, ast.Name) and opts.id == self.opt:
            return ({self.W: 1}, 0, self.W)
        if isinstance(opts, ast.Call) and isinstance(opts.func, ast.Attribute) and opts.func.attr == "update":
            base = self.options_width(opts.func.value, nid)
            w = kwarg(opts, "width")
            mw = kwarg(opts, "max_width")
            e = w if w is not None else mw
            if e is None:
                return base
            return (self.val(e, nid), self.ub(e, nid), norm(e))
        if isinstance(opts, ast.Name):
            ds = self.defs(opts.id, nid)
            if len(ds) == 1 and ds[0][0] is not None:
                return self.options_width(ds[0][0], ds[0][1])
        return None


# ---------------------------------------------------------------------------
class Emit:
    """Abstract execution of a Segment-yielding generator: widths of emitted lines."""

    def __init__(self, env: WidthEnv):
        self.env = env
        self.f = env.f
        self.lines: List[Tuple[Lin, str, int]] = []  # (width, description, lineno)
        self.cur: Lin = {}
        self.problems: List[Tuple[int, str]] = []

    def run(self):
        self.block(self.f.node.body)
        if self.cur:
            self.problems.append((self.f.node.lineno, f"output ends in the middle of a line of width {show(self.cur)}"))
        return self

    def newline(self, desc: str, lineno: int):
        self.lines.append((self.cur, desc, lineno))
        self.cur = {}

    def block(self, stmts):
        for st in stmts:
            self.stmt(st)

    def stmt(self, st):
        env = self.env
        if isinstance(st, ast.Expr) and isinstance(st.value, ast.Yield):
            self.yield_value(st.value.value, st)
        elif isinstance(st, ast.Expr) and isinstance(st.value, ast.YieldFrom):
            self.yield_from(st.value.value, st)
        elif isinstance(st, ast.If):
            # optional-segment idiom:  if X is not None: yield X
            opt0 = self._optional_width(st)
            if opt0 is not None and not st.orelse:
                self.cur = _add(self.cur, opt0)
                return
            save_cur, save_lines = dict(self.cur), len(self.lines)
            self.block(st.body)
            a_cur, a_lines = self.cur, self.lines[save_lines:]
            self.cur = dict(save_cur)
            del self.lines[save_lines:]
            self.block(st.orelse)
            b_cur, b_lines = self.cur, self.lines[save_lines:]
            opt = self._optional_width(st)
            if opt is not None and not st.orelse and not a_lines:
                # the yielded segment has width n exactly when present and is absent when n == 0
                self.cur = _add(save_cur, opt)
                del self.lines[save_lines:]
                return
            if not lin_eq(a_cur, b_cur) or len(a_lines) != len(b_lines) or any(not lin_eq(x[0], y[0]) for x, y in zip(a_lines, b_lines)):
                self.problems.append((st.lineno, f"the branches of `if {norm(st.test)}` emit different widths ({show(a_cur)} / {[show(x[0]) for x in a_lines]} vs {show(b_cur)} / {[show(x[0]) for x in b_lines]})"))
            self.cur = a_cur
            del self.lines[save_lines:]
            self.lines.extend(a_lines)
        elif isinstance(st, ast.For):
            start = dict(self.cur)
            n0 = len(self.lines)
            self.block(st.body)
            if not lin_eq(self.cur, start):
                self.problems.append((st.lineno, f"loop body does not emit whole lines (partial width {show(self.cur)})"))
                self.cur = start
        elif isinstance(st, (ast.Return,)):
            return
        # assignments etc. are resolved on demand

    def _optional_width(self, st: ast.If) -> Optional[Lin]:
        t = st.test
        name = None
        if isinstance(t, ast.Compare) and len(t.ops) == 1 and isinstance(t.ops[0], ast.IsNot) and isinstance(t.left, ast.Name) and norm(t.comparators[0]) == "None":
            name = t.left.id
        elif isinstance(t, ast.Name):
            name = t.id
        if name is None or len(st.body) != 1:
            return None
        b = st.body[0]
        if not (isinstance(b, ast.Expr) and isinstance(b.value, ast.Yield) and isinstance(b.value.value, ast.Name) and b.value.value.id == name):
            return None
        ds = self.env.defs(name, self.env.nid(st))
        if len(ds) != 1 or ds[0][0] is None:
            return None
        v, d = ds[0]
        if isinstance(v, ast.IfExp) and norm(v.orelse) == "None" and isinstance(v.body, ast.Call):
            w = self.seg_width(v.body, d)
            # present iff test truthy; sound when the test is the count itself
            cnt = self._space_count(v.body)
            if cnt is not None and norm(cnt) == norm(v.test):
                return w
        return None

    @staticmethod
    def _space_count(call: ast.Call):
        if call.args and isinstance(call.args[0], ast.BinOp) and isinstance(call.args[0].op, ast.Mult):
            a = call.args[0]
            if isinstance(a.left, ast.Constant) and a.left.value == " ":
                return a.right
            if isinstance(a.right, ast.Constant) and a.right.value == " ":
                return a.left
        return None

    def yield_value(self, v, st):
        env = self.env
        nid = env.nid(st)
        if v is None:
            return
        if isinstance(v, ast.Name):
            ds = env.defs(v.id, nid)
            if len(ds) == 1 and ds[0][0] is not None:
                dv, d = ds[0]
                if isinstance(dv, ast.Call) and norm(dv.func).endswith(".line") or (isinstance(dv, ast.Call) and norm(dv.func) in ("Segment", "_Segment") and dv.args and isinstance(dv.args[0], ast.Constant) and dv.args[0].value == "\n"):
                    self.newline(f"yield {v.id}", st.lineno)
                    return
                w = self.seg_width(dv, d)
                if w is not None:
                    self.add_str(w, st)
                    return
            self.problems.append((st.lineno, f"cannot determine the width of yielded `{v.id}`"))
            return
        if isinstance(v, ast.Call):
            if norm(v.func).endswith(".line"):
                self.newline("yield Segment.line()", st.lineno)
                return
            w = self.seg_width(v, nid)
            if w is not None:
                self.add_str(w, st)
                return
        self.problems.append((st.lineno, f"cannot determine the width of yielded `{short(v)}`"))

    def add_str(self, w, st):
        """w is either a Lin or ('nl', before) marker list."""
        if isinstance(w, tuple) and w[0] == "nl":
            self.cur = _add(self.cur, w[1])
            self.newline("segment ending in newline", st.lineno)
            if w[2]:
                self.cur = _add(self.cur, w[2])
        else:
            self.cur = _add(self.cur, w)

    def seg_width(self, call, nid):
        """Width of Segment(E, ...)."""
        if isinstance(call, ast.Call) and norm(call.func) in ("Segment", "_Segment", "cls") and call.args:
            return self.str_width(call.args[0], nid)
        return None

    def str_width(self, e, nid):
        env = self.env
        if isinstance(e, ast.Constant) and isinstance(e.value, str):
            if "\n" in e.value:
                before, _, after = e.value.partition("\n")
                return ("nl", {"": len(before)} if before else {}, {"": len(after)} if after else {})
            return {"": len(e.value)} if e.value else {}
        if isinstance(e, ast.BinOp) and isinstance(e.op, ast.Add):
            a, b = self.str_width(e.left, nid), self.str_width(e.right, nid)
            if a is None or b is None:
                return None
            if isinstance(b, tuple):
                if isinstance(a, tuple):
                    return None
                return ("nl", _add(a, b[1]), b[2])
            if isinstance(a, tuple):
                return ("nl", a[1], _add(a[2], b))
            return _add(a, b)
        if isinstance(e, ast.BinOp) and isinstance(e.op, ast.Mult):
            s, k = (e.left, e.right) if isinstance(e.left, ast.Constant) or self._is_glyph(e.left) else (e.right, e.left)
            unit = None
            if isinstance(s, ast.Constant) and isinstance(s.value, str) and len(s.value) == 1:
                unit = 1
            elif self._is_glyph(s):
                unit = 1
            if unit is not None:
                return env.val(k, nid)
            return None
        if self._is_glyph(e):
            return {"": 1}
        if isinstance(e, ast.JoinedStr):
            tot: Lin = {}
            for v in e.values:
                if isinstance(v, ast.Constant):
                    tot = _add(tot, {"": len(v.value)})
                elif isinstance(v, ast.FormattedValue) and self._is_glyph(v.value):
                    tot = _add(tot, {"": 1})
                else:
                    return None
            return tot
        if isinstance(e, ast.Call) and isinstance(e.func, ast.Attribute) and e.func.attr in ("get_top", "get_bottom") and e.args and isinstance(e.args[0], ast.List) and len(e.args[0].elts) == 1:
            return _add(env.val(e.args[0].elts[0], nid), {"": 2})
        if isinstance(e, ast.Name):
            ds = env.defs(e.id, nid)
            if len(ds) == 1 and ds[0][0] is not None:
                return self.str_width(ds[0][0], ds[0][1])
        return None

    @staticmethod
    def _is_glyph(e) -> bool:
        return isinstance(e, ast.Attribute) and isinstance(e.value, ast.Name) and e.value.id in ("box", "_box") and not e.attr.startswith("get_")

    def _list_elements(self, name: str, st):
        """elements of a local list of segments: one definition `[e..]` or `[e] if <count> else []` (an optional run of
        <count> spaces), plus later `name.append(e)` calls that precede `st` - in order; None when not of this form"""
        env = self.env
        ds = [x for x in env.defs(name, env.nid(st)) if x[0] is not None]  # mutation (append) "definitions" carry no value
        if len(ds) != 1:
            return None
        v, d = ds[0]
        elems = []
        if isinstance(v, ast.List):
            elems = [("seg", e) for e in v.elts]
        elif isinstance(v, ast.IfExp) and isinstance(v.body, ast.List) and len(v.body.elts) == 1 and isinstance(v.orelse, ast.List) and not v.orelse.elts and isinstance(v.body.elts[0], ast.Call):
            cnt = self._space_count(v.body.elts[0])
            if cnt is None or norm(cnt) != norm(v.test):
                return None
            elems = [("seg", v.body.elts[0])]  # width == count whether present or not (count == 0 when absent)
        else:
            return None
        for c in walk_local(self.f.node):
            if isinstance(c, ast.Call) and isinstance(c.func, ast.Attribute) and isinstance(c.func.value, ast.Name) and c.func.value.id == name:
                if c.func.attr == "append" and len(c.args) == 1 and c.lineno <= st.lineno and c not in list(ast.walk(st)):
                    elems.append(("seg", c.args[0]))
                elif c.func.attr in ("extend", "insert", "pop", "remove", "clear", "sort", "reverse"):
                    return None
        return elems, d

    def yield_from(self, v, st):
        env = self.env
        nid = env.nid(st)
        # yield from [line] * n   (whole lines repeated)
        if isinstance(v, ast.BinOp) and isinstance(v.op, ast.Mult) and isinstance(v.left, ast.List) and len(v.left.elts) == 1:
            w = self.elem_width(v.left.elts[0], nid)
            if w is not None and isinstance(w, tuple):
                if self.cur:
                    self.problems.append((st.lineno, "whole lines emitted in the middle of a line"))
                self.lines.append((_add(w[1], {}), f"yield from {short(v)}", st.lineno))
                return
        if isinstance(v, ast.Name):
            le = self._list_elements(v.id, st)
            if le is not None:
                elems, d = le
                for _k, e in elems:
                    if isinstance(e, ast.Call) and norm(e.func).endswith(".line"):
                        self.newline(f"yield from {v.id}", st.lineno)
                        continue
                    w = self.seg_width(e, d) if isinstance(e, ast.Call) else None
                    if w is None:
                        self.problems.append((st.lineno, f"cannot determine the width of element `{short(e)}` of `{v.id}`"))
                        return
                    self.add_str(w, st)
                return
        if isinstance(v, ast.Name):
            # loop variable over a list of lines?
            loop = None
            cur = env.mod.parent_of.get(st)
            while cur is not None and cur is not self.f.node:
                if isinstance(cur, ast.For) and (norm(cur.target) == v.id or (isinstance(cur.target, ast.Tuple) and v.id in [norm(t) for t in cur.target.elts])):
                    loop = cur
                    break
                cur = env.mod.parent_of.get(cur)
            if loop is not None:
                it = loop.iter
                if isinstance(it, ast.Call) and it.args and call_name(it) in ("loop_last", "loop_first", "loop_first_last", "enumerate"):
                    it = it.args[0]
                w = self.lines_width(it, env.nid(loop))
                if w is not None:
                    self.cur = _add(self.cur, w)
                    return
                self.problems.append((st.lineno, f"cannot determine the width of the lines `{norm(it)}` yields"))
                return
            ds = env.defs(v.id, nid)
            if len(ds) == 1 and ds[0][0] is not None:
                dv, d = ds[0]
                # [blank_line] * n
                if isinstance(dv, ast.BinOp) and isinstance(dv.op, ast.Mult) and isinstance(dv.left, ast.List) and len(dv.left.elts) == 1:
                    w = self.elem_width(dv.left.elts[0], d)
                    if w is not None:
                        if self.cur:
                            self.problems.append((st.lineno, "whole lines emitted in the middle of a line"))
                        if isinstance(w, tuple):
                            self.lines.append((_add(w[1], {}), f"yield from {v.id}", st.lineno))
                        else:
                            self.problems.append((st.lineno, f"`{v.id}` repeats a segment without a newline"))
                        return
            self.problems.append((st.lineno, f"cannot determine what `yield from {v.id}` emits"))
            return
        if isinstance(v, ast.Call) and norm(v.func).endswith("console.render") and v.args and isinstance(v.args[0], ast.Name):
            # text aligned to a known width beforehand:  X.align(_, w, ...)
            name = v.args[0].id
            w = None
            for c in walk_local(self.f.node):
                if isinstance(c, ast.Call) and isinstance(c.func, ast.Attribute) and c.func.attr == "align" and norm(c.func.value) == name and len(c.args) >= 2 and c.lineno <= st.lineno and c not in list(ast.walk(st)):
                    w = env.val(c.args[1], env.nid(c))
            if w is not None:
                self.cur = _add(self.cur, w)
                return
        self.problems.append((st.lineno, f"cannot determine what `yield from {short(v)}` emits"))

    def elem_width(self, e, nid):
        if isinstance(e, ast.Name):
            ds = self.env.defs(e.id, nid)
            if len(ds) == 1 and ds[0][0] is not None:
                return self.seg_width(ds[0][0], ds[0][1])
            return None
        return self.seg_width(e, nid)

    def lines_width(self, e, nid) -> Optional[Lin]:
        """Width of every line in the list of lines denoted by e."""
        env = self.env
        if isinstance(e, ast.Name):
            ds = env.defs(e.id, nid)
            # a list variable may have weak defs; take the last strong assignment chain
            strong = [(v, d) for v, d in ds if v is not None]
            if len(strong) == 1:
                return self.lines_width(strong[0][0], strong[0][1])
            return None
        if isinstance(e, ast.Call) and norm(e.func).endswith(".set_shape") and len(e.args) >= 2:
            return env.val(e.args[1], nid)
        if isinstance(e, ast.Call) and norm(e.func).endswith("console.render_lines"):
            pad = kwarg(e, "pad")
            if pad is not None and not (isinstance(pad, ast.Constant) and pad.value is True):
                return None  # unpadded lines have no fixed width
            opts = e.args[1] if len(e.args) > 1 else kwarg(e, "options")
            if opts is None:
                return None
            ow = env.options_width(opts, nid)
            return ow[0] if ow else None
        return None
