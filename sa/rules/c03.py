"""C03 The ANSI stream written means exactly what the styled segments say."""
from __future__ import annotations

import ast
from typing import List

from .. import cfg as cfgmod
from ..astutil import alias_map, call_name, expand_alias, fstring_parts, is_attr_of, kwarg
from ..index import AnalysisError, AnchorVanished, norm, short, walk_local
from .common import memo_rule

LEVEL = "other"
UNDECIDED = [
    "full decoder-model equivalence of the emitted stream over all segment sequences",
    "legacy-Windows palette rendering through colorama",
    "colour down-conversion and parameter forms are proved under C18 and used here as established",
]
TRUSTED = ["CPython ast parser", "ECMA-48: ESC[<params>m sets attributes, ESC[0m resets all; OSC 8 ; params ; URI ST opens a link, OSC 8 ;; ST closes it"]

SGR_OPEN = "\x1b["
RESET = "\x1b[0m"
OSC_OPEN = "\x1b]8;"
OSC_CLOSE = "\x1b]8;;\x1b\\"


def r3_1(ctx):
    ctx.rule("R3.1", "emitted sequences are paired (no style leaks): every template in Style.render that opens an SGR sequence closes the text with ESC[0m, and every OSC-8 link open is followed, after the text, by the OSC-8 close")
    f = ctx.repo.fn("style:Style.render")
    text_p = f.params[1]
    n = 0
    for x in walk_local(f.node):
        if not isinstance(x, ast.JoinedStr):
            continue
        parts = fstring_parts(x)
        flat = "".join(p if isinstance(p, str) else "\0" for p in parts)
        where = f"{f.module.relpath}:{x.lineno}"
        if SGR_OPEN in flat and "m\0" in flat.replace(RESET, ""):
            n += 1
            # find the text field: a field naming the text parameter or a previously rendered string
            idx = None
            for i, p in enumerate(parts):
                if isinstance(p, tuple) and isinstance(p[1], ast.Name) and p[1].id in (text_p, "rendered"):
                    idx = i
            after = "".join(p for p in parts[idx + 1:] if isinstance(p, str)) if idx is not None else ""
            ctx.check(idx is not None and after.startswith(RESET), f.fq, short(x), where, "SGR open ... text ... ESC[0m",
                      "a styled template does not end the text with the reset ESC[0m: the style leaks onto whatever is printed next")
        if OSC_OPEN in flat:
            n += 1
            idx = None
            for i, p in enumerate(parts):
                if isinstance(p, tuple) and isinstance(p[1], ast.Name) and p[1].id in (text_p, "rendered"):
                    idx = i
            after = "".join(p for p in parts[idx + 1:] if isinstance(p, str)) if idx is not None else ""
            before = "".join(p if isinstance(p, str) else "\0" for p in parts[: idx or 0])
            ok = idx is not None and after.startswith(OSC_CLOSE) and before.endswith("\x1b\\") and before.startswith(OSC_OPEN)
            ctx.check(ok, f.fq, short(x), where, "OSC 8 open ... text ... OSC 8 close",
                      "the hyperlink template does not close the link (OSC 8 ;; ST) right after the text: following output stays inside the link")
    ctx.floor(n, 2, "escape templates in Style.render")


def r3_2(ctx):
    ctx.rule("R3.2", "colour disabled => no escape sequence: every return of Style.render that can carry an escape literal is dominated by the false branch of the `color_system is None` early exit; in Console._render_buffer segment text reaches the output only through style.render(text, color_system=<the console's colour system>) or as plain text")
    f = ctx.repo.fn("style:Style.render")
    g = cfgmod.build(f.node)
    text_p = f.params[1]
    rets = [n for n in g.stmt_nodes() if n.kind == "stmt" and isinstance(n.stmt, ast.Return)]
    guarded = 0
    for r in rets:
        v = r.stmt.value
        if isinstance(v, ast.Name) and v.id == text_p:
            continue
        facts = g.branch_facts(r.id)
        ok = False
        for t, val in facts:
            if val is False:
                parts = t.values if isinstance(t, ast.BoolOp) and isinstance(t.op, ast.Or) else [t]
                if any(norm(p) == "color_system is None" for p in parts):
                    ok = True
            if val is True and norm(t) == "color_system is not None":
                ok = True
        guarded += 1
        ctx.check(ok, f.fq, short(r.stmt), f"{f.module.relpath}:{r.lineno}", "escape-carrying return only when a colour system is set",
                  "Style.render can return escape sequences although color_system is None (the early `return text` no longer covers this path)")
    ctx.floor(guarded, 1, "escape-carrying returns in Style.render")
    rb = ctx.repo.fn("console:Console._render_buffer")
    aliases = alias_map(rb.node)
    appends = [c for c in walk_local(rb.node) if isinstance(c, ast.Call) and norm(expand_alias(c.func, aliases)) == "output.append"]
    ctx.floor(len(appends), 2, "output appends in _render_buffer")
    cs_ok = any(isinstance(n, ast.Assign) and norm(n.targets[0]) == "color_system" and norm(n.value) == "self._color_system" for n in walk_local(rb.node))
    for a in appends:
        arg = a.args[0]
        where = f"{rb.module.relpath}:{a.lineno}"
        if isinstance(arg, ast.Call) and norm(arg.func).endswith(".render"):
            cs = kwarg(arg, "color_system")
            ok = cs is not None and ((norm(cs) == "color_system" and cs_ok) or norm(cs) == "self._color_system")
            ctx.check(ok, rb.fq, short(a), where, "styled text rendered with the console's own colour system", "style.render is not given the console's colour system: escapes are emitted although colour is disabled (default is truecolor)")
        else:
            ctx.check(isinstance(arg, ast.Name), rb.fq, short(a), where, "plain segment text appended as is", f"`{norm(arg)}` appended to the output is neither style.render(...) nor the plain segment text")


def r3_3(ctx):
    ctx.rule("R3.3", "NO_COLOR chain: under `no_color and color_system` the buffer is replaced by Segment.remove_color(buffer) before the emit loop; remove_color maps every truthy style through .without_color; without_color clears both colours; _make_ansi_codes emits colour parameters only under `_color/_bgcolor is not None`")
    rb = ctx.repo.fn("console:Console._render_buffer")
    g = cfgmod.build(rb.node)
    rd = g.reaching_defs(weak=False)
    loops = [n for n in g.stmt_nodes() if n.kind == "for" and isinstance(n.stmt.target, ast.Tuple) and len(n.stmt.target.elts) == 3]
    if not loops:
        raise AnchorVanished("_render_buffer: emit loop `for text, style, is_control in ...` not found")
    L = loops[0]
    var = norm(L.stmt.iter)
    strips = [n for n in g.stmt_nodes() if n.kind == "stmt" and isinstance(n.stmt, ast.Assign) and norm(n.stmt.targets[0]) == var and "remove_color(" in norm(n.stmt.value)]
    ok = bool(strips)
    if ok:
        s = strips[0]
        facts = g.branch_facts(s.id)
        cond_ok = any(v is True and "self.no_color" in norm(t) for t, v in facts)
        reach = s.id in rd.get(L.id, {}).get(var, set())
        arg_ok = norm(s.stmt.value.args[0]) == var
        # every path entry->loop on which no_color and color_system hold passes the strip: the If has no else
        ifn = rb.module.parent_of.get(s.stmt)
        simple = isinstance(ifn, ast.If) and not ifn.orelse and norm(ifn.test) in ("self.no_color and color_system", "color_system and self.no_color", "self.no_color")
        ok = cond_ok and reach and arg_ok and simple
    ctx.check(ok, rb.fq, short(strips[0].stmt) if strips else "no remove_color", f"{rb.module.relpath}:{strips[0].lineno if strips else rb.node.lineno}",
              "colour is stripped from the very buffer the emit loop iterates, under `no_color and color_system`",
              "with NO_COLOR the emit loop does not iterate Segment.remove_color(buffer): colour parameters reach the stream")
    rc = ctx.repo.fn("segment:Segment.remove_color")
    src = norm(rc.node)
    ys = [y for y in walk_local(rc.node) if isinstance(y, ast.Yield)]
    styled = [y for y in ys if isinstance(y.value, ast.Call) and len(y.value.args) >= 2 and not (isinstance(y.value.args[1], ast.Constant) and y.value.args[1].value is None)]
    loop_targets = {t.id for x in walk_local(rc.node) if isinstance(x, ast.For) for t in ast.walk(x.target) if isinstance(t, ast.Name)}
    ok = len(styled) == 1
    if ok:
        a1 = styled[0].value.args[1]

        visiting = set()

        def stripped(e, depth=0):
            """e is <loop style>.without_color, or a name all of whose definitions are that / a lookup in a cache filled only with that"""
            if isinstance(e, ast.Attribute) and e.attr == "without_color" and isinstance(e.value, ast.Name) and e.value.id in loop_targets:
                return True
            if isinstance(e, ast.Name):
                if e.id in visiting:
                    return True  # coinductive: a cycle through the cache adds no new source of values
                visiting.add(e.id)
                vals = [x.value for x in walk_local(rc.node) if isinstance(x, ast.Assign) and len(x.targets) == 1 and norm(x.targets[0]) == e.id]
                r = bool(vals) and all(stripped(v, depth + 1) for v in vals)
                visiting.discard(e.id)
                return r
            if isinstance(e, ast.Call) and isinstance(e.func, ast.Attribute) and e.func.attr == "get" and isinstance(e.func.value, ast.Name) and len(e.args) == 1 and isinstance(e.args[0], ast.Name) and e.args[0].id in loop_targets:
                cache_name, key = e.func.value.id, e.args[0].id
                stores = [x for x in walk_local(rc.node) if isinstance(x, ast.Assign) and isinstance(x.targets[0], ast.Subscript) and norm(x.targets[0].value) == cache_name]
                return bool(stores) and all(norm(x.targets[0].slice) == key and stripped(x.value, depth + 1) for x in stores)
            return False
        ok = stripped(a1)
    # the only un-stripped yield passes style None and is under the falsy-style branch
    raw = [y for y in ys if y not in styled]
    ok = ok and all(isinstance(y.value, ast.Call) and isinstance(y.value.args[1], ast.Constant) and y.value.args[1].value is None for y in raw)
    ctx.check(ok, rc.fq, "yield cls(text, colorless_style, is_control)", rc.where, "every truthy style is replaced by its without_color form",
              "Segment.remove_color yields a segment whose style was not passed through .without_color")
    wc = ctx.repo.fn("style:Style.without_color")
    stores = {}
    for n in walk_local(wc.node):
        if isinstance(n, ast.Assign) and isinstance(n.targets[0], ast.Attribute) and not is_attr_of(n.targets[0], "self"):
            stores[n.targets[0].attr] = n.value
    ok = all(k in stores and isinstance(stores[k], ast.Constant) and stores[k].value is None for k in ("_color", "_bgcolor"))
    ctx.check(ok, wc.fq, "_color = None ; _bgcolor = None", wc.where, "without_color clears foreground and background", "Style.without_color keeps a colour: NO_COLOR output still carries colour parameters")
    mk = ctx.repo.fn("style:Style._make_ansi_codes")
    n = 0
    for c in walk_local(mk.node):
        if isinstance(c, ast.Call) and "get_ansi_codes" in norm(c.func):
            n += 1
            st = c
            par = mk.module.parent_of.get(st)
            guard = None
            cur = par
            while cur is not None and cur is not mk.node:
                if isinstance(cur, ast.If) and ("_color is not None" in norm(cur.test) or "_bgcolor is not None" in norm(cur.test)):
                    guard = cur
                cur = mk.module.parent_of.get(cur)
            recv = norm(c.func)
            which = "_bgcolor" if "_bgcolor" in recv else "_color"
            ok = guard is not None and f"self.{which} is not None" in norm(guard.test)
            fg = kwarg(c, "foreground")
            ok_fg = (which == "_color" and fg is None) or (which == "_bgcolor" and fg is not None and norm(fg) == "False")
            ctx.check(ok and ok_fg, mk.fq, short(c), f"{mk.module.relpath}:{c.lineno}", f"{which} codes emitted only when set, as {'background' if which == '_bgcolor' else 'foreground'}",
                      f"colour codes for {which} are emitted without the `is not None` guard or with the wrong foreground flag")
            ctx.check(".downgrade(color_system)" in recv, mk.fq, "downgrade before codes", f"{mk.module.relpath}:{c.lineno}", "colour is down-converted to the console's system before code generation", f"{which} is not down-converted with .downgrade(color_system) before its codes are generated")
    ctx.floor(n, 2, "colour code emissions in _make_ansi_codes")


def r3_4(ctx):
    ctx.rule("R3.4", "no control codes on a non-terminal: in the emit loop of Console._render_buffer every append of a segment's text (styled or not) is dominated by `not (not_terminal and is_control)`")
    rb = ctx.repo.fn("console:Console._render_buffer")
    g = cfgmod.build(rb.node)
    aliases = alias_map(rb.node)
    nt_ok = any(isinstance(n, ast.Assign) and norm(n.targets[0]) == "not_terminal" and norm(n.value) == "not self.is_terminal" for n in walk_local(rb.node))
    ctx.check(nt_ok, rb.fq, "not_terminal = not self.is_terminal", rb.where, "not_terminal reflects the console's is_terminal", "not_terminal is no longer `not self.is_terminal`")
    n = 0
    for nd in g.stmt_nodes():
        if nd.kind != "stmt":
            continue
        calls = [c for c in ast.walk(nd.stmt) if isinstance(c, ast.Call) and norm(expand_alias(c.func, aliases)) == "output.append"]
        if not calls:
            continue
        n += 1
        facts = g.branch_facts(nd.id)
        ok = False
        for t, v in facts:
            tt = norm(t)
            if v is False and tt in ("not_terminal and is_control", "is_control and not_terminal"):
                ok = True
            if v is True and tt in ("not (not_terminal and is_control)", "not (is_control and not_terminal)", "not is_control or not not_terminal", "not not_terminal or not is_control"):
                ok = True
        # conjunct inside an and-test
        for t, v in facts:
            if v is True and isinstance(t, ast.BoolOp) and isinstance(t.op, ast.And):
                if any(norm(x) in ("not (not_terminal and is_control)", "not is_control") for x in t.values):
                    ok = True
        ctx.check(ok, rb.fq, short(nd.stmt), f"{rb.module.relpath}:{nd.lineno}", "append guarded against control segments on a non-terminal",
                  "this branch appends segment text without checking `not (not_terminal and is_control)`: control codes of such segments are written to a file/pipe")
    ctx.floor(n, 2, "appends in the emit loop")


def r3_5(ctx):
    memo_rule(ctx, "R3.5", ["style", "console", "segment", "color", "palette"], 8)


def r3_6(ctx):
    ctx.rule("R3.6", "Console.control / Control: control codes enter the buffer only as Segment.control(...) (is_control=True), so R3.4's guard sees them")
    c = ctx.repo.fn("console:Console.control")
    ok = any(isinstance(x, ast.Call) and norm(x.func) == "Segment.control" for x in walk_local(c.node))
    ctx.check(ok, c.fq, "Segment.control(str(control_codes))", c.where, "Console.control buffers a control segment", "Console.control no longer wraps the codes in Segment.control: they are treated as visible text")
    k = ctx.repo.fn("control:Control.__init__")
    ok = any(isinstance(x, ast.Call) and norm(x.func) == "Segment.control" for x in walk_local(k.node))
    ctx.check(ok, k.fq, "Segment.control(control_codes)", k.where, "Control holds a control segment", "Control no longer builds a control segment")
    def builds_control(fn):
        """every cls(...)/Segment(...) construction in fn passes is_control=True (3rd positional or keyword)"""
        cons = [x for x in walk_local(fn.node) if isinstance(x, ast.Call) and norm(x.func) in ("cls", "Segment")]
        def is_true(e):
            return isinstance(e, ast.Constant) and e.value is True
        return bool(cons) and all((len(x.args) >= 3 and is_true(x.args[2])) or any(k.arg == "is_control" and is_true(k.value) for k in x.keywords) for x in cons)
    sc = ctx.repo.fn("segment:Segment.control")
    ctx.check(builds_control(sc), sc.fq, "cls(text, style, is_control=True)", sc.where, "Segment.control sets is_control", "Segment.control does not set is_control=True")
    mc = ctx.repo.fn("segment:Segment.make_control")
    ctx.check(builds_control(mc), mc.fq, "make_control", mc.where, "make_control marks every segment as control", "Segment.make_control does not mark segments as control")


def r3_7(ctx):
    from .c06 import r6_2
    r6_2(ctx, rule_id="R3.7", only={"_ansi"})


RULES = [r3_1, r3_2, r3_3, r3_4, r3_5, r3_6, r3_7]
