"""C19 The ANSI decoder inverts the encoder, and redirected output is never lost."""
from __future__ import annotations

import ast
from typing import Dict, List, Optional, Set

from .. import cfg as cfgmod
from .. import regexast
from ..absint import Const, IntIv, Interp, StrOf, Tup, as_iv
from ..astutil import is_attr_of, alias_map, call_name, const_int, expand_alias, fstring_parts, kwarg, literal
from ..index import AnalysisError, AnchorVanished, norm, short, walk_local
from .c18 import _color

LEVEL = "other"
UNDECIDED = [
    "per-character style equality of the round trip for all styled texts (only the table/branch agreement between encoder and decoder is decided)",
    "chunk-boundary histories of FileProxy.write beyond the buffer typestate (e.g. '\\r' handling, interleaving of stdout and stderr)",
]
TRUSTED = ["CPython ast parser", "re._parser", "str.partition / list semantics", "C18's abstract interpretation of Color.get_ansi_codes"]


def _tables(ctx):
    am = ctx.repo.mod("ansi")
    from .common import table_value
    sgr = table_value(am, "SGR_STYLE_MAP")
    st = ctx.repo.cls("style:Style")
    smap = literal(st.class_assign("_style_map"))
    bits: Dict[int, str] = {}
    for s in st.node.body:
        if isinstance(s, ast.Assign) and isinstance(s.value, ast.Call) and norm(s.value.func) == "_Bit":
            bits[s.value.args[0].value] = s.targets[0].id
    return am, sgr, smap, bits


def r19_1(ctx):
    ctx.rule("R19.1", "attribute codes: for every attribute bit n the SGR parameter Style._style_map[n] is a key of the decoder's SGR_STYLE_MAP whose value is exactly that attribute's name")
    am, sgr, smap, bits = _tables(ctx)
    where = f"{am.relpath}:{am.global_assign('SGR_STYLE_MAP').lineno}"
    ctx.floor(len(bits), 13, "attribute bits")
    for n, name in sorted(bits.items()):
        code = smap.get(n)
        ok = code is not None and code.isdecimal() and sgr.get(int(code)) == name
        ctx.check(ok, "ansi:SGR_STYLE_MAP", f"bit {n} ({name}) <-> SGR {code}", where, f"encoder emits {code} for {name}; decoder maps {code} -> {sgr.get(int(code)) if code and code.isdecimal() else None!r}",
                  f"encoder emits SGR {code} for `{name}` but the decoder maps {code} to {sgr.get(int(code)) if code and code.isdecimal() else None!r}: the attribute does not survive the round trip")
    # 'not x' entries name real attributes and use the ECMA-48 off codes consistently (each value parses into attributes only)
    names = set(bits.values())
    for code, val in sorted(sgr.items()):
        words = val.split()
        if words and words[0] == "not":
            ok = all(w in names for w in words if w != "not") and words.count("not") * 2 == len(words)
            ctx.check(ok, "ansi:SGR_STYLE_MAP", f"{code}: {val!r}", where, f"{code} switches off {[w for w in words if w != 'not']}", f"SGR_STYLE_MAP[{code}] = {val!r} is not a list of `not <attribute>` pairs")


def r19_2(ctx):
    ctx.rule("R19.2", "colour codes: for every standard colour n in 0..15 the code the encoder produces (abstract evaluation of Color.get_ansi_codes) is mapped by SGR_STYLE_MAP back to `color(n)` / `on color(n)`; 39/49 map to `default` / `on default`")
    am, sgr, smap, bits = _tables(ctx)
    where = f"{am.relpath}:{am.global_assign('SGR_STYLE_MAP').lineno}"
    it = Interp(ctx.repo, ctx.repo.mod("color"))
    f = ctx.repo.fn("color:Color.get_ansi_codes")
    fgp = f.params[1]
    n_cases = 0
    for n in range(16):
        for fg in (True, False):
            col = _color(it, "STANDARD")
            col = col.with_field("number", IntIv(n, n, "self.number"))
            outs = it.run(f, {"self": col, fgp: Const(fg)})
            codes = set()
            for o in outs:
                if o.kind == "return" and isinstance(o.value, Tup) and len(o.value.items) == 1 and isinstance(o.value.items[0], StrOf):
                    iv = as_iv(o.value.items[0].inner)
                    if iv and iv[0] == iv[1]:
                        codes.add(int(iv[0]))
                elif o.kind == "return" and isinstance(o.value, Tup) and len(o.value.items) == 1 and isinstance(o.value.items[0], Const) and isinstance(o.value.items[0].v, str) and o.value.items[0].v.isascii() and o.value.items[0].v.isdigit():
                    codes.add(int(o.value.items[0].v))  # str() of a known integer, folded by the interpreter
            n_cases += 1
            want = ("" if fg else "on ") + f"color({n})"
            ok = len(codes) == 1 and sgr.get(next(iter(codes))) == want
            ctx.check(ok, "ansi:SGR_STYLE_MAP", f"color {n} {'fg' if fg else 'bg'} -> {sorted(codes)}", where, f"encoder code {sorted(codes)} decodes to {want!r}",
                      f"encoder emits {sorted(codes)} for {want!r} but the decoder maps it to {[sgr.get(c) for c in codes]}: standard colour {n} does not survive the round trip", trivial=n not in (0, 7, 8, 15))
    for fg, want, code in ((True, "default", 39), (False, "on default", 49)):
        col = _color(it, "DEFAULT")
        outs = it.run(f, {"self": col, fgp: Const(fg)})
        got = {o.value.items[0].v for o in outs if o.kind == "return" and isinstance(o.value, Tup) and isinstance(o.value.items[0], Const)}
        ok = got == {str(code)} and sgr.get(code) == want
        ctx.check(ok, "ansi:SGR_STYLE_MAP", f"default {'fg' if fg else 'bg'} -> {sorted(got)}", where, f"{code} <-> {want!r}", f"default colour encodes to {sorted(got)} but SGR_STYLE_MAP[{code}] = {sgr.get(code)!r}")


def _sgr_fn(ctx):
    """the AnsiDecoder method that interprets the SGR parameters (decode_line itself, or a helper it delegates to)"""
    c = ctx.repo.cls("ansi:AnsiDecoder")
    for name, lst in c.methods.items():
        for f in lst:
            if any(isinstance(n, ast.Compare) and norm(n.left) == "code" and isinstance(n.ops[0], ast.Eq) and isinstance(n.comparators[0], ast.Constant) and n.comparators[0].value in (0, 38) for n in walk_local(f.node)):
                return f
    return ctx.repo.fn("ansi:AnsiDecoder.decode_line")


def r19_3(ctx):
    ctx.rule("R19.3", "extended colours: the decoder reads what the encoder writes - 38 fills the foreground slot and 48 the background slot of Style.from_color; selector 5 consumes one parameter through Color.from_ansi, selector 2 three parameters through Color.from_rgb (r, g, b); each branch is protected against a truncated sequence")
    f = _sgr_fn(ctx)
    aliases = alias_map(f.node)
    if not any(isinstance(c, ast.Call) and norm(c.func) == "next" for c in ast.walk(f.node.body[0] if False else f.node)) and not any(
            isinstance(c, ast.Call) and isinstance(c.func, ast.Name) and c.func.id in f.module.functions and any(isinstance(x, ast.Call) and norm(x.func) == "next" for x in ast.walk(f.module.functions[c.func.id].node)) for c in walk_local(f.node)):
        raise AnalysisError(f"{f.fq}: the SGR parameters are not consumed through an iterator (next()); index-based parameter parsing is outside what this rule interprets - the extended-colour clause cannot be decided")
    found = {}
    for n in walk_local(f.node):
        if isinstance(n, ast.If) and isinstance(n.test, ast.Compare) and norm(n.test.left) == "code" and isinstance(n.test.ops[0], ast.Eq) and isinstance(n.test.comparators[0], ast.Constant) and n.test.comparators[0].value in (38, 48):
            found[n.test.comparators[0].value] = n
    for lead in (38, 48):
        if lead not in found:
            ctx.violation(f.fq, f"code == {lead}", f.where, f"the decoder has no branch for SGR {lead} (extended {'foreground' if lead == 38 else 'background'} colour)")
            continue
        node = found[lead]
        where = f"{f.module.relpath}:{node.lineno}"
        # shape B: the parameters are read by a helper  `X = H(iter_codes)`  and the slot is filled with  from_color(.. X ..)
        helper = None
        hvar = None
        for x in ast.walk(ast.Module(body=node.body, type_ignores=[])):
            if isinstance(x, ast.Assign) and isinstance(x.value, ast.Call) and isinstance(x.value.func, ast.Name) and x.value.func.id in f.module.functions and len(x.value.args) == 1 and norm(x.value.args[0]) == "iter_codes" and isinstance(x.targets[0], ast.Name):
                helper = f.module.functions[x.value.func.id]
                hvar = x.targets[0].id
        region = helper.node.body if helper is not None else node.body
        it_name = helper.params[0] if helper is not None else "iter_codes"
        h_aliases = alias_map(helper.node) if helper is not None else aliases
        sub = {}
        for x in ast.walk(ast.Module(body=region, type_ignores=[])):
            if isinstance(x, ast.If) and isinstance(x.test, ast.Compare) and isinstance(x.test.comparators[0], ast.Constant) and x.test.comparators[0].value in (5, 2) and isinstance(x.test.ops[0], ast.Eq):
                sub[x.test.comparators[0].value] = x
        # the selector is read from the parameter stream
        sel_ok = any(isinstance(x, ast.Assign) and norm(x.value) == f"next({it_name})" for x in ast.walk(ast.Module(body=region, type_ignores=[])))
        ctx.check(sel_ok, f.fq, f"{lead}: selector", where, "selector read from the next parameter", f"SGR {lead}: the colour-space selector is not read from the next parameter")
        # slot: from_color(colour) for 38, from_color(None, colour) for 48
        slot_calls = [c for c in ast.walk(ast.Module(body=node.body, type_ignores=[])) if isinstance(c, ast.Call) and norm(expand_alias(c.func, aliases)).endswith("Style.from_color")]

        def slot_arg(c):
            if lead == 38:
                good = len(c.args) == 1 and not c.keywords or (len(c.args) == 0 and kwarg(c, "color") is not None and kwarg(c, "bgcolor") is None)
                return (c.args[0] if c.args else kwarg(c, "color")) if good else None
            good = (len(c.args) == 2 and isinstance(c.args[0], ast.Constant) and c.args[0].value is None) or (kwarg(c, "bgcolor") is not None and not c.args and kwarg(c, "color") is None)
            return (c.args[1] if len(c.args) == 2 else kwarg(c, "bgcolor")) if good else None
        if helper is not None:
            ok = len(slot_calls) == 1 and slot_arg(slot_calls[0]) is not None and norm(slot_arg(slot_calls[0])) == hvar
            ctx.check(ok, f.fq, f"{lead}: {short(slot_calls[0]) if slot_calls else 'no from_color'}", where, f"the colour read by {helper.name}() fills the {'foreground' if lead == 38 else 'background'} slot",
                      f"SGR {lead}: the colour read from the parameters is not placed in the {'foreground' if lead == 38 else 'background'} slot of Style.from_color")
        for sel, ctor, nnext in ((5, "Color.from_ansi", 1), (2, "Color.from_rgb", 3)):
            if sel not in sub:
                ctx.violation(f.fq, f"{lead};{sel}", where, f"the decoder has no branch for {lead};{sel};… although the encoder emits it")
                continue
            detail = ""
            if helper is None:
                calls = [c for c in ast.walk(ast.Module(body=sub[sel].body, type_ignores=[])) if isinstance(c, ast.Call) and norm(expand_alias(c.func, aliases)).endswith("Style.from_color")]
                ok = len(calls) == 1
                colarg = slot_arg(calls[0]) if ok else None
            else:
                rets = [r for r in ast.walk(ast.Module(body=sub[sel].body, type_ignores=[])) if isinstance(r, ast.Return)]
                calls = rets
                ok = len(rets) == 1
                colarg = rets[0].value if ok else None
            if ok and isinstance(colarg, ast.Call):
                cn = norm(expand_alias(colarg.func, h_aliases))
                nx = [a for a in colarg.args if norm(a) == f"next({it_name})"]
                if not nx and all(isinstance(a, ast.Name) for a in colarg.args):
                    # parameters read into temporaries first: they must be read in the order they are passed
                    reads = [norm(x.targets[0]) for x in sub[sel].body if isinstance(x, ast.Assign) and len(x.targets) == 1 and norm(x.value) == f"next({it_name})"]
                    if reads == [a.id for a in colarg.args]:
                        nx = list(colarg.args)
                ok = cn == ctor and len(nx) == nnext and len(colarg.args) == nnext
                detail = f"{cn}({len(nx)} params)"
            else:
                ok = False
            ctx.check(ok, f.fq, f"{lead};{sel}: {short(calls[0]) if calls else 'no from_color'}", f"{f.module.relpath}:{sub[sel].lineno}",
                      f"{lead};{sel} -> {'foreground' if lead == 38 else 'background'} slot via {ctor} ({nnext} parameter(s))",
                      f"SGR {lead};{sel}: decoder does not build the {'foreground' if lead == 38 else 'background'} colour with {ctor} from exactly {nnext} following parameter(s) ({detail}): encoder and decoder disagree on the extended-colour form")
        # truncated sequences: next() protected

        def protected(body):
            for w in body:
                if isinstance(w, ast.With) and "suppress(StopIteration)" in norm(w.items[0].context_expr):
                    return True
                if isinstance(w, ast.Try) and any(h.type is None or "StopIteration" in norm(h.type) or norm(h.type) in ("Exception", "BaseException") for h in w.handlers):
                    return True
            return False
        prot = protected(region) or (helper is not None and protected(node.body))
        ctx.check(prot, f.fq, f"{lead}: suppress(StopIteration)", where, "a truncated parameter list is ignored", f"SGR {lead}: next() on the parameter iterator is not protected: a sequence cut short raises StopIteration")
    # from_rgb / from_ansi parameter order
    fr = ctx.repo.fn("color:Color.from_rgb")
    ctx.check(fr.params[1:4] == ["red", "green", "blue"], fr.fq, str(fr.params), fr.where, "from_rgb takes (red, green, blue) - the order the encoder writes", f"Color.from_rgb parameters are {fr.params[1:]} but the encoder writes r;g;b")


def _ansi_alternatives(rx):
    """(sgr alternative, osc alternative) of re_ansi read off the regex AST:  ESC [ (group) m   and   ESC ] (group) ESC \\ """
    sgr_alt = osc_alt = None
    for alt in regexast.alternatives(regexast.parse_call(rx)):
        kinds = [a[0] for a in alt]
        lits = [a[1] if a[0] == "lit" else None for a in alt]
        if kinds == ["lit", "lit", "group", "lit"] and lits[0] == "\x1b" and lits[1] == "[" and lits[3] == "m":
            sgr_alt = alt
        elif kinds == ["lit", "lit", "group", "lit", "lit"] and lits[0] == "\x1b" and lits[1] == "]" and lits[3] == "\x1b" and lits[4] == "\\":
            osc_alt = alt
    return sgr_alt, osc_alt


def r19_13(ctx):
    ctx.rule("R19.13", "a control sequence that is not SGR never takes printable text with it: in re_ansi the parameter group of the ESC [ .. m alternative may only consume CSI parameter and intermediate bytes (0x20-0x3F). If it can consume a final byte or a letter (`.*?`), ESC[2K or ESC[?25l is read as the start of an SGR sequence that runs to the next letter m, and the text in between is dropped from the redirected line ('\\x1b[2Kdownloading item 3' decodes to ' 3')")
    am = ctx.repo.mod("ansi")
    rx = regexast.compile_call(am.global_assign("re_ansi"))
    if rx is None:
        raise AnchorVanished("ansi.re_ansi not found")
    where = f"{am.relpath}:{rx.lineno}"
    sgr_alt, _osc = _ansi_alternatives(rx)
    if sgr_alt is None:
        raise AnalysisError("re_ansi: no alternative of the form ESC [ (parameters) m was recognised; the tokenizer is written in a form this rule does not read")
    rc = regexast.repeated_class(sgr_alt[2][2])
    if rc is None:
        raise AnalysisError("re_ansi: the SGR parameter group is not a repeated character class")
    bad = [chr(c) for c in list(range(0x00, 0x20)) + list(range(0x40, 0x7F)) + [0xE9, 0x4E2D] if regexast.class_accepts(rc[2], rc[3], chr(c))]
    if bad:
        shown = "".join(c for c in bad if c.isprintable())[:12]
        ctx.violation("ansi:re_ansi", rx.args[0].value, where, f"the SGR parameter group also consumes {len(bad)} kinds of character that cannot be part of the parameters (e.g. {shown!r}): ESC[2K followed by text is matched up to the next 'm' and that text is lost - AnsiDecoder().decode_line('\\x1b[2Kdownloading item 3').plain == ' 3'")
    else:
        ctx.ok(where, "the SGR parameters are limited to CSI parameter / intermediate bytes", "ansi:re_ansi")


def _fold_env(expr, env):
    """value of a pure expression over known string/int locals, folded (names other than those and a few total builtins make it
    unreadable -> AnalysisError)"""
    allowed = {"int": int, "min": min, "max": max, "len": len, "str": str, "bool": bool}
    for n in ast.walk(expr):
        if isinstance(n, ast.Name) and n.id not in env and n.id not in allowed:
            raise AnalysisError(f"`{norm(expr)}` reads `{n.id}`; it cannot be folded for an empty parameter")
        if isinstance(n, ast.Call) and isinstance(n.func, ast.Attribute) and n.func.attr not in ("isdecimal", "isdigit", "isnumeric", "lstrip", "rstrip", "strip", "startswith", "endswith", "rsplit", "split", "rpartition", "partition", "removesuffix", "replace", "rfind", "find", "rindex", "index", "splitlines", "count"):
            raise AnalysisError(f"`{norm(expr)}` calls .{n.func.attr}(); it cannot be folded")
        if isinstance(n, (ast.Lambda, ast.Await, ast.Yield, ast.YieldFrom, ast.NamedExpr, ast.ListComp, ast.GeneratorExp, ast.DictComp, ast.SetComp)):
            raise AnalysisError(f"`{norm(expr)}` cannot be folded")
    code = compile(ast.fix_missing_locations(ast.Expression(body=ast.parse(norm(expr), mode="eval").body)), "<fold>", "eval")
    try:
        return True, eval(code, {"__builtins__": {}}, dict(allowed, **env))
    except Exception as e:  # the expression raises on that literal
        return False, e


def _fold_on(expr, var, value):
    return _fold_env(expr, {var: value})


def _fold_loop_body(stmts, env, sink):
    """partial evaluation of a straight-line loop body for known locals: the values appended to `sink`, or AnalysisError.
    Returns (values, how) where how is 'continue' / 'end' / ('raises', exc)"""
    out = []

    def run(body):
        for st in body:
            if isinstance(st, ast.If):
                okc, val = _fold_env(st.test, env)
                if not okc:
                    return ("raises", val)
                r = run(st.body if val else st.orelse)
                if r is not None:
                    return r
            elif isinstance(st, ast.Continue):
                return "continue"
            elif isinstance(st, ast.While) and not st.orelse:
                for _round in range(64):
                    okc, val = _fold_env(st.test, env)
                    if not okc:
                        return ("raises", val)
                    if not val:
                        break
                    r = run(st.body)
                    if r is not None and r != "continue":
                        return r
                else:
                    raise AnalysisError(f"`{short(st)}` does not terminate within 64 rounds for the probe literal")
            elif isinstance(st, (ast.Assign, ast.AnnAssign)) and isinstance(st.targets[0] if isinstance(st, ast.Assign) else st.target, ast.Name) and st.value is not None:
                okc, val = _fold_env(st.value, env)
                if not okc:
                    return ("raises", val)
                env[(st.targets[0] if isinstance(st, ast.Assign) else st.target).id] = val
            elif isinstance(st, ast.Expr) and isinstance(st.value, ast.Call) and norm(st.value.func) in (f"{sink}.append", "append", f"{sink}_append") and len(st.value.args) == 1:
                okc, val = _fold_env(st.value.args[0], env)
                if not okc:
                    return ("raises", val)
                out.append(val)
            elif isinstance(st, ast.Expr) and isinstance(st.value, ast.Constant):
                continue
            elif isinstance(st, ast.Pass):
                continue
            else:
                raise AnalysisError(f"`{short(st)}` in the code loop is not folded by this rule")
        return None

    r = run(stmts)
    return out, (r or "end")

def r19_14(ctx):
    ctx.rule("R19.14", "a sequence with no parameters is a reset: re_ansi matches ESC[m (what git, tput sgr0 and many tools write) with an empty parameter string. decode_line must take its SGR branch for that match - a truthiness test of the parameter string reads it as 'no SGR' - and the parameter list built from it must contain 0 for an omitted parameter, so that the running style is dropped; otherwise the colour of redirected output leaks into every line decoded afterwards")
    am = ctx.repo.mod("ansi")
    rx = regexast.compile_call(am.global_assign("re_ansi"))
    if rx is None:
        raise AnchorVanished("ansi.re_ansi not found")
    sgr_alt, _osc = _ansi_alternatives(rx)
    if sgr_alt is None:
        raise AnalysisError("re_ansi: no alternative of the form ESC [ (parameters) m was recognised")
    rc = regexast.repeated_class(sgr_alt[2][2])
    if rc is None:
        raise AnalysisError("re_ansi: the SGR parameter group is not a repeated character class")
    if rc[0] > 0:
        ctx.ok(f"{am.relpath}:{rx.lineno}", "ESC[m is not matched as SGR (it is removed as an unknown sequence): premise of this rule absent", "ansi:re_ansi")
        raise AnalysisError("re_ansi requires at least one SGR parameter byte: ESC[m then falls to the CSI remover and is dropped without resetting the style; this rule does not decide that design")
    gidx = sgr_alt[2][1]
    f = ctx.repo.fn("ansi:AnsiDecoder.decode_line")
    m = f.module
    # the name that holds the SGR parameters: `plain, sgr, osc = token` (field order = _AnsiToken(plain, <group 1>, <group 2>))
    tk = ctx.repo.fn("ansi:_ansi_tokenize")
    order = None
    for n in walk_local(tk.node):
        if isinstance(n, ast.Assign) and isinstance(n.targets[0], ast.Tuple) and isinstance(n.value, ast.Call) and norm(n.value.func).endswith(".groups"):
            order = [norm(e) for e in n.targets[0].elts]
    field = None
    for n in walk_local(tk.node):
        if isinstance(n, ast.Call) and call_name(n) == "_AnsiToken" and len(n.args) == 3:
            for i, a in enumerate(n.args):
                if order is not None and len(order) >= gidx and norm(a) == order[gidx - 1]:
                    field = i
                if isinstance(a, ast.Call) and isinstance(a.func, ast.Attribute) and a.func.attr == "group" and len(a.args) == 1 and isinstance(a.args[0], ast.Constant) and a.args[0].value == gidx:
                    field = i
                if isinstance(a, ast.Subscript) and isinstance(a.slice, ast.Constant) and a.slice.value == gidx and not isinstance(a.value, ast.Call):
                    field = i
                # parts = re_ansi.split(text): [plain, g1, g2, plain, g1, g2, ...] walked in steps of (groups + 1): parts[index + k] is group k
                if isinstance(a, ast.Subscript) and isinstance(a.value, ast.Name) and isinstance(a.slice, ast.BinOp) and isinstance(a.slice.op, ast.Add) and isinstance(a.slice.right, ast.Constant) and a.slice.right.value == gidx:
                    srcs = [x.value for x in walk_local(tk.node) if isinstance(x, ast.Assign) and len(x.targets) == 1 and norm(x.targets[0]) == a.value.id]
                    if len(srcs) == 1 and isinstance(srcs[0], ast.Call) and norm(srcs[0].func) == "re_ansi.split":
                        field = i
    if field is None:
        raise AnalysisError("_ansi_tokenize: cannot follow the SGR group of re_ansi into the token it yields")
    sgr_var = None
    for n in walk_local(f.node):
        if isinstance(n, ast.Assign) and isinstance(n.targets[0], ast.Tuple) and len(n.targets[0].elts) == 3 and norm(n.value) == "token":
            sgr_var = norm(n.targets[0].elts[field])
        if isinstance(n, ast.For) and isinstance(n.target, ast.Tuple) and len(n.target.elts) == 3 and "_ansi_tokenize" in norm(n.iter):
            sgr_var = norm(n.target.elts[field])
    if sgr_var is None:
        raise AnalysisError("decode_line: the token is not unpacked into three names; cannot tell which one holds the SGR parameters")
    # the branch that interprets the parameters
    branch = None
    for n in walk_local(f.node):
        if isinstance(n, ast.If) and any(isinstance(c, ast.Call) and isinstance(c.func, ast.Attribute) and c.func.attr == "split" and norm(c.func.value) == sgr_var for b in n.body for c in ast.walk(b)):
            if branch is None or any(n is x for x in ast.walk(branch)):
                branch = n
    if branch is None:
        raise AnalysisError(f"decode_line: no branch splits `{sgr_var}` into codes; the SGR interpretation is written in a form this rule does not read")
    where = f"{m.relpath}:{branch.lineno}"
    t = norm(branch.test)
    if t in (sgr_var, f"{sgr_var} != ''", f"len({sgr_var})", f"len({sgr_var}) > 0", f"bool({sgr_var})"):
        ctx.violation(f.fq, f"elif {t}:", where, f"the SGR branch is taken only for a non-empty parameter string: ESC[m (a reset) is matched by re_ansi with '' and then ignored, so the style in force leaks into all later text - AnsiDecoder().decode('\\x1b[31mred\\x1b[m plain') paints ' plain' red")
        return
    if t not in (f"{sgr_var} is not None",):
        raise AnalysisError(f"decode_line: the SGR branch is guarded by `{t}`; cannot tell whether it is taken for an empty parameter string")
    # `is not None` tells a match from no match only if plain tokens carry None in that field
    tc = ctx.repo.cls("ansi:_AnsiToken")
    fields = [b for b in tc.node.body if isinstance(b, ast.AnnAssign)]
    if len(fields) <= field or fields[field].value is None:
        raise AnalysisError("_AnsiToken: field defaults not found")
    dflt = fields[field].value
    plain_tokens_short = any(isinstance(n, ast.Call) and call_name(n) == "_AnsiToken" and len(n.args) + len(n.keywords) < 3 for n in walk_local(tk.node))
    if plain_tokens_short and not (isinstance(dflt, ast.Constant) and dflt.value is None):
        ctx.violation(tc.fq if hasattr(tc, "fq") else "ansi:_AnsiToken", short(fields[field]), f"{m.relpath}:{fields[field].lineno}", f"plain-text tokens carry `{norm(dflt)}` in the SGR field while decode_line takes `{t}` as 'an SGR sequence matched': a text run that is empty after CSI removal resets the style")
        return
    ctx.ok(where, f"the SGR branch is taken for every SGR match (`{t}`; plain tokens carry None)", f.fq)
    # an omitted parameter is 0
    comp = None
    for b in branch.body:
        for c in ast.walk(b):
            if isinstance(c, (ast.ListComp, ast.GeneratorExp)) and len(c.generators) == 1 and "split" in norm(c.generators[0].iter) and sgr_var in norm(c.generators[0].iter):
                comp = c
    if comp is None:
        loops = [c for b in branch.body for c in ast.walk(b) if isinstance(c, ast.For) and isinstance(c.target, ast.Name) and "split" in norm(c.iter) and sgr_var in norm(c.iter)]
        if len(loops) != 1:
            raise AnalysisError("decode_line: the codes are built neither by one comprehension nor by one loop over the split parameters; the omitted-parameter clause is not decided")
        lp = loops[0]
        sinks = {norm(c.func.value) for c in ast.walk(lp) if isinstance(c, ast.Call) and isinstance(c.func, ast.Attribute) and c.func.attr == "append"}
        if len(sinks) != 1:
            raise AnalysisError("decode_line: the code loop appends to more than one list")
        vals, how = _fold_loop_body(lp.body, {lp.target.id: ""}, sinks.pop())
        w2 = f"{m.relpath}:{lp.lineno}"
        if isinstance(how, tuple):
            ctx.violation(f.fq, short(lp), w2, f"the code loop raises {type(how[1]).__name__} for an omitted parameter: ESC[m breaks the decoding of the line")
        elif vals == [0]:
            ctx.ok(w2, "an omitted parameter is read as 0 (reset)", f.fq)
        elif not vals:
            ctx.violation(f.fq, short(lp), w2, "an omitted parameter is skipped by the code loop: ESC[m yields no code at all and nothing is reset")
        else:
            ctx.violation(f.fq, short(lp), w2, f"an omitted parameter becomes {vals!r}, not 0: ESC[m does not reset")
        return
    gen = comp.generators[0]
    if not isinstance(gen.target, ast.Name):
        raise AnalysisError("decode_line: the code comprehension unpacks its items")
    v = gen.target.id
    w2 = f"{m.relpath}:{comp.lineno}"
    kept = True
    for cond in gen.ifs:
        okc, val = _fold_on(cond, v, "")
        if not okc:
            raise AnalysisError(f"decode_line: the filter `{norm(cond)}` raises on an empty parameter")
        kept = kept and bool(val)
    if not kept:
        ctx.violation(f.fq, short(comp), w2, f"an omitted parameter is filtered out (`{' and '.join(norm(c) for c in gen.ifs)}` is false for ''): ESC[m yields no code at all and nothing is reset")
        return
    okv, val = _fold_on(comp.elt, v, "")
    if not okv:
        ctx.violation(f.fq, short(comp), w2, f"`{norm(comp.elt)}` raises {type(val).__name__} for an omitted parameter: ESC[m breaks the decoding of the line")
    elif val != 0:
        ctx.violation(f.fq, short(comp), w2, f"an omitted parameter becomes {val!r}, not 0: ESC[m does not reset")
    else:
        ctx.ok(w2, "an omitted parameter is read as 0 (reset)", f.fq)


def r19_15(ctx):
    ctx.rule("R19.15", "a carriage return discards only the TEXT that precedes it: a line rewritten in place shows its final state, but (a) a line that merely ends in '\\r' (every line of CRLF output) has nothing after it and keeps its text, and (b) escape sequences in front of the carriage return still set the style of what follows. The statements that reduce the line before it is tokenized are folded for the literals 'ab\\r', 'xy\\rab' and '\\x1b[1mxy\\rab': the result must still contain 'ab' resp. the escape sequence")
    f = ctx.repo.fn("ansi:AnsiDecoder.decode_line")
    m = f.module
    if len(f.params) < 2:
        raise AnalysisError("decode_line: no line parameter")
    lv = f.params[1]
    loop = None
    for n in f.node.body:
        for x in ast.walk(n):
            if isinstance(x, ast.Call) and call_name(x) == "_ansi_tokenize" and loop is None:
                loop = (n, x)
    if loop is None:
        raise AnalysisError("decode_line: the call of _ansi_tokenize was not found at the top level of the function")
    top, tcall = loop
    if len(tcall.args) != 1:
        raise AnalysisError("decode_line: _ansi_tokenize is not called with one argument")
    results = {}
    for probe in ("ab\r", "ab\r\r", "xy\rab", "\x1b[1mxy\rab"):
        env = {lv: probe}
        for st in f.node.body:
            if st is top:
                break
            names = {n.id for n in ast.walk(st) if isinstance(n, ast.Name)}
            stores = {n.id for n in ast.walk(st) if isinstance(n, ast.Name) and isinstance(n.ctx, ast.Store)}
            if not (names & set(env)):
                continue
            if not (stores & set(env)) and not isinstance(st, (ast.If, ast.While, ast.For)):
                # reads the line without changing it (e.g. a length check): only assignments matter; a read into another local is tracked
                if isinstance(st, ast.Assign) and isinstance(st.targets[0], ast.Name):
                    try:
                        okc, val = _fold_env(st.value, env)
                    except AnalysisError:
                        continue
                    if okc:
                        env[st.targets[0].id] = val
                continue
            _vals, how = _fold_loop_body([st], env, "__no_sink__")
            if isinstance(how, tuple):
                raise AnalysisError(f"decode_line: `{short(st)}` raises for the line {probe!r}")
        okv, val = _fold_env(tcall.args[0], env)
        if not okv or not isinstance(val, str):
            raise AnalysisError(f"decode_line: the argument of _ansi_tokenize cannot be folded for the line {probe!r}")
        results[probe] = val
    where = f"{m.relpath}:{top.lineno}"
    bad = [p_ for p_ in ("ab\r", "ab\r\r") if "ab" not in results[p_]]
    if bad:
        ctx.violation(f.fq, norm(tcall), where, f"a line that ends in a carriage return is reduced to {results[bad[0]]!r} before it is tokenized ({bad[0]!r} -> {results[bad[0]]!r}): every line of CRLF output written to a redirected stream is printed empty - FileProxy.write('hello\\r\\n') prints a blank line")
    else:
        ctx.ok(where, f"'ab\\r' is tokenized as {results['ab' + chr(13)]!r}, 'xy\\rab' as {results['xy' + chr(13) + 'ab']!r}", f.fq)
    esc = results["\x1b[1mxy\rab"]
    if "\x1b[1m" not in esc:
        ctx.violation(f.fq, norm(tcall), where, f"the part of the line in front of a carriage return is cut off before the line is tokenized ('\\x1b[1mxy\\rab' -> {esc!r}): escape sequences in it are thrown away with the text - '\\x1b[1;31mloading 50%\\rloading 100%' decodes to an unstyled 'loading 100%' and the running style is not updated, while a terminal shows it (and the following lines) bold red")
    else:
        ctx.ok(where, "escape sequences in front of a carriage return reach the tokenizer", f.fq)
    if "ab" not in results["xy\rab"]:
        ctx.violation(f.fq, norm(tcall), where, f"the text after the last carriage return is lost ('xy\\rab' -> {results['xy' + chr(13) + 'ab']!r})")
    # (c) inside the token loop: a plain-text piece WITHOUT a carriage return is appended to the line decoded so far; one WITH a
    # carriage return restarts the line and contributes what follows the last one.  The plain-text branch is folded for the pieces
    # 'ab', 'xy\rab' and 'xy\r': (restarted?, appended text) must be (no, 'ab'), (yes, 'ab'), (yes, '')
    lp = next((x for x in ast.walk(top) if isinstance(x, ast.For) and any(y is tcall for y in ast.walk(x.iter))), None)
    if lp is None:
        raise AnalysisError("decode_line: the loop over the tokens was not found")
    pv = None
    if isinstance(lp.target, ast.Tuple) and len(lp.target.elts) == 3 and isinstance(lp.target.elts[0], ast.Name):
        pv = lp.target.elts[0].id
    for x in lp.body:
        if isinstance(x, ast.Assign) and isinstance(x.targets[0], ast.Tuple) and len(x.targets[0].elts) == 3 and isinstance(x.value, ast.Name) and isinstance(lp.target, ast.Name) and x.value.id == lp.target.id and isinstance(x.targets[0].elts[0], ast.Name):
            pv = x.targets[0].elts[0].id
    branch = next((x for x in lp.body if isinstance(x, ast.If) and norm(x.test) == pv), None) if pv else None
    if branch is None:
        raise AnalysisError("decode_line: the plain-text branch of the token loop (`if plain_text:`) was not found; clause (c) is not decided")

    al1915 = alias_map(f.node)

    def fold_piece(piece):
        env = {pv: piece}
        state = {"restart": False, "out": None}

        def run(body):
            for st in body:
                if isinstance(st, ast.If):
                    okc, val = _fold_env(st.test, env)
                    if not okc:
                        raise AnalysisError(f"decode_line: `{norm(st.test)}` cannot be folded for the piece {piece!r}")
                    run(st.body if val else st.orelse)
                elif isinstance(st, ast.Assign) and len(st.targets) == 1 and isinstance(st.targets[0], ast.Name) and isinstance(st.value, ast.Call) and norm(st.value.func) in ("Text", "_Text") and not st.value.args:
                    state["restart"] = True
                elif isinstance(st, ast.Expr) and isinstance(st.value, ast.Call) and isinstance(st.value.func, ast.Attribute) and st.value.func.attr == "clear" and not st.value.args:
                    state["restart"] = True  # the list of pieces decoded so far is emptied: the line starts again
                elif isinstance(st, ast.Delete) and all(isinstance(t_, ast.Subscript) and isinstance(t_.slice, ast.Slice) and t_.slice.lower is None and t_.slice.upper is None for t_ in st.targets):
                    state["restart"] = True
                elif isinstance(st, ast.Assign) and len(st.targets) == 1 and isinstance(st.targets[0], ast.Name) and isinstance(st.value, ast.Attribute) and st.value.attr == "append":
                    continue  # bound-method alias of the (new) line's append
                elif isinstance(st, ast.Assign) and len(st.targets) == 1 and isinstance(st.targets[0], ast.Name):
                    okc, val = _fold_env(st.value, env)
                    if not okc:
                        raise AnalysisError(f"decode_line: `{short(st)}` cannot be folded for the piece {piece!r}")
                    env[st.targets[0].id] = val
                elif isinstance(st, ast.Assign) and len(st.targets) == 1 and isinstance(st.targets[0], ast.Tuple) and all(isinstance(e_, ast.Name) for e_ in st.targets[0].elts):
                    okc, val = _fold_env(st.value, env)
                    if not okc or not isinstance(val, (tuple, list)) or len(val) != len(st.targets[0].elts):
                        raise AnalysisError(f"decode_line: `{short(st)}` cannot be folded for the piece {piece!r}")
                    for e_, v_ in zip(st.targets[0].elts, val):
                        env[e_.id] = v_
                elif isinstance(st, ast.Expr) and isinstance(st.value, ast.Call) and st.value.args and (norm(st.value.func) == "append" or norm(st.value.func).endswith(".append") or (
                        isinstance(st.value.func, ast.Name) and norm(al1915.get(st.value.func.id, st.value.func)).endswith(".append"))):
                    a0_ = st.value.args[0]
                    if isinstance(a0_, ast.Tuple) and a0_.elts:
                        a0_ = a0_.elts[0]  # (text, style) pairs collected in a list of pieces
                    okc, val = _fold_env(a0_, env)
                    if not okc:
                        raise AnalysisError(f"decode_line: `{short(st)}` cannot be folded for the piece {piece!r}")
                    state["out"] = (state["out"] or "") + val
                elif isinstance(st, ast.Expr) and isinstance(st.value, ast.Constant):
                    continue
                else:
                    raise AnalysisError(f"decode_line: `{short(st)}` in the plain-text branch is not folded by this rule")
        run(branch.body)
        return state["restart"], state["out"]
    wherec = f"{m.relpath}:{branch.lineno}"
    for piece, want in (("ab", (False, "ab")), ("xy\rab", (True, "ab")), ("xy\r", (True, ""))):
        got = fold_piece(piece)
        got = (got[0], got[1] or "")
        ctx.check(got == want, f.fq, f"plain piece {piece!r}", wherec, f"the piece {piece!r}: restart={got[0]}, appended {got[1]!r}",
                  f"for the plain-text piece {piece!r} the decoder {'restarts' if got[0] else 'does not restart'} the line and appends {got[1]!r} (expected: {'restart' if want[0] else 'no restart'}, {want[1]!r}): " +
                  ("text decoded before this piece is thrown away although no carriage return was seen - every line with an escape sequence in the middle loses what precedes it" if got[0] and not want[0] else "the line rewritten in place does not show its final state"))


def r19_4(ctx):
    ctx.rule("R19.4", "reset and links: SGR 0 resets the running style to null; the OSC-8 template written by Style.render is matched by the decoder's regex and the decoder takes everything after the parameter field as the URL (so URLs containing ';' survive); an empty URL closes the link")
    f = ctx.repo.fn("ansi:AnsiDecoder.decode_line")
    src = norm(f.node)
    z = None
    for n in walk_local(_sgr_fn(ctx).node):
        if isinstance(n, ast.If) and norm(n.test) == "code == 0":
            z = n
    ok = z is not None and any(isinstance(b, ast.Assign) and norm(b.targets[0]) == "self.style" and norm(b.value).endswith("Style.null()") for b in z.body)
    ctx.check(ok, f.fq, "code == 0 -> null style", f.where, "SGR 0 resets the decoder's style", "SGR 0 does not reset the running style to the null style: styles leak past ESC[0m when decoding")
    am = ctx.repo.mod("ansi")
    rx = regexast.compile_call(am.global_assign("re_ansi"))
    if rx is None:
        raise AnchorVanished("ansi.re_ansi not found")
    pat = rx.args[0].value
    sgr_alt, osc_alt = _ansi_alternatives(rx)
    ok_sgr = ok_osc = False
    if sgr_alt is not None:
        rc = regexast.repeated_class(sgr_alt[2][2])
        ok_sgr = rc is not None and rc[0] <= 1 and str(rc[1]) == "MAXREPEAT" and all(regexast.class_accepts(rc[2], rc[3], c) for c in "0123456789;")
    if osc_alt is not None:
        rc = regexast.repeated_class(osc_alt[2][2])
        ok_osc = rc is not None and rc[0] == 0 and str(rc[1]) == "MAXREPEAT" and all(regexast.class_accepts(rc[2], rc[3], c) for c in "8;id=0123456789-abcxyzABCXYZ:/.?&%#~_ ")
    ctx.check(ok_sgr and ok_osc, "ansi:re_ansi", pat, f"{am.relpath}:{rx.lineno}", "tokenizer recognises ESC[<digits and ;>m and ESC]<text>ESC\\\\",
              "re_ansi no longer matches the SGR (ESC[..m) and OSC (ESC]..ESC\\) forms the encoder writes")
    # encoder template
    r = ctx.repo.fn("style:Style.render")
    tmpl = None
    for x in walk_local(r.node):
        if isinstance(x, ast.JoinedStr):
            parts = fstring_parts(x)
            flat = "".join(p if isinstance(p, str) else "\0" for p in parts)
            if flat.startswith("\x1b]8;"):
                tmpl = (flat, parts, x)
    if tmpl is None:
        raise AnchorVanished("Style.render: OSC-8 template not found")
    flat, parts, node = tmpl
    head = flat.split("\x1b\\")[0]  # ESC ] 8 ; id=<f> ; <link>
    ok = head.startswith("\x1b]8;") and head.count(";") == 2 and head.endswith(";\0")
    ctx.check(ok, r.fq, short(node), f"{r.module.relpath}:{node.lineno}", "encoder writes OSC 8 ; <params> ; <url> ST", "the link template is not `ESC ] 8 ; params ; url ESC \\\\`")
    # decoder extraction
    ext = None
    for n in walk_local(f.node):
        if isinstance(n, ast.Assign) and isinstance(n.value, ast.Call) and isinstance(n.value.func, ast.Attribute):
            if n.value.func.attr == "partition" and "osc" in norm(n.value.func.value):
                ext = ("partition", n)
            if n.value.func.attr == "split" and "osc" in norm(n.value.func.value):
                ext = ("split", n)
        if isinstance(n, ast.Assign) and isinstance(n.value, ast.Subscript) and isinstance(n.value.value, ast.Call) and isinstance(n.value.value.func, ast.Attribute) and n.value.value.func.attr == "split" and "osc" in norm(n.value.value.func.value):
            ext = ("split", n)
    if ext is None:
        raise AnchorVanished("decode_line: OSC parameter/URL extraction not found")
    kind, n = ext
    where = f"{f.module.relpath}:{n.lineno}"
    if kind == "partition":
        c = n.value
        ok = norm(c.func.value) == "osc[2:]" and c.args and isinstance(c.args[0], ast.Constant) and c.args[0].value == ";" and isinstance(n.targets[0], ast.Tuple) and len(n.targets[0].elts) == 3
        link_var = norm(n.targets[0].elts[2]) if ok else None
        ctx.check(ok, f.fq, short(n), where, "URL = everything after the first ';' following '8;' (partition keeps later semicolons)", "the OSC-8 payload is not split as `8;` + params + ';' + rest: the URL is cut or shifted")
        if link_var:
            ctx.shape(f"self.style.update_link({link_var} or None)" in src or f"self.style.update_link({link_var})" in src, f.fq, "update_link(link or None)", where, "decoded URL replaces the running link (empty URL clears it)", "the decoded URL is not applied with update_link(link or None)")
    else:
        call = n.value.value if isinstance(n.value, ast.Subscript) else n.value
        maxsplit = call.args[1] if len(call.args) > 1 else kwarg(call, "maxsplit")
        ok = maxsplit is not None
        ctx.check(ok, f.fq, short(n), where, "split with maxsplit keeps the rest of the URL", "the OSC-8 payload is split on every ';' and one piece is taken as the URL: a link URL that itself contains ';' is truncated by the decoder although the encoder wrote it in full")
    prefix_ok = "osc.startswith('8;')" in src
    if not prefix_ok and kind == "split" and isinstance(n.targets[0], ast.Name) and norm(call.func.value) == "osc":
        # the whole payload is split: `fields = osc.split(';', 2)` - the selector test is `fields[0] == '8'` (together with the
        # field count) on every path to the update_link call, and the URL is the LAST field
        fields = n.targets[0].id
        from .. import cfg as _cfg194
        g194 = _cfg194.build(f.node)
        ups = [nd for nd in g194.stmt_nodes() if nd.kind == "stmt" and any(isinstance(x, ast.Call) and norm(x.func).endswith("update_link") for x in ast.walk(nd.stmt))]

        def conj(t):
            return [c_ for v_ in t.values for c_ in conj(v_)] if isinstance(t, ast.BoolOp) and isinstance(t.op, ast.And) else [t]
        ms = const_int(maxsplit) if maxsplit is not None else None
        for nd in ups:
            facts = {norm(c_) for t_, v_ in g194.branch_facts(nd.id) if v_ is True for c_ in conj(t_)}
            sel = f"{fields}[0] == '8'" in facts or f"'8' == {fields}[0]" in facts
            cnt = ms is not None and (f"len({fields}) == {ms + 1}" in facts or f"len({fields}) > {ms}" in facts or f"len({fields}) >= {ms + 1}" in facts)
            uc = [x for x in ast.walk(nd.stmt) if isinstance(x, ast.Call) and norm(x.func).endswith("update_link")][0]
            url = uc.args[0] if uc.args else None
            if isinstance(url, ast.BoolOp) and isinstance(url.op, ast.Or) and norm(url.values[-1]) == "None":
                url = url.values[0]
            last = url is not None and ms is not None and norm(url) in (f"{fields}[{ms}]", f"{fields}[-1]")
            ctx.check(sel and cnt and last, f.fq, short(nd.stmt), f"{f.module.relpath}:{nd.lineno}",
                      "the payload is split into selector, parameters and URL: the link is applied only for selector '8', a complete field list, and with the last field as the URL",
                      f"`{short(nd.stmt)}`: the running link is replaced without the test that the OSC selector is 8 and that all {ms + 1 if ms is not None else '?'} fields are present, or not with the last field - another OSC sequence (window title ..) would be read as a hyperlink")
        prefix_ok = bool(ups)
    ctx.shape(prefix_ok, f.fq, "osc.startswith('8;')", f.where, "only OSC 8 is interpreted as a link", "the decoder no longer checks for the OSC 8 prefix")


def r19_5(ctx):
    ctx.rule("R19.5", "redirected text is data: every console.print in FileProxy passes markup=False, emoji=False and highlight=False, and prints the ANSI-decoded text (sibling agreement between write and flush)")
    c = ctx.repo.cls("file_proxy:FileProxy")
    n = 0

    def decoded(f, a0):
        """the printed value is computed from the result of <decoder>.decode_line(..): backward closure over the assignments and
        the append / extend calls that build it (bound-method aliases resolved)"""
        if a0 is None:
            return False
        al = alias_map(f.node)
        seen, work = set(), [a0]
        while work:
            e = work.pop()
            for nd in ast.walk(e):
                if isinstance(nd, ast.Call):
                    fn_ = expand_alias(nd.func, al)
                    if isinstance(fn_, ast.Attribute) and fn_.attr in ("decode_line", "decode"):
                        return True
                if isinstance(nd, ast.Name) and nd.id not in seen:
                    seen.add(nd.id)
                    for d in walk_local(f.node):
                        if isinstance(d, (ast.Assign, ast.AnnAssign)) and d.value is not None and any(isinstance(t, ast.Name) and t.id == nd.id for t in (d.targets if isinstance(d, ast.Assign) else [d.target])):
                            work.append(d.value)
                        if isinstance(d, ast.Call) and isinstance(d.func, ast.Attribute) and d.func.attr in ("append", "extend", "insert") and isinstance(d.func.value, ast.Name) and d.func.value.id == nd.id:
                            work.extend(d.args)
        return False
    # print wrappers: methods of the proxy that print their own parameter; the decoded-ness obligation moves to their callers
    wrappers = {}
    for name, lst in c.methods.items():
        for f in lst:
            for x in walk_local(f.node):
                if isinstance(x, ast.Call) and isinstance(x.func, ast.Attribute) and x.func.attr in ("print", "log", "out") and "console" in norm(x.func.value) and x.args and isinstance(x.args[0], ast.Name) and x.args[0].id in f.params[1:]:
                    wrappers[name] = f.params.index(x.args[0].id) - 1
    for name, lst in c.methods.items():
        for f in lst:
            for x in walk_local(f.node):
                if isinstance(x, ast.Call) and isinstance(x.func, ast.Attribute) and isinstance(x.func.value, ast.Name) and x.func.value.id == "self" and x.func.attr in wrappers and len(x.args) > wrappers[x.func.attr]:
                    n += 1
                    ctx.check(decoded(f, x.args[wrappers[x.func.attr]]), f.fq, short(x), f"{f.module.relpath}:{x.lineno}", "prints the ANSI-decoded line(s) (through the proxy's print helper)",
                              "redirected text is printed without being passed through the ANSI decoder: its styling is lost or shown as raw escapes")
    for name, lst in c.methods.items():
        for f in lst:
            aliases = alias_map(f.node)
            for x in walk_local(f.node):
                if isinstance(x, ast.Call) and isinstance(x.func, ast.Attribute) and x.func.attr in ("print", "log", "out"):
                    recv = norm(expand_alias(x.func.value, aliases))
                    if "console" not in recv:
                        continue
                    n += 1
                    where = f"{f.module.relpath}:{x.lineno}"
                    missing = [k for k in ("markup", "emoji", "highlight") if not (kwarg(x, k) is not None and isinstance(kwarg(x, k), ast.Constant) and kwarg(x, k).value is False)]
                    ctx.check(not missing, f.fq, short(x), where, "printed with markup, emoji and highlight all off",
                              f"redirected output is printed with {missing} left on: text written to stdout such as '[bold]' or ':smile:' is rewritten (and '[/]' raises MarkupError) instead of appearing as written")
                    a0 = x.args[0] if x.args else None
                    dec = decoded(f, a0) or (name in wrappers and isinstance(a0, ast.Name) and a0.id in f.params[1:])
                    ctx.check(dec, f.fq, short(x), where, "prints the ANSI-decoded line(s)", "redirected text is printed without being passed through the ANSI decoder: its styling is lost or shown as raw escapes")
    ctx.floor(n, 2, "console prints in FileProxy")
    # every completed line is printed, also an empty one: the print in write() may depend on there BEING completed lines, never on
    # the truthiness of the decoded text (a Text of zero length is falsy - print() of a blank line would vanish)
    wf = c.method("write")
    if wf is not None:
        gw = cfgmod.build(wf.node)
        from ..astutil import single_defs as _sdf195
        sdw = _sdf195(wf.node)
        derived = {k_ for k_, v_ in sdw.items() if any(isinstance(y, ast.Attribute) and y.attr in ("decode_line", "decode", "join") for y in ast.walk(v_))}
        for nd in gw.stmt_nodes():
            if nd.kind == "stmt" and nd.stmt is not None and any(isinstance(x, ast.Call) and norm(x.func).endswith(".print") for x in ast.walk(nd.stmt)):
                for t_, v_ in gw.branch_facts(nd.id):
                    names_ = {y.id for y in ast.walk(t_) if isinstance(y, ast.Name)}
                    if names_ & derived:
                        ctx.violation(wf.fq, short(nd.stmt), f"{wf.module.relpath}:{nd.lineno}", f"`{short(nd.stmt)}` runs only when `{norm(t_)}` is {'true' if v_ else 'false'}: the decoded text of a blank line is an empty (falsy) Text, so a print() that writes just a new line to the redirected stream prints nothing - blank lines are lost")


def r19_6(ctx):
    ctx.rule("R19.6", "buffer typestate (nothing lost, nothing printed twice): a value read from the pending buffer with ''.join(buffer) is never used after the buffer has been cleared; every clear is preceded on all paths by a read; text without a newline is appended to the buffer")
    c = ctx.repo.cls("file_proxy:FileProxy")
    n = 0
    for mname in ("write", "flush"):
        f = c.method(mname)
        if f is None:
            raise AnchorVanished(f"FileProxy.{mname} not found")
        g = cfgmod.build(f.node)
        bufnames = {"buffer"} | {norm(n_.targets[0]) for n_ in walk_local(f.node) if isinstance(n_, ast.Assign) and "__buffer" in norm(n_.value)}

        def is_join(e):
            return isinstance(e, ast.Call) and isinstance(e.func, ast.Attribute) and e.func.attr == "join" and e.args and norm(e.args[0]) in bufnames | {"self.__buffer"}

        clears = {nd.id for nd in g.stmt_nodes() if nd.kind == "stmt" and ((isinstance(nd.stmt, ast.Delete) and any(norm(t.value) in bufnames | {"self.__buffer"} for t in nd.stmt.targets if isinstance(t, ast.Subscript))) or (isinstance(nd.stmt, ast.Expr) and isinstance(nd.stmt.value, ast.Call) and norm(nd.stmt.value.func) in {b + ".clear" for b in bufnames}))}
        reads = {nd.id for nd in g.stmt_nodes() if nd.kind in ("stmt", "test") and any(is_join(x) for x in ast.walk(nd.stmt if nd.kind == "stmt" else nd.expr))}
        ctx.check(bool(clears) and bool(reads), f.fq, "join/clear", f.where, f"{mname}: buffer is read and cleared", f"FileProxy.{mname} does not both read (''.join) and clear the pending buffer")
        # (1) every clear preceded by a read on all paths (since the previous clear / entry)
        for cid in sorted(clears):
            n += 1
            # paths from entry or another clear to cid avoiding reads
            starts = [g.entry] + [x for x in clears if x != cid] + [cid]
            bad = None
            for s in starts:
                if s == cid:
                    # loop back to itself without a read
                    r = g.reach([s], avoid=reads)
                    if cid in r and cid not in reads:
                        bad = g.path(s, {cid}, avoid=reads)
                else:
                    if cid in reads:
                        continue
                    if cid in g.reach([s], avoid=reads | (clears - {cid})):
                        bad = g.path(s, {cid}, avoid=reads | (clears - {cid}))
                if bad:
                    break
            ctx.check(bad is None, f.fq, short(g.nodes[cid].stmt), f"{f.module.relpath}:{g.nodes[cid].lineno}", "the buffer is cleared only after its contents were read",
                      "the pending buffer can be cleared on a path where its contents were not read first: buffered characters are lost", g.describe_path(bad) if bad else None)
        # (2) stale use: a variable holding join(buffer) used after a clear
        rd = g.reaching_defs(weak=False)
        for nd in g.stmt_nodes():
            if nd.kind == "stmt" and isinstance(nd.stmt, ast.Assign) and len(nd.stmt.targets) == 1 and isinstance(nd.stmt.targets[0], ast.Name) and any(is_join(x) for x in ast.walk(nd.stmt.value)):
                var = nd.stmt.targets[0].id
                n += 1
                stale = None
                for cid in clears:
                    if cid not in g.reach([nd.id]):
                        continue
                    after = g.reach([cid])
                    for u in g.stmt_nodes():
                        if u.id in after and u.id != nd.id and nd.id in rd.get(u.id, {}).get(var, set()):
                            expr = u.stmt if u.kind == "stmt" else u.expr
                            if expr is not None and any(isinstance(x, ast.Name) and x.id == var and isinstance(x.ctx, ast.Load) for x in ast.walk(expr)):
                                # a use after the clear that can also be reached again (second use) => printed twice
                                if u.id in g.reach([u.id]) or u.id in g.reach([cid]) and cid in g.reach([u.id]):
                                    stale = (u, cid)
                ctx.check(stale is None, f.fq, short(nd.stmt), f"{f.module.relpath}:{nd.lineno}", f"`{var}` (the pending text) is not reused after the buffer was cleared",
                          f"`{var}` holds the pending text read once from the buffer, but it is used again at line {stale[0].lineno if stale else 0} after the buffer was cleared (line {g.nodes[stale[1]].lineno if stale else 0}): the same pending characters are printed in front of several lines")
        if mname == "write":
            # text without newline is kept
            ok = any(isinstance(x, ast.Call) and norm(x.func) in {b + ".append" for b in bufnames} for x in walk_local(f.node))
            ctx.check(ok, f.fq, "buffer.append(line)", f.where, "a trailing partial line is kept in the buffer", "FileProxy.write no longer keeps a trailing partial line in the buffer")
            # complete lines are printed in order: lines.append(...) then joined in order
            collects = any(isinstance(x, ast.Call) and norm(x.func) == "lines.append" for x in walk_local(f.node))
            # or: `*lines, partial = text.split("\n")` - every newline-terminated piece, in order
            for x in walk_local(f.node):
                if isinstance(x, ast.Assign) and isinstance(x.targets[0], (ast.Tuple, ast.List)) and len(x.targets[0].elts) == 2 and isinstance(x.targets[0].elts[0], ast.Starred) and norm(x.targets[0].elts[0].value) == "lines" and norm(x.value) in ("text.split('\\n')",):
                    collects = True
            iterates = any(isinstance(x, (ast.For, ast.comprehension)) and norm(x.iter) == "lines" for x in ast.walk(f.node))
            ok = collects and iterates
            ctx.check(ok, f.fq, "lines in order", f.where, "completed lines are collected and printed in order", "completed lines are no longer collected in order and printed")
    ctx.floor(n, 2, "buffer clears / pending reads")


def r19_8(ctx):
    from .common import memo_rule
    memo_rule(ctx, "R19.8", ["style", "color", "ansi", "file_proxy"], 4)


def r19_9(ctx):
    ctx.rule("R19.9", "per-proxy state: the pending-line buffer and the decoder of a FileProxy are instance attributes created in __init__ (a fresh list / decoder per proxy); no mutable class-level default is mutated through self (stdout's partial line must not leak into stderr's)")
    c = ctx.repo.cls("file_proxy:FileProxy")
    init = c.method("__init__")
    if init is None:
        raise AnchorVanished("FileProxy.__init__ not found")
    inst = {}
    for x in walk_local(init.node):
        if isinstance(x, (ast.Assign, ast.AnnAssign)):
            t = x.targets[0] if isinstance(x, ast.Assign) else x.target
            if isinstance(t, ast.Attribute) and norm(t.value) == "self" and x.value is not None:
                inst[t.attr] = x.value
    mutated = set()
    for name, lst in c.methods.items():
        for f in lst:
            al = {norm(a.targets[0]): norm(a.value) for a in walk_local(f.node) if isinstance(a, ast.Assign) and len(a.targets) == 1 and norm(a.value).startswith("self.")}
            for x in walk_local(f.node):
                base = None
                if isinstance(x, ast.Call) and isinstance(x.func, ast.Attribute) and x.func.attr in ("append", "extend", "clear", "pop", "insert"):
                    base = norm(x.func.value)
                if isinstance(x, ast.Delete):
                    for t in x.targets:
                        if isinstance(t, ast.Subscript):
                            base = norm(t.value)
                if base:
                    base = al.get(base, base)
                    if base.startswith("self."):
                        mutated.add(base[5:])
    n = 0
    for attr in sorted(mutated):
        n += 1
        v = inst.get(attr)
        ok = v is not None and isinstance(v, (ast.List, ast.Dict, ast.Set, ast.Call, ast.ListComp))
        ctx.check(ok, c.fq, f"self.{attr}", init.where, f"self.{attr} is created afresh in __init__",
                  f"`self.{attr}` is mutated by FileProxy's methods but is not created in __init__ (class-level default): every proxy shares one list, so a partial line written to stdout is glued in front of the next stderr line and disappears from its own stream")
    ctx.floor(n, 1, "mutated FileProxy attributes")
    for st in c.node.body:
        if isinstance(st, (ast.Assign, ast.AnnAssign)) and getattr(st, "value", None) is not None and isinstance(st.value, (ast.List, ast.Dict, ast.Set)):
            t = st.targets[0] if isinstance(st, ast.Assign) else st.target
            ctx.check(norm(t).lstrip("_") not in {a.lstrip("_") for a in mutated}, c.fq, norm(st), f"{c.module.relpath}:{st.lineno}", "no mutable class-level default for mutated state", f"class-level mutable default `{norm(st)}` is mutated through self")


def r19_10(ctx):
    ctx.rule("R19.10", "the decoder's running style reaches every character it returns: AnsiDecoder.decode_line returns only the Text it accumulates, and every plain-text piece is appended to it with the current style (self.style) - a return of a Text built straight from the input (a 'no escape codes in this line' shortcut) drops a style or link opened on an earlier line and not yet reset")
    f = ctx.repo.fn("ansi:AnsiDecoder.decode_line")
    m = f.module
    al = alias_map(f.node)
    from ..astutil import single_defs as _sdf
    sd = _sdf(f.node)
    # the accumulator: a name bound only to fresh empty Texts (once, or again where a carriage return restarts the line)
    binds = {}
    for x in walk_local(f.node):
        if isinstance(x, ast.Assign) and len(x.targets) == 1 and isinstance(x.targets[0], ast.Name):
            binds.setdefault(x.targets[0].id, []).append(x.value)
    accs = {k for k, vs in binds.items() if all(isinstance(v, ast.Call) and norm(v.func) == "Text" and not v.args and not v.keywords for v in vs)}
    if len(accs) != 1:
        raise AnalysisError("AnsiDecoder.decode_line: expected one accumulator `text = Text()`")
    acc = accs.pop()
    appenders = {f"{acc}.append"} | {k for k, vs in binds.items() if all(norm(v) == f"{acc}.append" for v in vs)}
    rets = [r for r in walk_local(f.node) if isinstance(r, ast.Return)]
    ctx.floor(len(rets), 1, "returns of decode_line")
    for r in rets:
        where = f"{m.relpath}:{r.lineno}"
        if r.value is not None and norm(r.value) == acc:
            ctx.ok(where, "returns the accumulated text", f.fq)
            continue
        v = r.value
        if isinstance(v, ast.Call) and norm(v.func) in ("Text", "Text.from_markup", "Text.assemble") and (v.args or v.keywords):
            st = next((k.value for k in v.keywords if k.arg == "style"), v.args[1] if len(v.args) > 1 else None)
            if st is not None and "self.style" in norm(st):
                ctx.ok(where, "returned text carries self.style", f.fq)
            else:
                ctx.violation(f.fq, short(r), where, f"`{short(r)}` returns text built straight from the input without the decoder's current style: in '\\x1b[1;31mfoo\\nbar\\nbaz\\x1b[0m' the line `bar` contains no escape code and loses the bold red that is still in force")
        else:
            raise AnalysisError(f"AnsiDecoder.decode_line: `{short(r)}` returns something this rule does not read")
    n = 0
    for x in walk_local(f.node):
        if isinstance(x, ast.Call) and (norm(expand_alias(x.func, al)) == f"{acc}.append" or norm(x.func) in appenders) and x.args:
            n += 1
            st = x.args[1] if len(x.args) > 1 else next((k.value for k in x.keywords if k.arg == "style"), None)
            # the style may travel with the text through a list of (text, style) pieces that is replayed at the end
            if isinstance(st, ast.Name):
                via = None
                for lp in walk_local(f.node):
                    if isinstance(lp, ast.For) and isinstance(lp.target, ast.Tuple) and isinstance(lp.iter, ast.Name) and any(isinstance(e_, ast.Name) and e_.id == st.id for e_ in lp.target.elts) and any(x is y for b_ in lp.body for y in ast.walk(b_)):
                        via = (lp.iter.id, [i for i, e_ in enumerate(lp.target.elts) if isinstance(e_, ast.Name) and e_.id == st.id][0], len(lp.target.elts))
                if via is not None:
                    lst, idx, arity = via
                    adders = {f"{lst}.append"} | {k for k, vs in binds.items() if all(norm(v) == f"{lst}.append" for v in vs)}
                    puts = [c for c in walk_local(f.node) if isinstance(c, ast.Call) and norm(c.func) in adders and len(c.args) == 1]
                    if not puts or not all(isinstance(c.args[0], ast.Tuple) and len(c.args[0].elts) == arity for c in puts):
                        raise AnalysisError(f"AnsiDecoder.decode_line: the (text, style) pieces of `{lst}` are not built by plain tuple appends")
                    okp = all("self.style" in norm(c.args[0].elts[idx]) for c in puts)
                    ctx.check(okp, f.fq, short(puts[0]), f"{m.relpath}:{puts[0].lineno}", "each piece is recorded with the style current when its text was seen",
                              f"`{short(puts[0])}` records decoded text without the decoder's current style")
                    continue
            ctx.check(st is not None and "self.style" in norm(st), f.fq, short(x), f"{m.relpath}:{x.lineno}", "plain text appended with the current style",
                      f"`{short(x)}` appends decoded text without the decoder's current style")
    ctx.floor(n, 1, "appends to the accumulated text")


def r19_11(ctx):
    from .. import cfg as cfgmod
    ctx.rule("R19.11", "each stream is redirected under its own switch: in _enable_redirect_io of Live and Progress the statement that installs the proxy for sys.stdout (resp. sys.stderr) and the one that saves the original are dominated by the fact `self._redirect_stdout` (resp. `self._redirect_stderr`) - the sibling implementations agree; a block guarded by the other stream's flag leaves stderr unredirected when only it was asked for (its lines bypass the console) and redirects it when it was not")
    n = 0
    n_wrap = [0]
    for spec in ("live:Live", "progress:Progress"):
        f = ctx.repo.cls(spec).method("_enable_redirect_io")
        if f is None:
            raise AnchorVanished(f"{spec}._enable_redirect_io not found")
        m = f.module
        g = cfgmod.build(f.node)
        for nd in g.stmt_nodes():
            if nd.kind != "stmt" or not isinstance(nd.stmt, ast.Assign) or len(nd.stmt.targets) != 1:
                continue
            from ..astutil import inline as _inl1911, single_defs as _sdf1911
            t, v = nd.stmt.targets[0], _inl1911(nd.stmt.value, _sdf1911(f.node))
            stream = None
            if norm(t) in ("sys.stdout", "sys.stderr"):
                stream = norm(t).split(".")[1]
            elif norm(v) in ("sys.stdout", "sys.stderr") and is_attr_of(t, "self"):
                stream = norm(v).split(".")[1]
            if stream is None:
                continue
            n += 1
            facts = {(norm(t0), v0) for t0, v0 in g.branch_facts(nd.id)}
            want = f"self._redirect_{stream}"
            other = f"self._redirect_{'stderr' if stream == 'stdout' else 'stdout'}"
            ok = (want, True) in facts
            ctx.check(ok, f.fq, short(nd.stmt), f"{m.relpath}:{nd.lineno}", f"{stream} handled under `{want}`",
                      f"`{short(nd.stmt)}` handles sys.{stream} but is not guarded by `{want}`" + (f" (it is guarded by `{other}`)" if (other, True) in facts else "") + f": with redirect_{stream}=True and the other flag off, what is written to {stream} during the live display goes straight to the terminal instead of being printed through the console above the frame")
            # the proxy installed for a stream forwards to THAT stream's original file (Console.file unwraps the proxy to find where
            # the console itself must write): a proxy for stderr built around stdout sends a stderr console's frames to stdout
            if norm(t) in ("sys.stdout", "sys.stderr") and isinstance(v, ast.Call) and norm(v.func).endswith("FileProxy"):
                wrapped = v.args[1] if len(v.args) > 1 else next((k.value for k in v.keywords if k.arg == "file"), None)
                n_wrap[0] += 1
                ctx.check(wrapped is not None and norm(wrapped) == norm(t), f.fq, short(nd.stmt), f"{m.relpath}:{nd.lineno}", f"the proxy for {stream} wraps the original sys.{stream}",
                          f"`{short(nd.stmt)}` installs for sys.{stream} a proxy around `{norm(wrapped) if wrapped is not None else None}`: Console.file unwraps the proxy (rich_proxied_file) to find the real stream, so a console on sys.{stream} writes its frames, erase codes and prints to the other stream while the cursor codes written before the redirect went to this one - the display is torn between two streams")
    ctx.floor(n, 4, "stream save / install statements in _enable_redirect_io")
    ctx.floor(n_wrap[0], 4, "proxies installed in _enable_redirect_io")


def r19_12(ctx):
    ctx.rule("R19.12", "one decoder per redirected stream, for its whole life: the AnsiDecoder of a FileProxy carries the style and link opened by earlier writes; the attribute holding it is stored in __init__ only - replacing it (for instance after a flush) forgets an escape sequence that is still in force, and the rest of the line is printed unstyled")
    c = ctx.repo.cls("file_proxy:FileProxy")
    init = c.method("__init__")
    if init is None:
        raise AnchorVanished("FileProxy.__init__ not found")
    slots = set()
    for x in walk_local(init.node):
        if isinstance(x, (ast.Assign, ast.AnnAssign)):
            t = x.targets[0] if isinstance(x, ast.Assign) else x.target
            v = x.value
            if is_attr_of(t, "self") and isinstance(v, ast.Call) and norm(v.func).endswith("AnsiDecoder"):
                slots.add(t.attr)
    if not slots:
        raise AnalysisError("FileProxy.__init__: no attribute initialised with AnsiDecoder()")
    n = 0
    for name, lst in c.methods.items():
        if name == "__init__":
            continue
        for f in lst:
            for x in walk_local(f.node):
                tg = x.targets if isinstance(x, ast.Assign) else ([x.target] if isinstance(x, (ast.AugAssign, ast.AnnAssign)) else [])
                for t in tg:
                    if is_attr_of(t, "self") and t.attr in slots:
                        n += 1
                        ctx.violation(f.fq, short(x), f"{f.module.relpath}:{x.lineno}", f"`{short(x)}` replaces the stream's decoder outside __init__: write('\\x1b[31mred'); flush(); write(' line\\x1b[0m\\n') prints ' line' without the red that is still open")
    if not n:
        ctx.ok(init.where, f"decoder slot(s) {sorted(slots)} stored only in __init__", init.fq)


def r19_16(ctx):
    from .c06 import r6_5
    from .common import borrow
    borrow(ctx, r6_5, "R6.5", "R19.16", " [encoder side of the round trip: every attribute a style sets is written as its SGR code - the group masks of _make_ansi_codes cover every attribute bit, or decode(encode(style)) loses it]")


def r19_17(ctx):
    from .c03 import r3_7
    from .common import borrow as _borrow
    _borrow(ctx, r3_7, "R3.7", "R19.17", " [decode(encode(segments)) gives the segments' styles only if the SGR string written for a combined style is computed from ITS fields: a cached SGR inherited from the left operand prints `bold + not bold` as bold]")


RULES = [r19_1, r19_2, r19_3, r19_4, r19_5, r19_6, r19_8, r19_9, r19_10, r19_11, r19_12, r19_13, r19_14, r19_15, r19_16, r19_17]
