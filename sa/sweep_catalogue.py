"""Catalogue of in-memory source variants (see sweep.py).  rule=None => behaviour-preserving."""
from .sweep import V

S = "rich/style.py"
# ---- C06 -------------------------------------------------------------------
V("c06-eq-drops-link", "C06", S, "            and self._link == other._link\n", "", "R6.1")
V("c06-add-hash-copied", "C06", S, "        new_style._hash = None\n", "        new_style._hash = style._hash\n", "R6.2")
V("c06-update-link-keeps-def", "C06", S,
  "        style._ansi = self._ansi\n        style._style_definition = None\n",
  "        style._ansi = self._ansi\n        style._style_definition = self._style_definition\n", "R6.2")
V("c06-without-color-hash", "C06", S,
  "        style._link_id = f\"{time()}-{randint(0, 999999)}\" if self._link else \"\"\n        style._hash = None\n        style._null = False\n        return style\n\n    @classmethod\n    @lru_cache(maxsize=4096)",
  "        style._link_id = f\"{time()}-{randint(0, 999999)}\" if self._link else \"\"\n        style._hash = self._hash\n        style._null = False\n        return style\n\n    @classmethod\n    @lru_cache(maxsize=4096)", "R6.2")
V("c06-copy-hash-zero", "C06", S, "        style._hash = self._hash\n        style._null = False\n        return style\n\n    def update_link",
  "        style._hash = 0\n        style._null = False\n        return style\n\n    def update_link", "R6.2")
V("c06-from-color-forgets-link-id", "C06", S, "        style._link = None\n        style._link_id = \"\"\n", "        style._link = None\n", "R6.3")
V("c06-add-attrs-or", "C06", S,
  "        new_style._attributes = (self._attributes & ~style._set_attributes) | (\n            style._attributes & style._set_attributes\n        )",
  "        new_style._attributes = self._attributes | style._attributes", "R6.4")
V("c06-add-color-left-bias", "C06", S, "new_style._color = style._color or self._color", "new_style._color = self._color or style._color", "R6.4")
V("c06-add-null-exit-swapped", "C06", S, "        if self._null:\n            return style\n        new_style", "        if self._null:\n            return self\n        new_style", "R6.4")
V("c06-init-weight-swap", "C06", S, "                blink is not None and 16,\n                blink2 is not None and 32,", "                blink is not None and 32,\n                blink2 is not None and 16,", "R6.5")
V("c06-str-wrong-word", "C06", S, 'append("underline" if self.underline else "not underline")', 'append("underline2" if self.underline else "not underline2")', "R6.5")
V("c06-str-group-mask", "C06", S, "            if bits & 0b0000111110000:\n                if bits & (1 << 4):", "            if bits & 0b0000111100000:\n                if bits & (1 << 4):", "R6.5")
V("c06-parse-alias", "C06", S, '            "uu": "underline2",', '            "uu": "underline",\n            "underline2": "underline",', "R6.5")
V("c06-ansi-range", "C06", S, "                    for bit in range(9, 13):", "                    for bit in range(9, 12):", "R6.5")
V("c06-null-ignores-bgcolor", "C06", S, "        style._null = not (color or bgcolor)", "        style._null = not color", "R6.7")
V("c06-benign-rename-local", "C06", S, "        new_style = self.__new__(Style)\n        new_style._ansi = None", "        new_style = self.__new__(Style)\n        unused_tmp = 1\n        new_style._ansi = None", None)
V("c06-benign-add-method", "C06", S, "    def __bool__(self) -> bool:", "    def is_plain(self) -> bool:\n        return self._null\n\n    def __bool__(self) -> bool:", None)
V("c06-benign-parse-alias-added", "C06", S, '            "uu": "underline2",', '            "uu": "underline2",\n            "ul": "underline",', None)

# ---- C13 -------------------------------------------------------------------
CE = "rich/cells.py"
SG = "rich/segment.py"
V("c13-table-swap", "C13", "rich/_cell_widths.py", "    (768, 879, 0),\n    (1155, 1161, 0),", "    (1155, 1161, 0),\n    (768, 879, 0),", "R13.1")
V("c13-table-width3", "C13", "rich/_cell_widths.py", "    (768, 879, 0),", "    (768, 879, 3),", "R13.1")
V("c13-table-overlap", "C13", "rich/_cell_widths.py", "    (768, 879, 0),", "    (768, 1160, 0),", "R13.1")
V("c13-shortcut-too-wide", "C13", CE, "    if 127 > codepoint > 31:", "    if 160 > codepoint > 31:", "R13.1")
V("c13-search-upper-stuck", "C13", CE, "            upper_bound = index - 1", "            upper_bound = index", "R13.2")
V("c13-search-cmp-swapped", "C13", CE, "        if codepoint < start:\n            upper_bound = index - 1\n        elif codepoint > end:\n            lower_bound = index + 1",
  "        if codepoint < start:\n            lower_bound = index + 1\n        elif codepoint > end:\n            upper_bound = index - 1", "R13.2")
V("c13-search-hit-raw", "C13", CE, "            return 0 if width == -1 else width", "            return width", "R13.2")
V("c13-cache-key-prefix", "C13", CE, "    cached_result = _cache.get(text, None)", "    cached_result = _cache.get(text[:64], None)", "R13.3")
V("c13-cache-store-other", "C13", CE, "        _cache[text] = total_size\n", "        _cache[text] = total_size + 0 * len(_cache)\n", "R13.3")
V("c13-lru-getitem-wrong", "C13", "rich/_lru_cache.py", "        OrderedDict.__setitem__(self, key, value)\n        return value", "        OrderedDict.__setitem__(self, key, key)\n        return value", "R13.3")
V("c13-pad-style-rebound", "C13", SG, "                text, segment_style, _ = segment\n                while text:\n                    _text, new_line, text = text.partition(\"\\n\")\n                    if _text:\n                        append(cls(_text, segment_style))\n                    if new_line:\n                        cropped_line",
  "                text, style, _ = segment\n                while text:\n                    _text, new_line, text = text.partition(\"\\n\")\n                    if _text:\n                        append(cls(_text, style))\n                    if new_line:\n                        cropped_line", "R13.4")
V("c13-set-shape-unstyled-pad", "C13", SG, '        pad_line = [Segment(" " * width, style)]', '        pad_line = [Segment(" " * width)]', "R13.4")
V("c13-pad-off-by-one", "C13", SG, 'new_line = line + [cls(" " * (length - line_length), style)]', 'new_line = line + [cls(" " * (length - line_length - 1), style)]', "R13.5")
V("c13-set-cell-size-pad", "C13", CE, '        return text + " " * (total - cell_size)', '        return text + " " * (total - len(text))', "R13.5")
V("c13-crop-target", "C13", SG, "text = set_cell_size(text, length - line_length)", "text = set_cell_size(text, length)", "R13.5")
V("c13-chop-cache-missing-key", "C13", CE, "def chop_cells(text: str, max_size: int, position: int = 0) -> List[str]:\n    \"\"\"Break text in to equal (cell) length strings.\"\"\"\n",
  "def chop_cells(text: str, max_size: int, position: int = 0, _cache: Dict[str, List[str]] = LRUCache(64)) -> List[str]:\n    \"\"\"Break text in to equal (cell) length strings.\"\"\"\n    hit = _cache.get((text, max_size))\n    if hit is not None:\n        return hit\n    _cache[(text, max_size)] = [text[:max_size - position]]\n", "R13.6")
V("c13-benign-rename", "C13", CE, "    cell_size = cell_len(text)\n    if cell_size == total:\n        return text\n    if cell_size < total:\n        return text + \" \" * (total - cell_size)",
  "    measured = cell_len(text)\n    cell_size = measured\n    if measured == total:\n        return text\n    if measured < total:\n        return text + \" \" * (total - measured)", None)
V("c13-benign-alias-removed", "C13", SG, "        adjust_line_length = cls.adjust_line_length\n        new_line_segment = cls(\"\\n\")", "        adjust_line_length = cls.adjust_line_length\n        new_line_segment = cls(\"\\n\")\n        _unused = length", None)

# ---- C18 -------------------------------------------------------------------
CO = "rich/color.py"
V("c18-cube-plus-one", "C18", CO, "                16 + 36 * round(red * 5.0) + 6 * round(green * 5.0) + round(blue * 5.0)", "                17 + 36 * round(red * 5.0) + 6 * round(green * 5.0) + round(blue * 5.0)", "R18.1")
V("c18-grey-232", "C18", CO, "                    color_number = 231 + gray", "                    color_number = 232 + gray", "R18.1")
V("c18-grey-round-26", "C18", CO, "                gray = round(l * 25.0)", "                gray = round(l * 26.0)", "R18.1")
V("c18-windows-returns-standard", "C18", CO, "            color_number = WINDOWS_PALETTE.match(triplet)\n            return Color(self.name, ColorType.WINDOWS, number=color_number)",
  "            color_number = WINDOWS_PALETTE.match(triplet)\n            return Color(self.name, ColorType.STANDARD, number=color_number)", "R18.1")
V("c18-default-converted", "C18", CO, "        if self.type == ColorType.DEFAULT or self.type == system:\n            return self", "        if self.type == system:\n            return self", "R18.1")
V("c18-std-from-8bit-number", "C18", CO, "                if self.number < 16:\n                    return Color(self.name, ColorType.WINDOWS, number=self.number)", "                if self.number < 32:\n                    return Color(self.name, ColorType.WINDOWS, number=self.number)", "R18.1")
V("c18-sgr-bright-base", "C18", CO, "            fore, back = (30, 40) if number < 8 else (82, 92)\n            return (str(fore + number if foreground else back + number),)\n\n        elif _type == ColorType.STANDARD:",
  "            fore, back = (30, 40) if number < 8 else (90, 100)\n            return (str(fore + number if foreground else back + number),)\n\n        elif _type == ColorType.STANDARD:", "R18.4")
V("c18-sgr-bg-lead", "C18", CO, '            return ("38" if foreground else "48", "5", str(self.number))', '            return ("38" if foreground else "38", "5", str(self.number))', "R18.4")
V("c18-sgr-bgr", "C18", CO, '            return ("38" if foreground else "48", "2", str(red), str(green), str(blue))', '            return ("38" if foreground else "48", "2", str(blue), str(green), str(red))', "R18.4")
V("c18-sgr-default", "C18", CO, '            return ("39" if foreground else "49",)', '            return ("39",)', "R18.4")
V("c18-match-short-range", "C18", "rich/palette.py", "min(range(len(self._colors)), key=get_color_distance)", "min(range(len(self._colors) - 1), key=get_color_distance)", "R18.5")
V("c18-match-max", "C18", "rich/palette.py", "min(range(len(self._colors)), key=get_color_distance)", "max(range(len(self._colors)), key=get_color_distance)", "R18.5")
V("c18-match-mixed-components", "C18", "rich/palette.py", "            green = green1 - green2\n            blue = blue1 - blue2", "            green = green1 - blue2\n            blue = blue1 - green2", "R18.5")
V("c18-palette-15", "C18", "rich/_palettes.py", "        (12, 12, 12),\n        (197, 15, 31),", "        (197, 15, 31),", "R18.0")
V("c18-enum-values", "C18", CO, "    STANDARD = 1\n    EIGHT_BIT = 2\n    TRUECOLOR = 3\n    WINDOWS = 4\n\n\nclass ColorType", "    STANDARD = 1\n    EIGHT_BIT = 3\n    TRUECOLOR = 2\n    WINDOWS = 4\n\n\nclass ColorType", "R18.0")
V("c18-from-ansi-threshold", "C18", CO, "            type=(ColorType.STANDARD if number < 16 else ColorType.EIGHT_BIT),\n            number=number,\n        )\n\n    @classmethod\n    def from_triplet",
  "            type=(ColorType.STANDARD if number <= 16 else ColorType.EIGHT_BIT),\n            number=number,\n        )\n\n    @classmethod\n    def from_triplet", "R18.7")
V("c18-benign-temp", "C18", CO, "            color_number = STANDARD_PALETTE.match(triplet)\n            return Color(self.name, ColorType.STANDARD, number=color_number)",
  "            nearest = STANDARD_PALETTE.match(triplet)\n            color_number = nearest\n            return Color(self.name, ColorType.STANDARD, number=color_number)", None)
V("c18-benign-early-return", "C18", CO, "        if self.type == ColorType.DEFAULT or self.type == system:\n            return self", "        if self.type == ColorType.DEFAULT:\n            return self\n        if self.type == system:\n            return self", None)

# ---- C11 -------------------------------------------------------------------
CN = "rich/console.py"
LV = "rich/live.py"
PR = "rich/progress.py"
V("c11-line-writes-directly", "C11", CN, "        if count:\n            self._buffer.append(Segment(\"\\n\" * count))\n            self._check_buffer()", "        if count:\n            self.file.write(\"\\n\" * count)", "R11.1")
V("c11-write-unguarded", "C11", CN, "        with self._lock:\n            if self._buffer_index == 0:\n                if self.is_jupyter:", "        with self._lock:\n            if self._buffer_index >= 0:\n                if self.is_jupyter:", "R11.2")
V("c11-shared-buffer-default", "C11", CN, "    buffer: List[Segment] = field(default_factory=list)", "    buffer: List[Segment] = []", "R11.3")
V("c11-not-thread-local", "C11", CN, "class ConsoleThreadLocals(threading.local):", "class ConsoleThreadLocals:", "R11.3")
V("c11-export-text-outside-lock", "C11", CN, "        with self._record_buffer_lock:\n            if styles:\n                text = \"\".join(\n                    (style.render(text) if style else text)\n                    for text, style, is_control in self._record_buffer\n                    if not is_control\n                )",
  "        if styles:\n            text = \"\".join(\n                (style.render(text) if style else text)\n                for text, style, _ in self._record_buffer\n            )\n            return text\n        with self._record_buffer_lock:\n            if styles:\n                text = \"\"", "R11.4")
V("c11-live-update-no-lock", "C11", LV, "        with self._lock:\n            self._live_render.set_renderable(renderable)\n            if refresh:\n                self.refresh()", "        self._live_render.set_renderable(renderable)\n        if refresh:\n            self.refresh()", "R11.4")
V("c11-liverender-no-lock", "C11", LV, "        with self._live._lock:\n            lines = console.render_lines(self.renderable, options, pad=False)\n", "        if True:\n            lines = console.render_lines(self.renderable, options, pad=False)\n", "R11.4")
V("c11-join-under-lock", "C11", LV, "                else:\n                    # jupyter last refresh must occur after console pop render hook\n                    # i am not sure why this is needed\n                    self.refresh()\n        if refresh_thread is not None:\n            refresh_thread.join()",
  "                else:\n                    # jupyter last refresh must occur after console pop render hook\n                    # i am not sure why this is needed\n                    self.refresh()\n            if refresh_thread is not None:\n                refresh_thread.join()", "R11.6")
V("c11-progress-join-under-lock", "C11", PR, "                self._disable_redirect_io()\n                self.console.pop_render_hook()\n        if refresh_thread is not None:\n            refresh_thread.join()",
  "                self._disable_redirect_io()\n                self.console.pop_render_hook()\n            if refresh_thread is not None:\n                refresh_thread.join()", "R11.6")
V("c11-benign-lock-alias", "C11", CN, "    def _check_buffer(self) -> None:\n        \"\"\"Check if the buffer may be rendered.\"\"\"\n        with self._lock:", "    def _check_buffer(self) -> None:\n        \"\"\"Check if the buffer may be rendered.\"\"\"\n        lock = self._lock\n        with lock:", None)
V("c11-benign-split-with", "C11", LV, "            with self._lock, self.console:\n                self.console.print(Control(\"\"))", "            with self._lock:\n                with self.console:\n                    self.console.print(Control(\"\"))", None)

# ---- C12 -------------------------------------------------------------------
V("c12-advance-no-lock", "C12", PR, "        with self._lock:\n            current_time = self.get_time()\n            task = self._tasks[task_id]\n            completed_start = task.completed\n            task.completed += advance",
  "        if True:\n            current_time = self.get_time()\n            task = self._tasks[task_id]\n            completed_start = task.completed\n            task.completed += advance", "R12.1")
V("c12-remove-task-no-lock", "C12", PR, "        with self._lock:\n            del self._tasks[task_id]", "        del self._tasks[task_id]", "R12.1")
V("c12-clock-before-lock", "C12", PR, "        with self._lock:\n            current_time = self.get_time()\n            task = self._tasks[task_id]\n            completed_start = task.completed", "        current_time = self.get_time()\n        with self._lock:\n            task = self._tasks[task_id]\n            completed_start = task.completed", "R12.2")
V("c12-advance-drops-finish-test", "C12", PR, "            _progress.append(ProgressSample(current_time, update_completed))\n            if task.completed >= task.total and task.finished_time is None:\n                task.finished_time = task.elapsed\n\n    def refresh",
  "            _progress.append(ProgressSample(current_time, update_completed))\n\n    def refresh", "R12.3")
V("c12-finish-test-strict", "C12", PR, "                popleft()\n            _progress.append(ProgressSample(current_time, update_completed))\n            if task.completed >= task.total and task.finished_time is None:", "                popleft()\n            _progress.append(ProgressSample(current_time, update_completed))\n            if task.completed > task.total and task.finished_time is None:", "R12.3")
V("c12-update-total-no-reset", "C12", PR, "            if total is not None:\n                task.total = total\n                task._reset()", "            if total is not None:\n                task.total = total", "R12.3")
V("c12-percentage-no-guard", "C12", PR, "        if not self.total:\n            return 0.0\n        completed = (self.completed / self.total) * 100.0", "        completed = (self.completed / self.total) * 100.0", "R12.4")
V("c12-percentage-no-clamp", "C12", PR, "        completed = min(100.0, max(0.0, completed))\n", "        completed = max(0.0, completed)\n", "R12.4")
V("c12-speed-no-guard", "C12", PR, "        if total_time == 0:\n            return None\n", "", "R12.4")
V("c12-track-advance-two", "C12", PR, "                yield value\n                advance(task_id, 1)", "                yield value\n                advance(task_id, 2)", "R12.5")
V("c12-track-double-count", "C12", PR, "                    yield value\n                    track_thread.completed += 1", "                    track_thread.completed += 1\n                    yield value\n                    track_thread.completed += 1", "R12.5")
V("c12-track-slice", "C12", PR, "            for value in sequence:\n                yield value\n                advance(task_id, 1)", "            for value in sequence[1:]:\n                yield value\n                advance(task_id, 1)", "R12.5")
V("c12-trackthread-no-flush", "C12", PR, "        self.progress.update(self.task_id, completed=self.completed, refresh=True)\n", "        self.progress.refresh()\n", "R12.5")
V("c12-benign-rename", "C12", PR, "            task = self._tasks[task_id]\n            completed_start = task.completed\n            task.completed += advance\n            update_completed = task.completed - completed_start",
  "            task = self._tasks[task_id]\n            before = task.completed\n            task.completed += advance\n            update_completed = task.completed - before", None)
V("c12-benign-lock-alias", "C12", PR, "        with self._lock:\n            del self._tasks[task_id]", "        lock = self._lock\n        with lock:\n            del self._tasks[task_id]", None)

# ---- C10 -------------------------------------------------------------------
LR = "rich/live_render.py"
V("c10-live-pop-outside-finally", "C10", LV, "            finally:\n                self._disable_redirect_io()\n                self.console.pop_render_hook()\n                self.console.show_cursor(True)\n",
  "            finally:\n                self._disable_redirect_io()\n                self.console.show_cursor(True)\n            self.console.pop_render_hook()\n", "R10.1")
V("c10-progress-no-finally", "C10", PR, "            try:\n                if refresh_thread is not None:\n                    refresh_thread.stop()\n                self.refresh()\n                # flush text pending in the redirected streams while it can still go above the frame\n                self._disable_redirect_io()\n                if self.console.is_terminal:\n                    self.console.line()\n            finally:\n                self.console.show_cursor(True)\n                self._disable_redirect_io()\n                self.console.pop_render_hook()",
  "            if refresh_thread is not None:\n                refresh_thread.stop()\n            self.refresh()\n            self._disable_redirect_io()\n            if self.console.is_terminal:\n                self.console.line()\n            self.console.show_cursor(True)\n            self._disable_redirect_io()\n            self.console.pop_render_hook()", "R10.1")
V("c10-progress-exit-swallows", "C10", PR, "    def __exit__(self, exc_type, exc_val, exc_tb) -> None:\n        self.stop()\n\n    def track(", "    def __exit__(self, exc_type, exc_val, exc_tb) -> None:\n        self.stop()\n        return True\n\n    def track(", "R10.1")
V("c10-live-exit-conditional", "C10", LV, "    def __exit__(self, exc_type, exc_val, exc_tb) -> None:\n        self.stop()\n\n    def _enable_redirect_io", "    def __exit__(self, exc_type, exc_val, exc_tb) -> None:\n        if exc_type is None:\n            self.stop()\n\n    def _enable_redirect_io", "R10.1")
V("c10-live-stop-no-cursor", "C10", LV, "                self.console.pop_render_hook()\n                self.console.show_cursor(True)\n\n            if self.transient:", "                self.console.pop_render_hook()\n\n            if self.transient:", "R10.1")
V("c10-restore-swapped", "C10", LV, "        if self._restore_stderr:\n            sys.stderr = self._restore_stderr", "        if self._restore_stderr:\n            sys.stderr = self._restore_stdout", "R10.1")
V("c10-crop-without-shape", "C10", LV, "                    lines = lines[: console.size.height]\n                    shape = Segment.get_shape(lines)\n", "                    lines = lines[: console.size.height]\n", "R10.2")
V("c10-ellipsis-after-store", "C10", LV, "            self._shape = shape\n\n            for last, line in loop_last(lines):", "            self._shape = shape\n            lines = lines + [[Segment(\"...\")]]\n\n            for last, line in loop_last(lines):", "R10.2")
V("c10-liverender-unshaped", "C10", LR, "        lines = _Segment.set_shape(lines, width, height)\n", "", "R10.2")
V("c10-position-cursor-height", "C10", LR, '"\\x1b[1A\\x1b[2K" * (height - 1))', '"\\x1b[1A\\x1b[2K" * height)', "R10.3")
V("c10-restore-cursor-short", "C10", LR, 'return Control("\\r" + "\\x1b[1A\\x1b[2K" * height)', 'return Control("\\r" + "\\x1b[1A\\x1b[2K" * (height - 1))', "R10.3")
V("c10-trailing-newline", "C10", LV, "                yield from line\n                if not last:\n                    yield Segment.line()", "                yield from line\n                yield Segment.line()", "R10.3")
V("c10-hook-order", "C10", PR, "            renderables = [\n                self._live_render.position_cursor(),\n                *renderables,\n                self._live_render,\n            ]\n        return renderables",
  "            renderables = [\n                *renderables,\n                self._live_render.position_cursor(),\n                self._live_render,\n            ]\n        return renderables", "R10.4")
V("c10-log-skips-hooks", "C10", CN, "            for hook in self._render_hooks:\n                renderables = hook.process_renderables(renderables)\n            new_segments: List[Segment] = []\n            extend = new_segments.extend\n            render = self.render\n            render_options = self.options",
  "            new_segments: List[Segment] = []\n            extend = new_segments.extend\n            render = self.render\n            render_options = self.options", "R10.4")
V("c10-benign-reorder-releases", "C10", LV, "                self._disable_redirect_io()\n                self.console.pop_render_hook()\n                self.console.show_cursor(True)\n", "                self.console.pop_render_hook()\n                self._disable_redirect_io()\n                self.console.show_cursor(True)\n", None)
V("c10-benign-temp-height", "C10", LR, "            _, height = self._shape\n            return Control(\"\\r\\x1b[2K\" + \"\\x1b[1A\\x1b[2K\" * (height - 1))", "            _, height = self._shape\n            ups = height - 1\n            return Control(\"\\r\\x1b[2K\" + \"\\x1b[1A\\x1b[2K\" * ups)", None)

# ---- C11 (replacements for entries made stale by the F16 fix) ----------------
V("c11-render-outside-lock2", "C11", CN,
  "        with self._lock:\n            if self._buffer_index == 0:\n                if self.is_jupyter:  # pragma: no cover\n                    from .jupyter import display\n\n                    display(self._buffer)\n                    del self._buffer[:]\n                else:\n                    if self.record:\n                        with self._record_buffer_lock:\n                            self._record_buffer.extend(self._buffer[:])\n                    text = self._render_buffer(self._buffer[:])\n                    del self._buffer[:]\n                    if text:\n                        try:",
  "        if self._buffer_index == 0:\n            if self.is_jupyter:  # pragma: no cover\n                from .jupyter import display\n\n                display(self._buffer)\n                del self._buffer[:]\n            else:\n                if self.record:\n                    with self._record_buffer_lock:\n                        self._record_buffer.extend(self._buffer[:])\n                text = self._render_buffer(self._buffer[:])\n                del self._buffer[:]\n                if text:\n                    with self._lock:\n                        try:", "R11.2")
V("c11-record-outside-lock2", "C11", CN, "                        with self._record_buffer_lock:\n                            self._record_buffer.extend(self._buffer[:])", "                        if True:\n                            self._record_buffer.extend(self._buffer[:])", "R11.4")
V("c11-lock-cycle2", "C11", CN, "        not_terminal = not self.is_terminal\n        if self.no_color and color_system:", "        for hook in self._render_hooks:\n            hook.process_renderables([])\n        not_terminal = not self.is_terminal\n        if self.no_color and color_system:", "R11.5")
V("c11-hooks-under-console-lock", "C11", CN, "            for hook in self._render_hooks:\n                renderables = hook.process_renderables(renderables)\n            render_options = self.options.update(", "            with self._lock:\n                for hook in self._render_hooks:\n                    renderables = hook.process_renderables(renderables)\n            render_options = self.options.update(", "R11.5")
V("c11-buffer-index-shared", "C11", CN, "        return self._thread_locals.buffer_index\n", "        return self._shared_index\n", "R11.3")

# ---- C12 additions -----------------------------------------------------------
V("c12-update-guard-dropped", "C12", PR, "            if update_completed > 0:\n                _progress.append(ProgressSample(current_time, update_completed))", "            _progress.append(ProgressSample(current_time, update_completed))", "R12.6")
V("c12-benign-helper-extracted", "C12", PR, [
  ("            current_time = self.get_time()\n            old_sample_time = current_time - self.speed_estimate_period\n            _progress = task._progress\n\n            popleft = _progress.popleft\n            while _progress and _progress[0].timestamp < old_sample_time:\n                popleft()\n            while len(_progress) > 1000:\n                popleft()\n            if update_completed > 0:\n                _progress.append(ProgressSample(current_time, update_completed))\n            if task.completed >= task.total and task.finished_time is None:\n                task.finished_time = task.elapsed\n\n    def reset(",
   "            self._record_sample(task, self.get_time(), update_completed)\n\n    def _record_sample(self, task: Task, current_time: float, update_completed: float) -> None:\n        old_sample_time = current_time - self.speed_estimate_period\n        _progress = task._progress\n\n        popleft = _progress.popleft\n        while _progress and _progress[0].timestamp < old_sample_time:\n            popleft()\n        while len(_progress) > 1000:\n            popleft()\n        if update_completed > 0:\n            _progress.append(ProgressSample(current_time, update_completed))\n        if task.completed >= task.total and task.finished_time is None:\n            task.finished_time = task.elapsed\n\n    def reset("),
], None, None)

# ---- C01 -----------------------------------------------------------------------
V("c01-constrain-no-min", "C01", "rich/constrain.py", "child_options = options.update(width=min(self.width, options.max_width))", "child_options = options.update(width=self.width)", "R1.1")
V("c01-tree-full-width", "C01", "rich/tree.py", "                    width=options.max_width\n                    - sum(level.cell_length for level in prefix),", "                    width=options.max_width\n                    + sum(level.cell_length for level in prefix),", "R1.1")
V("c01-padding-child-too-wide", "C01", "rich/padding.py", "child_options = options.update(width=width - self.left - self.right)", "child_options = options.update(width=width + self.left)", "R1.1")
V("c01-render-lines-console-width", "C01", CN, "                _rendered, render_options.max_width, include_new_lines=False, pad=pad", "                _rendered, self.width, include_new_lines=False, pad=pad", "R1.2")
V("c01-panel-title-clamp", "C01", "rich/panel.py", "                options.max_width - 2, max(child_width, title_text.cell_len + 2)", "                width, max(child_width, title_text.cell_len + 2)", "R1.3")
V("c01-padding-not-expand-unclamped", "C01", "rich/padding.py", "                + self.left\n                + self.right,\n                options.max_width,\n            )", "                + self.left\n                + self.right,\n                options.max_width + self.right,\n            )", "R1.")
V("c01-benign-temp", "C01", "rich/constrain.py", "            child_options = options.update(width=min(self.width, options.max_width))", "            capped = min(self.width, options.max_width)\n            child_options = options.update(width=capped)", None)

# ---- C03 -----------------------------------------------------------------------
V("c03-no-reset", "C03", S, 'rendered = f"\\x1b[{attrs}m{text}\\x1b[0m" if attrs else text', 'rendered = f"\\x1b[{attrs}m{text}" if attrs else text', "R3.1")
V("c03-link-not-closed", "C03", S, '{rendered}\\x1b]8;;\\x1b\\\\"', '{rendered}"', "R3.1")
V("c03-none-check-dropped", "C03", S, "        if not text or color_system is None:\n            return text", "        if not text:\n            return text", "R3.2")
V("c03-render-default-system", "C03", CN, "                        text,\n                        color_system=color_system,\n                        legacy_windows=legacy_windows,", "                        text,\n                        legacy_windows=legacy_windows,", "R3.2")
V("c03-no-color-after-loop", "C03", CN, "        if self.no_color and color_system:\n            buffer = Segment.remove_color(buffer)\n", "", "R3.3")
V("c03-without-color-keeps-bg", "C03", S, "        style._color = None\n        style._bgcolor = None\n", "        style._color = None\n        style._bgcolor = self._bgcolor\n", "R3.3")
V("c03-control-guard-dropped", "C03", CN, "            if not_terminal and is_control:\n                continue\n", "", "R3.4")
V("c03-ansi-cache-unkeyed", "C03", S, "        if self._ansi is None or self._ansi[0] != color_system:", "        if self._ansi is None:", "R3.5")
V("c03-benign-rename", "C03", CN, "        not_terminal = not self.is_terminal\n", "        not_terminal = not self.is_terminal\n        _unused_flag = not_terminal\n", None)

# ---- C04 -----------------------------------------------------------------------
MK = "rich/markup.py"
V("c04-tags-class-extended", "C04", MK, 'r"""((\\\\*)\\[([a-z#\\/].*?)\\])""",', 'r"""((\\\\*)\\[([a-z#\\/@].*?)\\])""",', "R4.1")
V("c04-escape-single-backslash", "C04", MK, 'return f"{backslashes}{backslashes}\\\\{text}"', 'return f"{backslashes}\\\\{text}"', "R4.1")
V("c04-pop-outside-try", "C04", MK, "                    try:\n                        span_index, open_tag = pop()\n                    except IndexError:\n                        raise MarkupError(\n                            f\"closing tag '[/]' at position {position} has nothing to close\"\n                        ) from None", "                    span_index, open_tag = pop()", "R4.2")
V("c04-pop-from-bottom", "C04", MK, "        for index, (_, tag) in enumerate(reversed(style_stack), 1):\n            if tag.name == style_name:\n                return pop(-index)", "        for index, (_, tag) in enumerate(style_stack):\n            if tag.name == style_name:\n                return pop(index)", "R4.2")
V("c04-no-drain", "C04", MK, "    while style_stack:\n        span_index, tag = style_stack.pop()\n        spans[span_index] = _Span(spans[span_index].start, text_length, str(tag))\n", "", "R4.3")
V("c04-sorted-spans", "C04", MK, "    text.spans = spans\n", "    text.spans = sorted(spans)\n", "R4.4")
V("c04-benign-comment", "C04", MK, "    text_length = len(text)\n", "    text_length = len(text)  # final length\n", None)

# ---- C05 -----------------------------------------------------------------------
TX = "rich/text.py"
V("c05-init-unstripped-length", "C05", TX, "        self._length: int = len(sanitized_text)", "        self._length: int = len(text)", "R5.1")
V("c05-append-length-before-strip", "C05", TX, "                text = strip_control_codes(text)\n                self._text.append(text)\n                offset = len(self)\n                text_length = len(text)", "                text_length = len(text)\n                text = strip_control_codes(text)\n                self._text.append(text)\n                offset = len(self)", "R5.1")
V("c05-right-crop-blind", "C05", TX, "        self._text = [self.plain[:max_offset]]\n        self._length = len(self.plain)", "        self._text = [self.plain[:-amount]]\n        self._length -= amount", "R5.1")
V("c05-expand-tabs-forgets-length", "C05", TX, "        self._text = [result.plain]\n        self._length = len(self.plain)\n        self._spans[:] = result._spans", "        self._text = [result.plain]\n        self._spans[:] = result._spans", "R5.1")
V("c05-tokens-offset", "C05", TX, "            offset += len(content)\n        self._length = offset", "            offset += len(content) + 0 * len(style or '')\n        self._length = offset + 1", "R5.1")
V("c05-pad-left-shift", "C05", TX, "            self.plain = f\"{character * count}{self.plain}\"\n            _Span = Span\n            self._spans[:] = [\n                _Span(start + count, end + count, style)", "            self.plain = f\"{character * count}{self.plain}\"\n            _Span = Span\n            self._spans[:] = [\n                _Span(start + count - 1, end + count - 1, style)", "R5.2")
V("c05-append-text-late-length", "C05", TX, "        _Span = Span\n        text_length = self._length\n        # a list, not a generator: text may be self\n        text_spans = [", "        _Span = Span\n        self._length += len(text)\n        text_length = self._length\n        # a list, not a generator: text may be self\n        text_spans = [", "R5.")
V("c05-stylize-sets-plain", "C05", TX, "        self._spans.append(Span(start, min(length, end), style))\n", "        self._spans.append(Span(start, min(length, end), style))\n        self.plain = self.plain.rstrip()\n", "R5.3")
V("c05-divide-no-sort", "C05", TX, "            line_spans.sort(key=get_order)\n", "", "R5.4")
V("c05-trim-reversed", "C05", TX, "            for span in self._spans\n            if span.start < max_offset\n        ]\n\n    def pad(", "            for span in reversed(self._spans)\n            if span.start < max_offset\n        ]\n\n    def pad(", "R5.4")
V("c05-init-no-strip", "C05", TX, "        sanitized_text = strip_control_codes(text)\n", "        sanitized_text = text\n", "R5.5")
V("c05-benign-temp", "C05", TX, "        new_text._length = offset\n        return new_text", "        total = offset\n        new_text._length = total\n        return new_text", None)

# ---- C07 -----------------------------------------------------------------------
TB = "rich/table.py"
V("c07-set-shape-plus-one", "C07", TB, "                _Segment.set_shape(\n                    _cell, width, max_height, style=table_style + row_style\n                )", "                _Segment.set_shape(\n                    _cell, width + 1, max_height, style=table_style + row_style\n                )", "R7.1")
V("c07-row-reversed-widths", "C07", TB, '_box.get_row(widths, "head", edge=show_edge), border_style', '_box.get_row(widths[::-1], "head", edge=show_edge), border_style', "R7.1")
V("c07-table-width-no-extra", "C07", TB, "        table_width = sum(widths) + extra_width\n", "        table_width = sum(widths)\n", "R7.1")
V("c07-extra-width-always-edge", "C07", TB, "        if self.box and self.show_edge:\n            width += 2", "        if self.box:\n            width += 2", "R7.2")
V("c07-row-no-edge-flag", "C07", TB, '_box.get_row(widths, "row", edge=show_edge), border_style', '_box.get_row(widths, "row"), border_style', "R7.2")
V("c07-box-five-glyphs", "C07", "rich/box.py", "+--+\n| ||\n|-+|", "+--++\n| ||\n|-+|", "R7.3")
V("c07-benign-alias", "C07", TB, "        widths = self._calculate_column_widths(console, max_width - extra_width)\n        table_width = sum(widths) + extra_width", "        widths = self._calculate_column_widths(console, max_width - extra_width)\n        inner = sum(widths)\n        table_width = inner + extra_width" if False else "        widths = self._calculate_column_widths(console, max_width - extra_width)\n        table_width = sum(widths) + extra_width  # total", None)

# ---- C08 -----------------------------------------------------------------------
V("c08-panel-child-width-minus-one", "C08", "rich/panel.py", "        width = child_width + 2\n", "        width = child_width + 3\n", "R8.3")
V("c08-padding-only-left", "C08", "rich/padding.py", "child_options = options.update(width=width - self.left - self.right)", "child_options = options.update(width=width - self.left)", "R8.3")
V("c08-padding-blank-short", "C08", "rich/padding.py", 'blank_line = Segment(" " * width + "\\n", style)', 'blank_line = Segment(" " * (width - 1) + "\\n", style)', "R8.3")
V("c08-panel-width-conditional", "C08", "rich/panel.py", "        width = child_width + 2\n", "        if not self.expand:\n            width = child_width + 2\n", "R8.3")
V("c08-rule-no-final-resize", "C08", "rich/rule.py", "            rule_text.append(title_text)\n\n        rule_text.plain = set_cell_size(rule_text.plain, width)\n        yield rule_text", "            rule_text.append(title_text)\n\n        yield rule_text", "R8.4")
V("c08-tree-guide-3", "C08", "rich/tree.py", '("    ", "│   ", "├── ", "└── "),', '("    ", "│   ", "├─ ", "└── "),', "R8.5")
V("c08-benign-reorder", "C08", "rich/panel.py", "        line_start = Segment(box.mid_left, border_style)\n        line_end = Segment(f\"{box.mid_right}\", border_style)", "        line_end = Segment(f\"{box.mid_right}\", border_style)\n        line_start = Segment(box.mid_left, border_style)", None)

# ---- C09 -----------------------------------------------------------------------
ME = "rich/measure.py"
V("c09-with-maximum-max", "C09", ME, "        return Measurement(min(minimum, width), min(maximum, width))", "        return Measurement(min(minimum, width), max(maximum, width))", "R9.1")
V("c09-get-no-clamp", "C09", ME, "                    .normalize()\n                    .with_maximum(_max_width)\n                )", "                    .normalize()\n                )", "R9.1")
V("c09-normalize-broken", "C09", ME, [("        minimum = min(max(0, minimum), maximum)\n", ""), ("        return Measurement(max(0, minimum), max(0, max(minimum, maximum)))", "        return Measurement(minimum, maximum)")], None, "R9.1")
V("c09-benign-normalize-simplified", "C09", ME, "        minimum = min(max(0, minimum), maximum)", "        minimum = max(0, minimum)", None)
V("c09-direct-measure-call", "C09", TB, "            _min, _max = get_render_width(console, cell.renderable, max_width)", "            _min, _max = cell.renderable.__rich_measure__(console, max_width)", "R9.2")
V("c09-column-uncapped", "C09", TB, "            return Measurement(\n                column.width + padding_width, column.width + padding_width\n            ).with_maximum(max_width)", "            return Measurement(\n                column.width + padding_width, column.width + padding_width\n            )", "R9.3")
V("c09-text-key-len", "C09", TX, "        max_text_width = max(cell_len(line) for line in text.split(\"\\n\"))", "        max_text_width = cell_len(max(text.split(\"\\n\"), key=len))", "R9.4")
V("c09-text-measure-splitlines", "C09", TX, "        max_text_width = max(cell_len(line) for line in text.split(\"\\n\"))", "        max_text_width = max(cell_len(line) for line in text.splitlines())", "R9.4")
V("c09-benign-text-measure-lines-temp", "C09", TX, "        max_text_width = max(cell_len(line) for line in text.split(\"\\n\"))", "        lines = text.split(\"\\n\")\n        max_text_width = max(cell_len(line) for line in lines)", None)
V("c09-benign-local", "C09", ME, "        _max_width = console.width if max_width is None else max_width\n", "        _max_width = console.width if max_width is None else max_width\n        _limit = _max_width\n", None)

# ---- C14 -----------------------------------------------------------------------
V("c14-color-parse-no-try", "C14", CO, "            try:\n                triplet = ColorTriplet(int(red), int(green), int(blue))\n            except ValueError:\n                raise ColorParseError(\n                    f\"expected three integer components in {original_color!r}\"\n                ) from None", "            triplet = ColorTriplet(int(red), int(green), int(blue))", "R14.1")
V("c14-ansi-isdigit", "C14", "rich/ansi.py", 'if _code.isdecimal()', 'if _code.isdigit()', "R14.1")
V("c14-style-parse-uncaught", "C14", S, "                try:\n                    Color.parse(word)\n                except ColorParseError as error:\n                    raise errors.StyleSyntaxError(\n                        f\"unable to parse {word!r} as color; {error}\"\n                    ) from None\n                color = word", "                Color.parse(word)\n                color = word", "R14.")
V("c14-get-style-wrong-except", "C14", CN, "        except errors.StyleSyntaxError as error:\n            if default is not None:", "        except errors.MissingStyle as error:\n            if default is not None:", "R14.")
V("c14-components-unchecked", "C14", CO, "            if len(components) != 3:\n                raise ColorParseError(\n                    f\"expected three components in {original_color!r}\"\n                )\n", "", "R14.1")
V("c14-bare-next", "C14", "rich/syntax.py", "                        try:\n                            _token_type, token = next(tokens)\n                        except StopIteration:\n                            break", "                        _token_type, token = next(tokens)", "R14.2")
V("c14-benign-message", "C14", CO, 'raise ColorParseError(f"{original_color!r} is not a valid color")', 'raise ColorParseError(f"{original_color!r} is not a valid colour")', None)

# ---- C15 -----------------------------------------------------------------------
V("c15-record-in-render-buffer", "C15", CN, "        not_terminal = not self.is_terminal\n        if self.no_color and color_system:", "        if self.record:\n            with self._record_buffer_lock:\n                self._record_buffer.extend(buffer)\n        not_terminal = not self.is_terminal\n        if self.no_color and color_system:", "R15.1")
V("c15-export-text-clears-always", "C15", CN, "                    if not segment.is_control\n                )\n            if clear:\n                del self._record_buffer[:]", "                    if not segment.is_control\n                )\n            del self._record_buffer[:]", "R15.2")
V("c15-end-capture-exit-first", "C15", CN, "        render_result = self._render_buffer(self._buffer)\n        del self._buffer[:]\n        self._exit_buffer()", "        self._exit_buffer()\n        render_result = self._render_buffer(self._buffer)\n        del self._buffer[:]", "R15.3")
V("c15-capture-exit-conditional", "C15", CN, "    def __exit__(self, exc_type, exc_val, exc_tb) -> None:\n        self._result = self._console.end_capture()", "    def __exit__(self, exc_type, exc_val, exc_tb) -> None:\n        if exc_type is None:\n            self._result = self._console.end_capture()\n        else:\n            self._console._exit_buffer()", "R15.3")
V("c15-escape-order", "C15", CN, 'return text.replace("&", "&amp;").replace("<", "&lt;").replace(">", "&gt;")', 'return text.replace("<", "&lt;").replace(">", "&gt;").replace("&", "&amp;")', "R15.4")
V("c15-export-text-keeps-control", "C15", CN, "                    for segment in self._record_buffer\n                    if not segment.is_control\n", "                    for segment in self._record_buffer\n", "R15.5")
V("c15-simplify-one-sided", "C15", SG, "                and not segment.is_control\n                and not last_segment.is_control\n", "                and not segment.is_control\n", "R15.6")
V("c15-benign-rename", "C15", CN, "        render_result = self._render_buffer(self._buffer)\n        del self._buffer[:]\n        self._exit_buffer()\n        return render_result", "        captured = self._render_buffer(self._buffer)\n        render_result = captured\n        del self._buffer[:]\n        self._exit_buffer()\n        return render_result", None)

# ---- C16 -----------------------------------------------------------------------
PT = "rich/pretty.py"
V("c16-array-no-f", "C16", PT, 'f"array({_object.typecode!r})")', '"array({_object.typecode!r})")', "R16.1")
V("c16-frozenset-brace", "C16", PT, 'frozenset: lambda _object: ("frozenset({", "})", "frozenset()"),', 'frozenset: lambda _object: ("frozenset({", ")", "frozenset()"),', "R16.1")
V("c16-pop-only-nonempty", "C16", PT, "            else:\n                node = Node(empty=empty, children=[], last=root)\n\n            pop_visited(obj_id)", "                pop_visited(obj_id)\n            else:\n                node = Node(empty=empty, children=[], last=root)\n", "R16.2")
V("c16-abbrev-count", "C16", PT, 'append(Node(value_repr=f"... +{num_items-max_length}", last=True))', 'append(Node(value_repr=f"... +{num_items}", last=True))', "R16.3")
V("c16-tuple-of-one-inline", "C16", PT, "                if self.is_tuple and len(self.children) == 1:\n                    yield from self.children[0].iter_tokens()\n                    yield \",\"\n                else:\n                    for child in self.children:", "                if False:\n                    yield from self.children[0].iter_tokens()\n                    yield \",\"\n                else:\n                    for child in self.children:", "R16.4")
V("c16-benign-newtype", "C16", PT, '    list: lambda _object: ("[", "]", "[]"),', '    list: lambda _object: ("[", "]", "[]"),\n    bytearray: lambda _object: ("bytearray([", "])", "bytearray()"),', None)

# ---- C17 -----------------------------------------------------------------------
SY = "rich/syntax.py"
V("c17-stripnl-default", "C17", SY, "get_lexer_by_name(self.lexer_name, stripnl=False)", "get_lexer_by_name(self.lexer_name)", "R17.1")
V("c17-bare-next", "C17", SY, "                        try:\n                            _token_type, token = next(tokens)\n                        except StopIteration:\n                            break", "                        _token_type, token = next(tokens)", "R17.2")
V("c17-number-from-start-line", "C17", SY, "enumerate(lines, self.start_line + line_offset)", "enumerate(lines, self.start_line)", "R17.3")
V("c17-slice-off-by-one", "C17", SY, "            lines = lines[line_offset:end_line]", "            lines = lines[line_offset + 1:end_line]", "R17.3")
V("c17-token-lower", "C17", SY, "                    (token, _get_theme_style(token_type))\n                    for token_type, token in lexer.get_tokens(code)", "                    (token.rstrip(), _get_theme_style(token_type))\n                    for token_type, token in lexer.get_tokens(code)", "R17.4")
V("c17-traceback-highlight-next", "C17", "rich/traceback.py", "highlight_lines={frame.lineno},", "highlight_lines={frame.lineno + 1},", "R17.5")
V("c17-benign-var", "C17", SY, "        numbers_column_width = self._numbers_column_width\n        render_options = options.update(width=code_width)", "        render_options = options.update(width=code_width)\n        numbers_column_width = self._numbers_column_width", None)

# ---- C19 -----------------------------------------------------------------------
AN = "rich/ansi.py"
V("c19-sgr-swap", "C19", AN, '    5: "blink",\n    6: "blink2",', '    5: "blink2",\n    6: "blink",', "R19.1")
V("c19-color-table-off", "C19", AN, '    91: "color(9)",', '    91: "color(10)",', "R19.2")
V("c19-bg-fills-fg", "C19", AN, "                                self.style += _Style.from_color(\n                                    None, from_ansi(next(iter_codes))\n                                )", "                                self.style += _Style.from_color(\n                                    from_ansi(next(iter_codes))\n                                )", "R19.3")
V("c19-rgb-two-params", "C19", AN, "                                    from_rgb(\n                                        next(iter_codes),\n                                        next(iter_codes),\n                                        next(iter_codes),\n                                    )\n                                )\n                    elif code == 48:", "                                    from_rgb(\n                                        next(iter_codes),\n                                        next(iter_codes),\n                                        0,\n                                    )\n                                )\n                    elif code == 48:", "R19.3")
V("c19-link-split", "C19", AN, '                    _params, semicolon, link = osc[2:].partition(";")\n                    if semicolon:', '                    fields = osc.split(";")\n                    semicolon = len(fields) > 2\n                    link = fields[2] if semicolon else ""\n                    if semicolon:', "R19.4")
V("c19-flush-markup-on", "C19", "rich/file_proxy.py", "            self.__console.print(output, markup=False, emoji=False, highlight=False)", "            self.__console.print(output)", "R19.5")
V("c19-write-clears-before-join", "C19", "rich/file_proxy.py", '                lines.append("".join(buffer) + line)\n                del buffer[:]', '                del buffer[:]\n                lines.append("".join(buffer) + line)', "R19.6")
V("c19-benign-alias", "C19", "rich/file_proxy.py", "        if lines:\n            console = self.__console\n            with console:", "        if lines:\n            console = self.__console\n            decoder = self.__ansi_decoder\n            with console:", None)

# ---- C20 -----------------------------------------------------------------------
TH = "rich/theme.py"
V("c20-pop-no-rebind", "C20", TH, "        self._entries.pop()\n        self.get = self._entries[-1].get", "        self._entries.pop()", "R20.1")
V("c20-push-in-place", "C20", TH, "        styles = (\n            {**self._entries[-1], **theme.styles} if inherit else theme.styles.copy()\n        )", "        styles = (\n            {**self._entries[-1], **theme.styles} if inherit else theme.styles\n        )", "R20.2")
V("c20-unpack-order", "C20", TH, "{**self._entries[-1], **theme.styles} if inherit", "{**theme.styles, **self._entries[-1]} if inherit", "R20.3")
V("c20-base-guard-removed", "C20", TH, '        if len(self._entries) == 1:\n            raise ThemeStackError("Unable to pop base theme")\n', "", "R20.4")
V("c20-exit-conditional", "C20", CN, "    def __exit__(self, exc_type, exc_val, exc_tb) -> None:\n        self.console.pop_theme()", "    def __exit__(self, exc_type, exc_val, exc_tb) -> None:\n        if exc_type is None:\n            self.console.pop_theme()", "R20.5")
V("c20-inherit-dropped", "C20", CN, "        self.console.push_theme(self.theme, inherit=self.inherit)", "        self.console.push_theme(self.theme)", "R20.5")
V("c20-parse-first", "C20", CN, "            style = self._theme_stack.get(name)\n            if style is None:\n                style = Style.parse(name)", "            style = Style.parse(name)", "R20.6")
V("c20-benign-local", "C20", TH, "        self._entries.append(styles)\n        self.get = self._entries[-1].get", "        entries = self._entries\n        self._entries.append(styles)\n        self.get = self._entries[-1].get", None)

# ---- C13 additions (R13.7-R13.9) ----------------------------------------------
V("c13-slice-by-cells", "C13", CE, "    cell_size = cell_len(text)\n    if cell_size == total:\n        return text\n", "    cell_size = cell_len(text)\n    if cell_size == total:\n        return text\n    if cell_size == len(text):\n        return text[:total]\n", "R13.7")
V("c13-crop-char-slice", "C13", SG, "                    text = set_cell_size(text, length - line_length)", "                    text = text[: length - line_length]", "R13.7")
V("c13-crop-loop-ge", "C13", CE, "    while excess > 0 and character_sizes:", "    while excess >= 0 and character_sizes:", "R13.8")
V("c13-crop-loop-double-pop", "C13", CE, "        excess -= pop()\n", "        excess -= pop()\n        pop()\n", "R13.8")
V("c13-crop-prefix-off", "C13", CE, "    text = text[: len(character_sizes)]", "    text = text[: len(character_sizes) + 1]", "R13.8")
V("c13-chop-ge", "C13", CE, "        if total_size + size > max_size:", "        if total_size + size >= max_size:", "R13.9")
V("c13-chop-drops-char", "C13", CE, "            total_size += size\n            append(character)", "            total_size += size\n            if size:\n                append(character)", "R13.9")
V("c13-chop-no-reset", "C13", CE, "            total_size = size\n", "            total_size = 0\n", "R13.9")
V("c13-search-upper-len", "C13", CE, "    upper_bound = len(_table) - 1", "    upper_bound = len(_table)", "R13.2")
V("c13-shortcut-raw-width", "C13", CE, "    _table = CELL_WIDTHS\n    lower_bound = 0", "    first_start, first_end, first_width = CELL_WIDTHS[1]\n    if first_start <= codepoint <= first_end:\n        return first_width\n    _table = CELL_WIDTHS\n    lower_bound = 0", "R13.2")
V("c13-benign-chop-rename", "C13", CE, "        character, size = pop()\n        if total_size + size > max_size:\n            lines.append([character])\n            append = lines[-1].append\n            total_size = size\n        else:\n            total_size += size\n            append(character)", "        char, width = pop()\n        if total_size + width > max_size:\n            lines.append([char])\n            append = lines[-1].append\n            total_size = width\n        else:\n            total_size += width\n            append(char)", None)
# ---- C14 additions -------------------------------------------------------------
V("c14-collapse-guard-removed", "C14", TB, "        if any(wrapable):\n            while total_width and excess_width > 0:", "        if True:\n            while total_width and excess_width > 0:", "R14.5")
V("c14-search-upper-len", "C14", CE, "    upper_bound = len(_table) - 1", "    upper_bound = len(_table)", "R14.6")
# ---- C10 additions -------------------------------------------------------------
V("c10-liverender-store-unpadded", "C10", LR, "        width, height = self._shape\n        lines = _Segment.set_shape(lines, width, height)", "        width, height = self._shape\n        self._shape = (width, shape[1])\n        lines = _Segment.set_shape(lines, width, height)", "R10.2")
# ---- C20 additions -------------------------------------------------------------
V("c20-push-cached-merge", "C20", TH, "        self._entries.append(styles)\n        self.get = self._entries[-1].get", "        self._entries.append(self._entries[-1] if not theme.styles else styles)\n        self.get = self._entries[-1].get", "R20.2")

# ---- later additions -------------------------------------------------------------
V("c08-align-center-right-pad", "C08", "rich/align.py", 'Segment(" " * (excess_space - left), style) if self.pad else None', 'Segment(" " * excess_space, style) if self.pad else None', "R8.8")
V("c08-align-right-short", "C08", "rich/align.py", '                pad = Segment(" " * excess_space, style)\n                for line in lines:\n                    yield pad\n                    yield from line', '                pad = Segment(" " * (excess_space - 1), style)\n                for line in lines:\n                    yield pad\n                    yield from line', "R8.8")
V("c08-bar-half-left-extra", "C08", "rich/progress_bar.py", "                    yield _Segment(half_bar_left, style)\n                    remaining_bars -= 1", "                    yield _Segment(half_bar_left, style)", "R8.9")
V("c08-bar-uncapped", "C08", "rich/progress_bar.py", "        width = min(self.width or options.max_width, options.max_width)\n        ascii =", "        width = self.width or options.max_width\n        ascii =", "R8.9")
V("c08-pulse-plus-one", "C08", "rich/progress_bar.py", "pulse_segments * (int(width / segment_count) + 2)", "pulse_segments * (int(width / segment_count) + 1)", "R8.9")
V("c08-panel-title-no-copy", "C08", "rich/panel.py", "                else self.title.copy()", "                else self.title", "R8.7")
V("c08-benign-align-temp", "C08", "rich/align.py", "                left = excess_space // 2\n", "                left = excess_space // 2\n                _half = left\n", None)
V("c04-normalize-no-strip", "C04", S, "            return style.strip().lower()", "            return style.lower()", "R4.5")
V("c04-add-mask-attributes", "C04", S, "(self._attributes & ~style._set_attributes)", "(self._attributes & ~style._attributes)", "R4.6")
V("c07-row-height-no-floor", "C07", TB, "            max_height = 1\n", "            max_height = 0\n", "R7.5")
V("c05-copy-shares-spans", "C05", TX, "        copy_self._spans[:] = self._spans\n        return copy_self", "        copy_self._spans = self._spans\n        return copy_self", "R5.7")
V("c05-tabs-count-plain-parts", "C05", TX, "                else:\n                    append(part)\n        self._text = [result.plain]", "                else:\n                    append(part)\n                    pos += len(part)\n        self._text = [result.plain]", "R5.6")
V("c11-start-check-outside-lock", "C11", LV, "        with self._lock:\n            if self._started:\n                return\n\n            self.console.show_cursor(False)", "        if self._started:\n            return\n        with self._lock:\n            self.console.show_cursor(False)", "R11.7")
V("c09-align-no-constrain", "C09", "rich/align.py", "        rendered = console.render(\n            Constrain(\n                self.renderable, width if self.width is None else min(width, self.width)\n            ),\n            options,\n        )", "        rendered = console.render(self.renderable, options.update(width=width))", "R9.5")
V("c09-get-falsy-zero", "C09", ME, "        _max_width = console.width if max_width is None else max_width", "        _max_width = max_width or console.width", "R9.1")
V("c06-add-mask-constant", "C06", S, "(self._attributes & ~style._set_attributes)", "(self._attributes & (style._set_attributes ^ 4095))", "R6.4")

# ---- C02 -------------------------------------------------------------------------
WR = "rich/_wrap.py"
V("c02-divide-skips-start", "C02", TX, "        divide_offsets = [0, *_offsets, text_length]", "        divide_offsets = [*_offsets, text_length]", "R2.1")
V("c02-divide-span-not-rebased", "C02", TX, "                line_span = _Span(span_start - start, span_end - start, span_style)", "                line_span = _Span(span_start, span_end, span_style)", "R2.1")
V("c02-wrap-offsets-other-string", "C02", TX, "                offsets = divide_line(str(line), width, fold=wrap_overflow == \"fold\")", "                offsets = divide_line(str(line).strip(), width, fold=wrap_overflow == \"fold\")", "R2.2")
V("c02-wrap-fold-always", "C02", TX, "                offsets = divide_line(str(line), width, fold=wrap_overflow == \"fold\")", "                offsets = divide_line(str(line), width)", "R2.2")
V("c02-divide-no-sort", "C02", TX, "            line_spans.sort(key=get_order)\n", "", "R2.3")
V("c02-offset-in-cells", "C02", WR, "                            start += len(line)\n", "                            start += _cell_len(line)\n", "R2.4")
V("c02-compare-chars", "C02", WR, "        word_length = _cell_len(word.rstrip())\n", "        word_length = len(word.rstrip())\n", "R2.4")
V("c02-chop-any-word", "C02", WR, "            if word_length > width:\n                if fold:", "            if word_length:\n                if fold:", "R2.4")
V("c02-chop-position-zero", "C02", WR, "chop_cells(word, width, position=line_position)", "chop_cells(word, width)", "R2.4")
V("c02-chop-ge", "C02", CE, "        if total_size + size > max_size:", "        if total_size + size >= max_size:", "R2.5")
V("c02-rstrip-end-all-excess", "C02", TX, "                self.right_crop(min(whitespace_count, excess))", "                self.right_crop(excess)", "R2.6")
V("c02-benign-alias", "C02", WR, "    _cell_len = cell_len\n", "    _cell_len = cell_len\n    _unused = width\n", None)

# ---- round-2 seed-driven rules -------------------------------------------------
BARF = "rich/bar.py"
V("c08-bar-begin-round", "C08", BARF, "        prefix_complete_eights = int(width * 8 * self.begin / self.size)", "        prefix_complete_eights = round(width * 8 * self.begin / self.size)", "R8.10")
V("c08-bar-width-uncapped", "C08", BARF, "        width = min(self.width or options.max_width, options.max_width)", "        width = self.width or options.max_width", "R8.10")
V("c08-bar-suffix-off", "C08", BARF, '        suffix = " " * (width - len(body))', '        suffix = " " * (width - len(body) + 1)', "R8.10")
V("c08-bar-mod-7", "C08", BARF, "        body_eights_count = body_complete_eights % 8", "        body_eights_count = body_complete_eights % 7", "R8.10")
V("c01-bar-begin-round", "C01", BARF, "        prefix_complete_eights = int(width * 8 * self.begin / self.size)", "        prefix_complete_eights = round(width * 8 * self.begin / self.size)", "R1.5")
V("c08-bar-benign-rename", "C08", BARF,
  "        prefix_complete_eights = int(width * 8 * self.begin / self.size)\n        prefix_bar_count = prefix_complete_eights // 8\n        prefix_eights_count = prefix_complete_eights % 8\n",
  "        p8 = int(width * 8 * self.begin / self.size)\n        prefix_bar_count, prefix_eights_count = divmod(p8, 8)\n", None)
V("c02-truncate-outside-loop", "C02", "rich/text.py", "            for line in new_lines:\n                line.truncate(width, overflow=wrap_overflow)\n            lines.extend(new_lines)\n        return lines", "            lines.extend(new_lines)\n        for line in new_lines:\n            line.truncate(width, overflow=wrap_overflow)\n        return lines", "R2.2")
V("c01-truncate-outside-loop", "C01", "rich/text.py", "            for line in new_lines:\n                line.truncate(width, overflow=wrap_overflow)\n            lines.extend(new_lines)\n        return lines", "            lines.extend(new_lines)\n        for line in new_lines:\n            line.truncate(width, overflow=wrap_overflow)\n        return lines", "R1.4b")
V("c12-percentage-mul-first", "C12", PR, "        completed = (self.completed / self.total) * 100.0\n        completed = min(100.0", "        completed = (self.completed * 100.0) / self.total\n        completed = min(100.0", "R12.7")
V("c12-bar-percentage-clamp-99", "C12", "rich/progress_bar.py", "        completed = min(100, max(0.0, completed))", "        completed = min(99, max(0.0, completed))", "R12.7")
V("c12-benign-percentage-reordered", "C12", PR, "        completed = (self.completed / self.total) * 100.0\n        completed = min(100.0, max(0.0, completed))\n        return completed", "        ratio = 100.0 * (self.completed / self.total)\n        return max(0.0, min(100.0, ratio))", None)
V("c15-export-text-early-return", "C15", "rich/console.py", "                text = \"\".join(\n                    segment.text\n                    for segment in self._record_buffer\n                    if not segment.is_control\n                )\n            if clear:", "                return \"\".join(\n                    segment.text\n                    for segment in self._record_buffer\n                    if not segment.is_control\n                )\n            if clear:", "R15.2")
V("c16-check-length-children", "C16", "rich/pretty.py", "        for token in self.iter_tokens():\n            total_length += cell_len(token)", "        for token in (self.children or ()):\n            total_length += cell_len(str(token))", "R16.5")
V("c17-guides-lstrip", "C17", "rich/text.py", "            indent = match.group(1)\n            full_indents, remaining_space = divmod(len(indent), _indent_size)", "            indent = line.plain[: len(line.plain) - len(line.plain.lstrip())]\n            full_indents, remaining_space = divmod(len(indent), _indent_size)", "R17.7")
V("c17-guides-regex-ws", "C17", "rich/text.py", '        re_indent = re.compile(r"^( *)(.*)$")', '        re_indent = re.compile(r"^(\\s*)(.*)$")', "R17.7")
V("c19-fileproxy-class-buffer", "C19", "rich/file_proxy.py", "        self.__buffer: List[str] = []\n", "", "R19.9")
CONS = "rich/console.py"
V("c10-progress-stop-not-idempotent", "C10", PR, "            if not self._started:\n                return\n            self._started = False\n            # taken over under the lock: a concurrent start() may install a new thread\n            refresh_thread = self._refresh_thread\n            self._refresh_thread = None\n            try:\n                if refresh_thread is not None:\n                    refresh_thread.stop()\n                self.refresh()",
  "            if not self._started:\n                pass\n            self._started = False\n            # taken over under the lock: a concurrent start() may install a new thread\n            refresh_thread = self._refresh_thread\n            self._refresh_thread = None\n            try:\n                if refresh_thread is not None:\n                    refresh_thread.stop()\n                self.refresh()", "R10.5")
V("c10-log-lazy-render", "C10", CONS, "            for renderable in renderables:\n                extend(render(renderable, render_options))\n            buffer_extend = self._buffer.extend",
  "            new_segments = (s for renderable in renderables for s in render(renderable, render_options))\n            buffer_extend = self._buffer.extend", "R10.6")
V("c10-benign-log-listcomp", "C10", CONS, "            for renderable in renderables:\n                extend(render(renderable, render_options))\n            buffer_extend = self._buffer.extend",
  "            new_segments = [s for renderable in renderables for s in render(renderable, render_options)]\n            buffer_extend = self._buffer.extend", None)
V("c10-benign-stop-nested", "C10", "rich/live.py", "            if not self._started:\n                return\n            self._started = False\n            # taken over under the lock: a concurrent start() may install a new thread\n            refresh_thread = self._refresh_thread\n            self._refresh_thread = None\n            try:\n                if refresh_thread is not None:\n                    refresh_thread.stop()\n                # allow it",
  "            started = self._started\n            if not self._started:\n                return\n            self._started = False\n            # taken over under the lock: a concurrent start() may install a new thread\n            refresh_thread = self._refresh_thread\n            self._refresh_thread = None\n            try:\n                if refresh_thread is not None:\n                    refresh_thread.stop()\n                # allow it", None)

# ---- D16: Text.divide span order (fixed in daf4e05) -----------------------------------
_DIV_NEW = "        span_stack = sorted(\n            enumerate(self._spans), key=lambda item: item[1].start, reverse=True\n        )\n"
V("c05-divide-value-keyed-order", "C05", TX, [
  (_DIV_NEW, "        order = {span: span_index for span_index, span in enumerate(self._spans)}\n" + _DIV_NEW),
  ("                    push((span_index, remaining_span))\n", "                    push((span_index, remaining_span))\n                    order[remaining_span] = order[span]\n")], None, "R5.4")
V("c05-divide-remainder-loses-index", "C05", TX, "                    push((span_index, remaining_span))\n", "                    push((0, remaining_span))\n", "R5.4")
V("c05-divide-sort-reversed", "C05", TX, "            line_spans.sort(key=get_order)\n", "            line_spans.sort(key=get_order, reverse=True)\n", "R5.4")
V("c05-divide-sort-by-span", "C05", TX, "        get_order = itemgetter(0)\n", "        get_order = itemgetter(1)\n", "R5.4")
V("c02-divide-clipped-wrong-index", "C02", TX, "                append_span((span_index, line_span))\n", "                append_span((position, line_span))\n", "R2.3")
V("c05-benign-divide-lambda-key", "C05", TX, "        get_order = itemgetter(0)\n", "        get_order = lambda pair: pair[0]\n", None)
V("c05-benign-divide-plain-sort", "C05", TX, "            line_spans.sort(key=get_order)\n", "            line_spans.sort()\n", None)

# ---- round-3 rules and the defects fixed after it -------------------------------------
AN = "rich/ansi.py"
V("c14-ansi-unbounded-digits", "C14", AN, 'int(_code.lstrip("0")[:4] or "0")', 'int(_code)', "R14.1")
V("c14-ansi-slice-can-be-empty", "C14", AN, 'int(_code.lstrip("0")[:4] or "0")', 'int(_code.lstrip("0")[:4])', "R14.1")
V("c14-benign-ansi-three-digits", "C14", AN, 'int(_code.lstrip("0")[:4] or "0")', 'int(_code.lstrip("0")[:5] or "0")', None)
V("c14-columns-zero-columns", "C14", "rich/columns.py", "column_count = max(1, (max_width) // (self.width + width_padding))", "column_count = (max_width) // (self.width + width_padding)", "R14.10")
V("c14-benign-columns-or-1", "C14", "rich/columns.py", "column_count = max(1, (max_width) // (self.width + width_padding))", "column_count = (max_width // (self.width + width_padding)) or 1", None)
V("c05-pad-left-negative", "C05", TX, "        assert len(character) == 1, \"Character must be a string of length 1\"\n        if count > 0:\n            self.plain = f\"{character * count}{self.plain}\"", "        assert len(character) == 1, \"Character must be a string of length 1\"\n        if count:\n            self.plain = f\"{character * count}{self.plain}\"", "R5.2")
V("c05-benign-pad-left-ge-1", "C05", TX, "        assert len(character) == 1, \"Character must be a string of length 1\"\n        if count > 0:\n            self.plain = f\"{character * count}{self.plain}\"", "        assert len(character) == 1, \"Character must be a string of length 1\"\n        if count >= 1:\n            self.plain = f\"{character * count}{self.plain}\"", None)
V("c10-print-noargs-bypasses-hooks", "C10", CONS, "        if not objects:\n            objects = (NewLine(),)\n", "        if not objects:\n            self.line()\n            return\n", "R10.8")
V("c10-log-noargs-bypasses-hooks", "C10", CONS, "        if not objects:\n            self.print()\n            return\n", "        if not objects:\n            self.line()\n            return\n", "R10.8")
V("c10-fileproxy-pending-hoisted", "C10", "rich/file_proxy.py", [("        lines: List[str] = []\n        while text:", "        pending = \"\".join(buffer)\n        lines: List[str] = []\n        while text:"), ("                lines.append(\"\".join(buffer) + line)", "                lines.append(pending + line)")], None, "R10.7")
V("c16-leaf-repr-memo-by-value", "C16", "rich/pretty.py", "            node = Node(value_repr=to_repr(obj), last=root)", "            try:\n                _r = _leaf_reprs.get(obj)\n                if _r is None:\n                    _leaf_reprs[obj] = _r = to_repr(obj)\n            except TypeError:\n                _r = to_repr(obj)\n            node = Node(value_repr=_r, last=root)", "R16.6")
V("c17-frame-lineno-from-frame", "C17", "rich/traceback.py", "                    lineno=line_no,", "                    lineno=frame_summary.f_lineno,", "R17.8")
V("c17-frame-filename-other", "C17", "rich/traceback.py", "                filename = frame_summary.f_code.co_filename\n", "                filename = traceback.tb_frame.f_code.co_filename\n", "R17.8")
V("c18-metric-float-division", "C18", "rich/palette.py", "                (((512 + red_mean) * red * red) >> 8)", "                ((512 + red_mean) * red * red / 256)", "R18.8")
V("c18-metric-weight", "C18", "rich/palette.py", "                + (((767 - red_mean) * blue * blue) >> 8)", "                + (((768 - red_mean) * blue * blue) >> 8)", "R18.8")
V("c18-benign-metric-floordiv", "C18", "rich/palette.py", "                (((512 + red_mean) * red * red) >> 8)", "                ((512 * red * red + red_mean * red ** 2) // 256)", None)
V("c20-from-file-drops-inherit", "C20", "rich/theme.py", "        theme = Theme(styles, inherit=inherit)\n", "        theme = Theme(styles)\n", "R20.6")
V("c20-read-drops-inherit", "C20", "rich/theme.py", "            return cls.from_file(config_file, source=path, inherit=inherit)", "            return cls.from_file(config_file, source=path)", "R20.6")
V("c13-bisect-right-over-ends", "C13", CE, [("from functools import lru_cache\n", "from bisect import bisect_left, bisect_right\nfrom functools import lru_cache\n"),
  ("    _table = CELL_WIDTHS\n    lower_bound = 0\n    upper_bound = len(_table) - 1\n    index = (lower_bound + upper_bound) // 2\n    while True:\n        start, end, width = _table[index]\n        if codepoint < start:\n            upper_bound = index - 1\n        elif codepoint > end:\n            lower_bound = index + 1\n        else:\n            return 0 if width == -1 else width\n        if upper_bound < lower_bound:\n            break\n        index = (lower_bound + upper_bound) // 2\n    return 1",
   "    _ends = [end for _start, end, _width in CELL_WIDTHS]\n    index = bisect_right(_ends, codepoint)\n    if index < len(CELL_WIDTHS):\n        start, _end, width = CELL_WIDTHS[index]\n        if codepoint >= start:\n            return 0 if width == -1 else width\n    return 1")], None, "R13.2")
V("c13-benign-bisect-left-over-ends", "C13", CE, [("from functools import lru_cache\n", "from bisect import bisect_left, bisect_right\nfrom functools import lru_cache\n"),
  ("    _table = CELL_WIDTHS\n    lower_bound = 0\n    upper_bound = len(_table) - 1\n    index = (lower_bound + upper_bound) // 2\n    while True:\n        start, end, width = _table[index]\n        if codepoint < start:\n            upper_bound = index - 1\n        elif codepoint > end:\n            lower_bound = index + 1\n        else:\n            return 0 if width == -1 else width\n        if upper_bound < lower_bound:\n            break\n        index = (lower_bound + upper_bound) // 2\n    return 1",
   "    _ends = [end for _start, end, _width in CELL_WIDTHS]\n    index = bisect_left(_ends, codepoint)\n    if index < len(CELL_WIDTHS):\n        start, _end, width = CELL_WIDTHS[index]\n        if codepoint >= start:\n            return 0 if width == -1 else width\n    return 1")], None, None)
V("c14-table-no-columns-guard-dropped", "C14", "rich/table.py", "        columns = self.columns\n        if not columns:\n            return []\n", "        columns = self.columns\n", "R14.9")
V("c14-benign-table-no-columns-len", "C14", "rich/table.py", "        columns = self.columns\n        if not columns:\n            return []\n", "        columns = self.columns\n        if len(columns) == 0:\n            return []\n", None)
V("c16-closing-line-own-separator", "C16", "rich/pretty.py", "            suffix=self.suffix,\n", "            suffix=\",\" if (tuple_of_one and not self.is_root) else node.separator,\n", "R16.8")
V("c16-closing-line-no-suffix", "C16", "rich/pretty.py", "            whitespace=whitespace,\n            suffix=self.suffix,\n", "            whitespace=whitespace,\n", "R16.8")
V("c16-benign-closing-suffix-temp", "C16", "rich/pretty.py", [("        child_whitespace = self.whitespace + \" \" * indent_size\n", "        child_whitespace = self.whitespace + \" \" * indent_size\n        trailing = self.suffix\n"), ("            suffix=self.suffix,\n", "            suffix=trailing,\n")], None, None)
V("c14-pretty-measure-empty-repr", "C14", "rich/pretty.py", "        text_width = (\n            max(cell_len(line) for line in pretty_str.splitlines()) if pretty_str else 0\n        )\n", "        text_width = max(cell_len(line) for line in pretty_str.splitlines())\n", "R14.11")
V("c14-text-measure-guard-dropped", "C14", TX, "        if not text.strip():\n            return Measurement(cell_len(text), cell_len(text))\n        max_text_width", "        max_text_width", "R14.11")
V("c14-benign-pretty-measure-default", "C14", "rich/pretty.py", "        text_width = (\n            max(cell_len(line) for line in pretty_str.splitlines()) if pretty_str else 0\n        )\n", "        text_width = max((cell_len(line) for line in pretty_str.splitlines()), default=0)\n", None)
V("c07-leading-rows-on-one-line", "C07", "rich/table.py", "                        for _ in range(leading):\n                            yield _Segment(\n                                _box.get_row(widths, \"mid\", edge=show_edge),\n                                border_style,\n                            )\n                            yield new_line\n", "                        yield _Segment(\n                            _box.get_row(widths, \"mid\", edge=show_edge) * leading,\n                            border_style,\n                        )\n                        yield new_line\n", "R7.7")
V("c07-stale-table-width", "C07", "rich/table.py", "            widths = [_range.maximum or 1 for _range in width_ranges]\n            table_width = sum(widths)\n", "            widths = [_range.maximum or 1 for _range in width_ranges]\n", "R7.9")
V("c07-expand-min-width-target", "C07", "rich/table.py", "                if (self.expand or self.min_width is None)\n", "                if self.min_width is None\n", "R7.8")
V("c07-benign-expand-target-if", "C07", "rich/table.py", "            _max_width = (\n                max_width\n                if (self.expand or self.min_width is None)\n                else min(self.min_width - extra_width, max_width)\n            )\n", "            if self.expand or self.min_width is None:\n                _max_width = max_width\n            else:\n                _max_width = min(self.min_width - extra_width, max_width)\n", None)
V("c10-progress-start-leaks-on-raise", "C10", PR, "            try:\n                self.refresh()\n            except BaseException:\n                # __exit__ will not run if __enter__ raises, so undo the above here\n                self._started = False\n                self.console.show_cursor(True)\n                self._disable_redirect_io()\n                self.console.pop_render_hook()\n                raise\n", "            self.refresh()\n", "R10.9")
V("c10-progress-start-handler-forgets-hook", "C10", PR, "                self._disable_redirect_io()\n                self.console.pop_render_hook()\n                raise\n", "                self._disable_redirect_io()\n                raise\n", "R10.9")
V("c10-benign-progress-start-handler-stop", "C10", PR, "                self._started = False\n                self.console.show_cursor(True)\n                self._disable_redirect_io()\n                self.console.pop_render_hook()\n                raise\n", "                self.stop()\n                raise\n", None)
V("c17-range-split-drops-blank", "C17", "rich/syntax.py", "        lines = text.split(\"\\n\", allow_blank=bool(self.line_range))\n", "        lines = text.split(\"\\n\")\n", "R17.9")
V("c17-benign-range-split-allow-blank-var", "C17", "rich/syntax.py", "        lines = text.split(\"\\n\", allow_blank=bool(self.line_range))\n", "        keep_blank = self.line_range is not None\n        lines = text.split(\"\\n\", allow_blank=keep_blank)\n", None)
V("c10-live-stop-line-before-release", "C10", "rich/live.py", "                # flush text pending in the redirected streams while it can still go above the frame\n                self._disable_redirect_io()\n", "", "R10.10")
V("c10-progress-stop-line-before-release", "C10", PR, "                # flush text pending in the redirected streams while it can still go above the frame\n                self._disable_redirect_io()\n", "", "R10.10")
V("c20-config-interpolates", "C20", "rich/theme.py", "configparser.ConfigParser(interpolation=None)", "configparser.ConfigParser()", "R20.7")
V("c20-config-inline-comments", "C20", "rich/theme.py", "configparser.ConfigParser(interpolation=None)", "configparser.ConfigParser(interpolation=None, inline_comment_prefixes=(\"#\", \";\"))", "R20.7")
V("c20-benign-raw-config-parser", "C20", "rich/theme.py", "configparser.ConfigParser(interpolation=None)", "configparser.RawConfigParser()", None)
V("c05-getitem-negative-index", "C05", TX, "            if slice < 0:\n                slice += len(self.plain)\n                if slice < 0:\n                    raise IndexError(\"Text index out of range\")\n", "", "R5.9")
V("c05-getitem-no-base-style", "C05", TX, "                self.plain[offset],\n                style=self.style,\n", "                self.plain[offset],\n", "R5.9")
V("c05-append-text-lazy-self-extend", "C05", TX, "        self._spans.extend(text_spans)\n        self._length += len(text)\n        return self\n\n    def append_tokens", "        self._spans.extend(\n            _Span(start + text_length, end + text_length, style)\n            for start, end, style in text._spans\n        )\n        self._length += len(text)\n        return self\n\n    def append_tokens", "R5.10")
V("c05-benign-getitem-range-normalise", "C05", TX, "            if slice < 0:\n                slice += len(self.plain)\n                if slice < 0:\n                    raise IndexError(\"Text index out of range\")\n            return get_text_at(slice)\n", "            index = range(len(self.plain))[slice]\n            return get_text_at(index)\n", None)
V("c15-styled-export-includes-control", "C15", CONS, "                    for text, style, is_control in self._record_buffer\n                    if not is_control\n", "                    for text, style, _ in self._record_buffer\n", "R15.5")

# ---- round 5 / D35 -----------------------------------------------------------
SY = "rich/syntax.py"
V("c17-guides-resplit-default", "C17", SY, '            lines = guides_text.with_indent_guides(self.tab_size, style=style).split(\n                "\\n", allow_blank=True\n            )\n', '            lines = guides_text.with_indent_guides(self.tab_size, style=style).split("\\n")\n', "R17.10")
V("c17-guides-no-compensation", "C17", SY, '            guides_text.append("\\n")\n', '', "R17.10")
V("c17-guides-empty-selection", "C17", SY, "        if self.indent_guides and not options.ascii_only and lines:\n", "        if self.indent_guides and not options.ascii_only:\n", "R17.10")
V("c17-guides-double-compensation", "C17", SY, '            guides_text.append("\\n")\n', '            guides_text.append("\\n")\n            guides_text.append("\\n")\n', "R17.10")
V("c17-benign-guides-join-extra", "C17", SY, '            guides_text = Text("\\n").join(lines)\n            # with_indent_guides drops one trailing new line\n            guides_text.append("\\n")\n', '            guides_text = Text("\\n").join(lines + [Text()])\n', None)
V("c10-console-exit-conditional", "C10", "rich/console.py", '        """Exit buffer context."""\n        self._exit_buffer()\n', '        """Exit buffer context."""\n        if exc_type is None:\n            self._exit_buffer()\n', "R10.12")
V("c10-status-update-truthy", "C10", "rich/status.py", "        if speed is not None:\n            self.speed = speed\n", "        if speed:\n            self.speed = speed\n", "R10.13")
V("c05-render-dedup-stack", "C05", "rich/text.py", "            styles = tuple(style_map[_style_id] for _style_id in sorted(stack))\n", "            styles = tuple(style_map[_style_id] for _style_id in sorted(set(stack)))\n", "R5.13")
V("c05-render-unsorted-stack", "C05", "rich/text.py", "            styles = tuple(style_map[_style_id] for _style_id in sorted(stack))\n", "            styles = tuple(style_map[_style_id] for _style_id in stack)\n", "R5.13")
V("c19-sgr-params-any", "C19", "rich/ansi.py", r'(?:\x1b\[([0-?]*)m)', r'(?:\x1b\[(.*?)m)', "R19.13")
V("c19-sgr-params-not-m", "C19", "rich/ansi.py", r'(?:\x1b\[([0-?]*)m)', r'(?:\x1b\[([^m]*)m)', "R19.13")
V("c19-benign-sgr-params-digits", "C19", "rich/ansi.py", r'(?:\x1b\[([0-?]*)m)', r'(?:\x1b\[([0-9;:]*)m)', None)
V("c19-sgr-params-no-semicolon", "C19", "rich/ansi.py", r'(?:\x1b\[([0-?]*)m)', r'(?:\x1b\[([0-9]*)m)', "R19.4")
AN = "rich/ansi.py"
V("c19-sgr-branch-truthy", "C19", AN, "            elif sgr is not None:\n", "            elif sgr:\n", "R19.14")
V("c19-sgr-omitted-code-dropped", "C19", AN, "                    if _code.isdecimal() or not _code\n", "                    if _code.isdecimal()\n", "R19.14")
V("c19-token-sgr-default-empty", "C19", AN, "    sgr: Optional[str] = None\n", '    sgr: Optional[str] = ""\n', "R19.14")
V("c19-sgr-omitted-code-one", "C19", AN, 'min(255, int(_code.lstrip("0")[:4] or "0"))', 'min(255, int(_code.lstrip("0")[:4] or "1"))', "R19.14")
V("c19-benign-sgr-omitted-eq", "C19", AN, "                    if _code.isdecimal() or not _code\n", '                    if _code == "" or _code.isdecimal()\n', None)
V("c19-cr-trailing-drops-line", "C19", AN, '        line = line.rstrip("\\r")\n        for token in _ansi_tokenize(line):', '        line = line.rsplit("\\r", 1)[-1]\n        for token in _ansi_tokenize(line):', "R19.15")
V("c19-cr-cuts-escapes", "C19", AN, '        line = line.rstrip("\\r")\n        for token in _ansi_tokenize(line):', '        line = line.rstrip("\\r").rsplit("\\r", 1)[-1]\n        for token in _ansi_tokenize(line):', "R19.15")
V("c19-benign-cr-strip-loop", "C19", AN, '        line = line.rstrip("\\r")\n        for token in _ansi_tokenize(line):', '        while line.endswith("\\r"):\n            line = line[:-1]\n        for token in _ansi_tokenize(line):', None)
V("c06-rgb-name-as-typed", "C06", CO, "            return cls(triplet.rgb, ColorType.TRUECOLOR, triplet=triplet)\n", "            return cls(color, ColorType.TRUECOLOR, triplet=triplet)\n", "R6.11")
V("c06-rgb-name-original", "C06", CO, "            return cls(triplet.rgb, ColorType.TRUECOLOR, triplet=triplet)\n", "            return cls(original_color, ColorType.TRUECOLOR, triplet=triplet)\n", "R6.9")
V("c06-benign-rgb-name-fstring", "C06", CO, "            return cls(triplet.rgb, ColorType.TRUECOLOR, triplet=triplet)\n", '            return cls(f"rgb({triplet.red},{triplet.green},{triplet.blue})", ColorType.TRUECOLOR, triplet=triplet)\n', None)
V("c06-benign-rgb-no-space-regex", "C06", CO, "rgb\\(([\\d\\s,]+)\\)$", "rgb\\(([\\d,]+)\\)$", None)
V("c16-array-typecode-bare", "C16", "rich/pretty.py", 'return (f"array({_object.typecode!r}, [", "])", f"array({_object.typecode!r})")', 'return (f"array({_object.typecode}, [", "])", f"array({_object.typecode})")', "R16.12")
TB = "rich/traceback.py"
V("c17-lexer-guess-unprotected", "C17", TB, '        try:\n            lexer_name = (\n                cls.LEXERS.get(ext) or guess_lexer_for_filename(filename, code).name\n            )\n        except ClassNotFound:\n            lexer_name = "text"\n        return lexer_name\n', '        lexer_name = (\n            cls.LEXERS.get(ext) or guess_lexer_for_filename(filename, code).name\n        )\n        return lexer_name\n', "R17.11")
V("c17-lexer-guess-reraises", "C17", TB, '        except ClassNotFound:\n            lexer_name = "text"\n', '        except ClassNotFound:\n            raise\n', "R17.11")
V("c17-benign-lexer-guess-return", "C17", TB, '        except ClassNotFound:\n            lexer_name = "text"\n        return lexer_name\n', '        except ClassNotFound:\n            return "text"\n        return lexer_name\n', None)

# ---- round 6 ---------------------------------------------------------------------
V("c07-ratio-minimum-fallback-only", "C07", "rich/_ratio.py", "            distributed = max(minimum, ceil(ratio * total_remaining / total_ratio))\n", "            distributed = ceil(ratio * total_remaining / total_ratio) or minimum\n", "R7.16")
V("c07-benign-ratio-minimum-if", "C07", "rich/_ratio.py", "            distributed = max(minimum, ceil(ratio * total_remaining / total_ratio))\n", "            distributed = ceil(ratio * total_remaining / total_ratio)\n            if distributed < minimum:\n                distributed = minimum\n", None)
V("c07-widths-early-return", "C07", "rich/table.py", "        table_width = sum(widths)\n\n        if table_width > max_width:\n            widths = self._collapse_widths(", "        table_width = sum(widths)\n        if self.expand and not self.min_width:\n            return widths\n\n        if table_width > max_width:\n            widths = self._collapse_widths(", "R7.15")
V("c10-final-line-needs-renderable", "C10", "rich/progress.py", "                if self.console.is_terminal:\n                    self.console.line()\n", "                if self.console.is_terminal and self.tasks:\n                    self.console.line()\n", "R10.14")
V("c15-save-text-drops-styles", "C15", "rich/console.py", "        text = self.export_text(clear=clear, styles=styles)\n", "        text = self.export_text(clear=clear)\n", "R15.10")
V("c15-strip-styles-drops-flag", "C15", "rich/segment.py", "            yield cls(text, None, is_control)\n\n    @classmethod\n    def remove_color", "            yield cls(text, None)\n\n    @classmethod\n    def remove_color", "R15.11")
V("c16-islice-truthy-guard", "C16", "rich/pretty.py", "                    iter_values = iter(obj)\n                    if max_length is not None:\n", "                    iter_values = iter(obj)\n                    if max_length:\n", "R16.3")
V("c16-benign-islice-unguarded", "C16", "rich/pretty.py", "                    iter_values = iter(obj)\n                    if max_length is not None:\n                        iter_values = islice(iter_values, max_length)\n", "                    iter_values = islice(iter(obj), max_length)\n", None)

# ---- round 7 ---------------------------------------------------------------------
PN = "rich/panel.py"
V("c08-title-justify-unpinned", "C08", PN, '            title_text.justify = "default"\n', "", "R8.18")
V("c08-benign-title-render-width", "C08", PN, "            yield from console.render(title_text)\n", "            yield from console.render(title_text, options.update(width=width - 4))\n", None)
V("c08-title-tabs-kept", "C08", PN, "            title_text.expand_tabs()\n", "", "R8.17")
V("c01-title-tabs-kept", "C01", PN, "            title_text.expand_tabs()\n", "", "R1.11")
V("c09-title-tabs-kept", "C09", PN, "            title_text.expand_tabs()\n", "", "R9.11")
V("c08-title-newlines-kept", "C08", PN, '            title_text.plain = title_text.plain.replace("\\n", " ")\n', "", "R8.17")
V("c08-align-shape-measured", "C08", "rich/align.py", "        width, height = Segment.get_shape(lines)\n", "        height = len(lines)\n", "R8.8")
V("c05-plain-getter-rebinds", "C05", "rich/text.py", '            self._text[:] = ["".join(self._text)]\n        return self._text[0]', '            self._text = ["".join(self._text)]\n        return self._text[0]', "R5.10")
V("c05-set-length-truncate", "C05", "rich/text.py", "                self.right_crop(length - new_length)\n", "                self.truncate(new_length)\n", "R5.8")
V("c02-wrap-fits-in-chars", "C02", "rich/text.py", "            if no_wrap:\n                new_lines = Lines([line])\n", "            if no_wrap or len(line) <= width:\n                new_lines = Lines([line])\n", "R2.14")
V("c02-benign-wrap-fits-in-cells", "C02", "rich/text.py", "            if no_wrap:\n                new_lines = Lines([line])\n", "            if no_wrap or not line:\n                new_lines = Lines([line])\n", None)
V("c06-eq-null-shortcut", "C06", "rich/style.py", "            return NotImplemented\n        return (\n            self._color == other._color", "            return NotImplemented\n        if self._null or other._null:\n            return self._null and other._null\n        return (\n            self._color == other._color", "R6.1")
V("c04-emoji-fallback-folded", "C04", "rich/_emoji_replace.py", "        return get_emoji(emoji_name.lower(), emoji_code)\n", '        emoji_name = emoji_name.lower()\n        return get_emoji(emoji_name, f":{emoji_name}:")\n', "R4.13")
V("c04-benign-emoji-group0", "C04", "rich/_emoji_replace.py", "        return get_emoji(emoji_name.lower(), emoji_code)\n", "        return get_emoji(emoji_name.lower(), match.group(0))\n", None)
V("c20-pop-guard-inverted", "C20", "rich/theme.py", "        if len(self._entries) == 1:\n            raise ThemeStackError", "        if len(self._entries) != 1:\n            raise ThemeStackError", "R20.4")
V("c07-add-column-no-backfill", "C07", "rich/table.py", '        for _ in self.rows:\n            column._cells.append(Text(""))\n        self.columns.append(column)\n', "        self.columns.append(column)\n", "R7.20")
V("c07-benign-add-column-extend", "C07", "rich/table.py", '        for _ in self.rows:\n            column._cells.append(Text(""))\n        self.columns.append(column)\n', '        column._cells.extend(Text("") for _ in self.rows)\n        self.columns.append(column)\n', None)
V("c07-pad-after-collapse-skipped", "C07", "rich/table.py", "        if (table_width < max_width and self.expand) or (\n", "        elif (table_width < max_width and self.expand) or (\n", "R7.19")
V("c14-columns-count-min", "C14", "rich/columns.py", "            column_count = max(1, (max_width) // (self.width + width_padding))\n", "            column_count = min(len(renderables), max_width // (self.width + width_padding))\n", "R14.10")
V("c18-distance-isqrt", "C18", "rich/palette.py", "from math import sqrt\n", "from math import isqrt as sqrt\n", "R18.8")
V("c17-strip-all-newlines", "C17", "rich/syntax.py", '        text.remove_suffix("\\n")\n', '        text.plain = text.plain.rstrip("\\n")\n', "R17.9")
V("c17-filename-abspath", "C17", "rich/traceback.py", "                        filename = os.path.join(_IMPORT_CWD, filename)\n", "                        filename = os.path.abspath(filename)\n", "R17.8")
V("c16-node-table", "C16", "rich/pretty.py", '                return Node(value_repr="...")\n', '                return _SEEN.setdefault(obj_id, Node(value_repr="..."))\n', "R16.14")
V("c15-capture-truthy", "C15", "rich/console.py", "        if self._result is None:\n            raise CaptureError(", "        if not self._result:\n            raise CaptureError(", "R15.12")
V("c12-reset-keeps-finish-time", "C12", "rich/progress.py", "        self._progress.clear()\n        self.finished_time = None\n", "        self._progress.clear()\n", "R12.3")
V("c10-stderr-proxy-wraps-stdout", "C10", "rich/progress.py", "                sys.stderr = FileProxy(self.console, sys.stderr)\n", "                sys.stderr = FileProxy(self.console, sys.stdout)\n", "R10.15")
V("c10-print-width-unclamped", "C10", "rich/console.py", "                width=min(width, self.width) if width else None,\n", "                width=width if width else None,\n", "R10.16")
V("c04-tag-cache-by-name", "C04", "rich/markup.py", [("    _Tag = Tag\n\n    def pop_style", "    _Tag = Tag\n    tag_cache = {}\n\n    def pop_style"), ("                normalized_tag = _Tag(normalize(tag.name), tag.parameters)\n", "                normalized_tag = tag_cache.get(tag.name)\n                if normalized_tag is None:\n                    normalized_tag = _Tag(normalize(tag.name), tag.parameters)\n                    tag_cache[tag.name] = normalized_tag\n")], None, "R4.12")
PG = "rich/progress.py"
V("c12-start-task-unlocked", "C12", PG, "        with self._lock:\n            task = self._tasks[task_id]\n            if task.start_time is None:\n                task.start_time = self.get_time()\n\n    def stop_task", "        if True:\n            task = self._tasks[task_id]\n            if task.start_time is None:\n                task.start_time = self.get_time()\n\n    def stop_task", "R12.1")
V("c12-tasks-property-unlocked", "C12", PG, "        with self._lock:\n            return list(self._tasks.values())\n", "        if True:\n            return list(self._tasks.values())\n", "R12.1")
V("c12-update-advance-dropped", "C12", PG, "            if advance is not None:\n                task.completed += advance\n", "            if advance is not None:\n                pass\n", "R12.9")
V("c12-update-completed-under-advance", "C12", PG, "            if completed is not None:\n                task.completed = completed\n", "            if completed is not None and advance is not None:\n                task.completed = completed\n", "R12.9")
V("c12-reset-completed-conditional", "C12", PG, "            task.completed = completed\n            if visible is not None:", "            if completed:\n                task.completed = completed\n            if visible is not None:", "R12.9")
TX7 = "rich/text.py"
V("c05-append-text-spans-dropped", "C05", TX7, "        self._text.append(text.plain)\n        self._spans.extend(text_spans)\n        self._length += len(text)\n        return self\n\n    def append_tokens", "        self._text.append(text.plain)\n        self._length += len(text)\n        return self\n\n    def append_tokens", "R5.15")
V("c05-append-tokens-span-dropped", "C05", TX7, "            if style is not None:\n                append_span(_Span(offset, offset + len(content), style))\n", "", "R5.15")
V("c05-append-tokens-span-first-only", "C05", TX7, "            if style is not None:\n                append_span(_Span(offset, offset + len(content), style))\n", "            if style is not None and not self._spans:\n                append_span(_Span(offset, offset + len(content), style))\n", "R5.15")
V("c10-restore-stdout-negated", "C10", "rich/live.py", "        if self._restore_stdout:\n            sys.stdout = self._restore_stdout\n", "        if not self._restore_stdout:\n            sys.stdout = self._restore_stdout\n", "R10.1")
V("c10-restore-stderr-foreign-guard", "C10", PG, "        if self._restore_stderr:\n            sys.stderr = self._restore_stderr\n", "        if self._restore_stdout:\n            sys.stderr = self._restore_stderr\n", "R10.1")
V("c10-pop-hook-noop", "C10", "rich/console.py", "        self._render_hooks.pop()\n", "        self._render_hooks[-1:]\n", "R10.17")
V("c02-line-position-in-chars", "C02", "rich/_wrap.py", "                    if start:\n                        append(start)\n                    line_position = _cell_len(word)\n", "                    if start:\n                        append(start)\n                    line_position = len(word)\n", "R2.4")
V("c02-line-position-in-chars-2", "C02", "rich/_wrap.py", "            elif line_position and start:\n                append(start)\n                line_position = _cell_len(word)\n", "            elif line_position and start:\n                append(start)\n                line_position = len(word)\n", "R2.4")
V("c10-live-transient-negated", "C10", "rich/live.py", "            if self.transient:\n                self.console.control(self._live_render.restore_cursor())\n", "            if not self.transient:\n                self.console.control(self._live_render.restore_cursor())\n", "R10.18")
V("c10-liverender-height-min", "C10", "rich/live_render.py", "                max(height1, height2),\n", "                min(height1, height2),\n", "R10.2")
V("c05-align-no-truncate", "C05", TX7, "        self.truncate(width)\n        excess_space = width - cell_len(self.plain)\n", "        excess_space = width - cell_len(self.plain)\n", "R5.8")
V("c05-getitem-zero-wraps", "C05", TX7, "            if slice < 0:\n                slice += len(self.plain)\n", "            if slice <= 0:\n                slice += len(self.plain)\n", "R5.9")
V("c19-cr-test-negated", "C19", AN, '                if "\\r" in plain_text:\n', '                if "\\r" not in plain_text:\n', "R19.15")
V("c19-cr-rsplit-swapped", "C19", AN, '                    plain_text = plain_text.rsplit("\\r", 1)[-1]\n', '                    plain_text = plain_text.rsplit("\\r", 1)[0]\n', "R19.15")

# ---- round 8 ---------------------------------------------------------------------
V("c04-param-split-all", "C04", "rich/markup.py", '        text, equals, parameters = tag_text.partition("=")\n        yield start, None, _Tag(text, parameters if equals else None)\n', '        text, *parameters = tag_text.split("=")\n        yield start, None, _Tag(text, parameters[0] if parameters else None)\n', "R4.8")
V("c04-benign-param-split-once", "C04", "rich/markup.py", '        text, equals, parameters = tag_text.partition("=")\n        yield start, None, _Tag(text, parameters if equals else None)\n', '        text, *parameters = tag_text.split("=", 1)\n        yield start, None, _Tag(text, parameters[0] if parameters else None)\n', None)
V("c19-print-if-output", "C19", "rich/file_proxy.py", "                console.print(output, markup=False, emoji=False, highlight=False)\n        return len(text)", "                if output:\n                    console.print(output, markup=False, emoji=False, highlight=False)\n        return len(text)", "R19.5")
V("c13-crop-no-break", "C13", "rich/segment.py", "                    append(cls(text, segment_style))\n                    break\n        else:\n            new_line = line[:]", "                    append(cls(text, segment_style))\n        else:\n            new_line = line[:]", "R13.5")
V("c01-crop-no-break", "C01", "rich/segment.py", "                    append(cls(text, segment_style))\n                    break\n        else:\n            new_line = line[:]", "                    append(cls(text, segment_style))\n        else:\n            new_line = line[:]", "R1.13")
V("c12-percentage-finished-constant", "C12", PG, "        if not self.total:\n            return 0.0\n        completed = (self.completed / self.total) * 100.0\n", "        if not self.total:\n            return 0.0\n        if self.finished_time is not None:\n            return 100.0\n        completed = (self.completed / self.total) * 100.0\n", "R12.4")
V("c03-grey-round-half-up", "C03", "rich/color.py", "                gray = round(l * 25.0)\n", "                gray = int(l * 25.0 + 0.5)\n", "R3.14")
V("c18-grey-round-half-up", "C18", "rich/color.py", "                gray = round(l * 25.0)\n", "                gray = int(l * 25.0 + 0.5)\n", "R18.10")
V("c07-tabs-after-divide", "C07", "rich/text.py", '            if "\\t" in line:\n                line.expand_tabs(tab_size)\n            if no_wrap:\n                new_lines = Lines([line])\n            else:\n                offsets = divide_line(str(line), width, fold=wrap_overflow == "fold")\n                new_lines = line.divide(offsets)\n            for line in new_lines:\n', '            if no_wrap:\n                new_lines = Lines([line])\n            else:\n                offsets = divide_line(str(line), width, fold=wrap_overflow == "fold")\n                new_lines = line.divide(offsets)\n            for line in new_lines:\n                if "\\t" in line:\n                    line.expand_tabs(tab_size)\n', "R7.21")
V("c05-append-length-in-cells", "C05", TX7, "                offset = len(self)\n                text_length = len(text)\n", "                offset = len(self)\n                text_length = cell_len(text)\n", "R5.1")
V("c05-append-text-length-in-cells", "C05", TX7, "        self._text.append(text.plain)\n        self._spans.extend(text_spans)\n        self._length += len(text)\n        return self\n\n    def append_tokens", "        self._text.append(text.plain)\n        self._spans.extend(text_spans)\n        self._length += cell_len(text.plain)\n        return self\n\n    def append_tokens", "R5.1")
