"""Statement-level control-flow graph with exceptional edges, dominance, reachability and
reaching definitions.  Finally blocks are copied per continuation kind (normal / exception /
return / break / continue) so path queries are not blurred by merged continuations.
"""
from __future__ import annotations

import ast
from typing import Callable, Dict, Iterable, List, Optional, Set, Tuple

from .index import AnalysisError, norm, walk_local

MUTATOR_METHODS = {
    "append", "extend", "insert", "pop", "clear", "sort", "reverse", "remove", "update",
    "add", "discard", "setdefault", "popitem", "appendleft", "popleft",
}


class Node:
    __slots__ = ("id", "kind", "stmt", "tag", "expr")

    def __init__(self, id: int, kind: str, stmt=None, tag: str = "", expr=None):
        self.id = id
        self.kind = kind  # entry exit raise stmt test for with with_exit dispatch except finally join
        self.stmt = stmt
        self.tag = tag
        self.expr = expr  # expression evaluated at this node (for test/for/with)

    @property
    def lineno(self) -> int:
        return getattr(self.stmt, "lineno", 0) if self.stmt is not None else 0

    def __repr__(self):
        t = ""
        if self.stmt is not None:
            if self.kind in ("test",):
                t = "if " + norm(self.expr)
            elif self.kind == "for":
                t = "for " + norm(self.stmt.target) + " in " + norm(self.stmt.iter)
            elif self.kind == "with":
                t = "with " + ", ".join(norm(i) for i in self.stmt.items)
            elif self.kind == "except":
                t = "except " + (norm(self.stmt.type) if self.stmt.type else "")
            elif self.kind == "stmt":
                t = norm(self.stmt).split("\n")[0]
            else:
                t = self.kind
        else:
            t = self.kind
        tag = f"[{self.tag}]" if self.tag else ""
        return f"L{self.lineno}:{self.kind}{tag}: {t[:80]}"


def default_may_raise(node: Node) -> bool:
    """Conservative: a node may raise if it evaluates a call, subscript, yield, raise, assert, import."""
    if node.kind in ("entry", "exit", "raise", "join", "dispatch", "except", "finally", "with_exit"):
        return False
    st = node.stmt
    if st is None:
        return False
    if node.kind == "stmt":
        if isinstance(st, (ast.Raise, ast.Assert, ast.Import, ast.ImportFrom)):
            return True
        if isinstance(st, (ast.FunctionDef, ast.AsyncFunctionDef, ast.ClassDef, ast.Pass, ast.Break, ast.Continue, ast.Global, ast.Nonlocal)):
            return False
        roots = [st]
    elif node.kind in ("test",):
        roots = [node.expr]
    elif node.kind == "for":
        return True  # iteration calls __next__
    elif node.kind == "with":
        return True
    else:
        roots = [st]
    for r in roots:
        for n in ast.walk(r):
            if isinstance(n, (ast.Call, ast.Subscript, ast.Yield, ast.YieldFrom, ast.Await)):
                return True
            if isinstance(n, ast.BinOp) and isinstance(n.op, (ast.Div, ast.FloorDiv, ast.Mod)):
                return True
            if isinstance(n, (ast.Lambda,)):
                continue
    return False


class _Ctx:
    def __init__(self, exc: Callable[[], int], ret: Callable[[], int], brk=None, cont=None):
        self.exc = exc
        self.ret = ret
        self.brk = brk
        self.cont = cont


class CFG:
    def __init__(self, fn_node, may_raise: Callable[[Node], bool] = default_may_raise):
        self.fn = fn_node
        self.may_raise = may_raise
        self.nodes: List[Node] = []
        self.succ: Dict[int, List[int]] = {}
        self.pred: Dict[int, List[int]] = {}
        self.label: Dict[Tuple[int, int], object] = {}
        self.entry = self._new("entry").id
        self.exit = self._new("exit").id
        self.rexit = self._new("raise").id
        ctx = _Ctx(lambda: self.rexit, lambda: self.exit)
        fr = self._block(fn_node.body, [(self.entry, None)], ctx)
        self._connect(fr, self.exit)
        self._by_stmt: Dict[int, List[int]] = {}
        for n in self.nodes:
            if n.stmt is not None:
                self._by_stmt.setdefault(id(n.stmt), []).append(n.id)
        self._prune_unreachable()

    # -- construction ---------------------------------------------------
    def _new(self, kind, stmt=None, tag="", expr=None) -> Node:
        n = Node(len(self.nodes), kind, stmt, tag, expr)
        self.nodes.append(n)
        self.succ[n.id] = []
        self.pred[n.id] = []
        return n

    def _edge(self, a: int, b: int, label=None) -> None:
        if b not in self.succ[a]:
            self.succ[a].append(b)
            self.pred[b].append(a)
        if label is not None or (a, b) not in self.label:
            self.label[(a, b)] = label

    def _connect(self, frontier, b: int) -> None:
        for a, lab in frontier:
            self._edge(a, b, lab)

    def _raise_edge(self, node: Node, ctx: _Ctx, force: bool = False) -> None:
        if force or self.may_raise(node):
            self._edge(node.id, ctx.exc(), "exc")

    def _block(self, stmts, frontier, ctx: _Ctx, tag: str = ""):
        for st in stmts:
            frontier = self._stmt(st, frontier, ctx, tag)
        return frontier

    @staticmethod
    def _const_true(e) -> bool:
        return isinstance(e, ast.Constant) and bool(e.value) is True

    def _stmt(self, st, frontier, ctx: _Ctx, tag: str):
        if isinstance(st, ast.If):
            t = self._new("test", st, tag, st.test)
            self._connect(frontier, t.id)
            self._raise_edge(t, ctx)
            f1 = self._block(st.body, [(t.id, True)], ctx, tag)
            f2 = self._block(st.orelse, [(t.id, False)], ctx, tag)
            return f1 + f2
        if isinstance(st, ast.While):
            t = self._new("test", st, tag, st.test)
            self._connect(frontier, t.id)
            self._raise_edge(t, ctx)
            after = self._new("join", st, tag)
            lctx = _Ctx(ctx.exc, ctx.ret, lambda: after.id, lambda: t.id)
            fb = self._block(st.body, [(t.id, True)], lctx, tag)
            self._connect(fb, t.id)
            if not self._const_true(st.test):
                fe = self._block(st.orelse, [(t.id, False)], ctx, tag)
                self._connect(fe, after.id)
            return [(after.id, None)]
        if isinstance(st, (ast.For, ast.AsyncFor)):
            h = self._new("for", st, tag, st.iter)
            self._connect(frontier, h.id)
            self._raise_edge(h, ctx)
            after = self._new("join", st, tag)
            lctx = _Ctx(ctx.exc, ctx.ret, lambda: after.id, lambda: h.id)
            fb = self._block(st.body, [(h.id, True)], lctx, tag)
            self._connect(fb, h.id)
            fe = self._block(st.orelse, [(h.id, False)], ctx, tag)
            self._connect(fe, after.id)
            return [(after.id, None)]
        if isinstance(st, (ast.With, ast.AsyncWith)):
            w = self._new("with", st, tag)
            self._connect(frontier, w.id)
            self._raise_edge(w, ctx)
            swallow = any("suppress" in norm(i.context_expr) for i in st.items)
            wx_exc: Dict[str, int] = {}
            after_holder: List[int] = []

            def exc_target():
                if "exc" not in wx_exc:
                    n = self._new("with_exit", st, (tag + " exc").strip())
                    wx_exc["exc"] = n.id
                    self._edge(n.id, ctx.exc(), "exc")
                    if swallow:
                        after_holder.append(n.id)
                return wx_exc["exc"]

            def ret_target():
                if "ret" not in wx_exc:
                    n = self._new("with_exit", st, (tag + " ret").strip())
                    wx_exc["ret"] = n.id
                    self._edge(n.id, ctx.ret(), None)
                return wx_exc["ret"]

            def brk_target():
                if "brk" not in wx_exc:
                    n = self._new("with_exit", st, (tag + " brk").strip())
                    wx_exc["brk"] = n.id
                    self._edge(n.id, ctx.brk(), None)
                return wx_exc["brk"]

            def cont_target():
                if "cont" not in wx_exc:
                    n = self._new("with_exit", st, (tag + " cont").strip())
                    wx_exc["cont"] = n.id
                    self._edge(n.id, ctx.cont(), None)
                return wx_exc["cont"]

            wctx = _Ctx(exc_target, ret_target, brk_target if ctx.brk else None, cont_target if ctx.cont else None)
            fb = self._block(st.body, [(w.id, None)], wctx, tag)
            wx = self._new("with_exit", st, tag)
            self._connect(fb, wx.id)
            out = [(wx.id, None)]
            for a in after_holder:
                out.append((a, "swallowed"))
            return out
        if isinstance(st, ast.Try) or st.__class__.__name__ == "TryStar":
            return self._try(st, frontier, ctx, tag)
        if isinstance(st, ast.Return):
            n = self._new("stmt", st, tag)
            self._connect(frontier, n.id)
            self._raise_edge(n, ctx)
            self._edge(n.id, ctx.ret(), None)
            return []
        if isinstance(st, ast.Raise):
            n = self._new("stmt", st, tag)
            self._connect(frontier, n.id)
            self._edge(n.id, ctx.exc(), "exc")
            return []
        if isinstance(st, ast.Break):
            n = self._new("stmt", st, tag)
            self._connect(frontier, n.id)
            if ctx.brk is None:
                raise AnalysisError("break outside loop")
            self._edge(n.id, ctx.brk(), None)
            return []
        if isinstance(st, ast.Continue):
            n = self._new("stmt", st, tag)
            self._connect(frontier, n.id)
            if ctx.cont is None:
                raise AnalysisError("continue outside loop")
            self._edge(n.id, ctx.cont(), None)
            return []
        if st.__class__.__name__ == "Match":
            raise AnalysisError("match statement not supported by the CFG builder")
        n = self._new("stmt", st, tag)
        self._connect(frontier, n.id)
        self._raise_edge(n, ctx)
        return [(n.id, None)]

    def _try(self, st, frontier, ctx: _Ctx, tag: str):
        has_finally = bool(st.finalbody)
        fin_copies: Dict[str, int] = {}

        def fin(kind: str, outer_target: Callable[[], int], label=None) -> int:
            """Entry of the finally copy for continuation `kind`."""
            if kind not in fin_copies:
                e = self._new("finally", st, (tag + " fin:" + kind).strip())
                fin_copies[kind] = e.id
                fr = self._block(st.finalbody, [(e.id, None)], ctx, (tag + " fin:" + kind).strip())
                tgt = outer_target()
                for a, lab in fr:
                    self._edge(a, tgt, label if label is not None else lab)
            return fin_copies[kind]

        if has_finally:
            o_exc = lambda: fin("exc", ctx.exc, "exc")
            o_ret = lambda: fin("ret", ctx.ret)
            o_brk = (lambda: fin("brk", ctx.brk)) if ctx.brk else None
            o_cont = (lambda: fin("cont", ctx.cont)) if ctx.cont else None
        else:
            o_exc, o_ret, o_brk, o_cont = ctx.exc, ctx.ret, ctx.brk, ctx.cont
        outer = _Ctx(o_exc, o_ret, o_brk, o_cont)

        if st.handlers:
            disp_holder: List[int] = []

            def disp() -> int:
                if not disp_holder:
                    d = self._new("dispatch", st, tag)
                    disp_holder.append(d.id)
                return disp_holder[0]

            body_ctx = _Ctx(disp, o_ret, o_brk, o_cont)
        else:
            body_ctx = outer
        fb = self._block(st.body, frontier, body_ctx, tag)
        out = []
        # else clause runs after normal completion of body, outside the handlers
        fe = self._block(st.orelse, fb, outer, tag) if st.orelse else fb
        out += fe
        if st.handlers and disp_holder:
            d = disp_holder[0]
            catch_all = False
            for h in st.handlers:
                hn = self._new("except", h, tag)
                self._edge(d, hn.id, norm(h.type) if h.type is not None else "BaseException")
                fh = self._block(h.body, [(hn.id, None)], outer, tag)
                out += fh
                if h.type is None or norm(h.type) in ("BaseException",):
                    catch_all = True
            if not catch_all:
                self._edge(d, outer.exc(), "exc")
        if has_finally:
            e = self._new("finally", st, (tag + " fin:normal").strip())
            self._connect(out, e.id)
            fr = self._block(st.finalbody, [(e.id, None)], ctx, (tag + " fin:normal").strip())
            return fr
        return out

    def _prune_unreachable(self) -> None:
        seen = {self.entry}
        stack = [self.entry]
        while stack:
            a = stack.pop()
            for b in self.succ[a]:
                if b not in seen:
                    seen.add(b)
                    stack.append(b)
        self.reachable = seen
        for a in list(self.succ):
            if a not in seen:
                for b in self.succ[a]:
                    if a in self.pred[b]:
                        self.pred[b].remove(a)
                self.succ[a] = []

    # -- queries ---------------------------------------------------------
    def nodes_of(self, stmt) -> List[int]:
        """CFG nodes (all copies) for an AST statement."""
        return [i for i in self._by_stmt.get(id(stmt), []) if i in self.reachable]

    def stmt_nodes(self) -> Iterable[Node]:
        for n in self.nodes:
            if n.id in self.reachable:
                yield n

    def find(self, pred: Callable[[Node], bool]) -> List[int]:
        return [n.id for n in self.nodes if n.id in self.reachable and pred(n)]

    def reach(self, starts: Iterable[int], avoid: Set[int] = frozenset(), forward: bool = True, skip_labels: Set = frozenset()) -> Set[int]:
        """Nodes reachable from `starts` (exclusive of starts unless re-reached) without passing through `avoid`."""
        seen: Set[int] = set()
        stack = list(starts)
        adj = self.succ if forward else self.pred
        while stack:
            a = stack.pop()
            for b in adj[a]:
                if skip_labels:
                    lab = self.label.get((a, b) if forward else (b, a))
                    if lab in skip_labels:
                        continue
                if b in seen or b in avoid:
                    continue
                seen.add(b)
                stack.append(b)
        return seen

    def path(self, start: int, targets: Set[int], avoid: Set[int] = frozenset()) -> Optional[List[int]]:
        """A shortest path start -> any target avoiding `avoid` (for reports)."""
        from collections import deque

        prev = {start: None}
        dq = deque([start])
        while dq:
            a = dq.popleft()
            for b in self.succ[a]:
                if b in prev or b in avoid:
                    continue
                prev[b] = a
                if b in targets:
                    out = [b]
                    while out[-1] is not None and prev[out[-1]] is not None:
                        out.append(prev[out[-1]])
                    return list(reversed(out))
                dq.append(b)
        return None

    def describe_path(self, p: List[int]) -> List[str]:
        return [repr(self.nodes[i]) for i in p]

    def must_pass(self, start: int, through: Set[int], exits: Optional[Set[int]] = None) -> Optional[List[int]]:
        """None if every path start -> exits passes through a node of `through`; otherwise a witness path."""
        exits = exits if exits is not None else {self.exit, self.rexit}
        if start in through:
            return None
        return self.path(start, set(exits), avoid=set(through)) if start not in exits else [start]

    def dominators(self) -> Dict[int, Set[int]]:
        nodes = [n for n in self.reachable]
        allset = set(nodes)
        dom = {n: set(allset) for n in nodes}
        dom[self.entry] = {self.entry}
        changed = True
        order = sorted(nodes)
        while changed:
            changed = False
            for n in order:
                if n == self.entry:
                    continue
                ps = [p for p in self.pred[n] if p in allset]
                if not ps:
                    new = {n}
                else:
                    new = set.intersection(*(dom[p] for p in ps)) | {n}
                if new != dom[n]:
                    dom[n] = new
                    changed = True
        return dom

    def dominated_by(self, node: int, doms: Set[int]) -> bool:
        """True if every path entry -> node passes through one of `doms`."""
        if node in doms:
            return True
        r = self.reach([self.entry], avoid=set(doms))
        return node not in r and node != self.entry

    # -- edge-condition facts --------------------------------------------
    def branch_facts(self, node: int) -> List[Tuple[ast.AST, bool]]:
        """(test expression, truth) pairs that hold on *every* path from entry to `node`.

        A fact (t, v) holds if removing the edge(s) labelled v out of test node t makes `node`
        unreachable, i.e. every path takes that edge.
        """
        facts = []
        for n in self.nodes:
            if n.id not in self.reachable or n.kind != "test":
                continue
            for v in (True, False):
                edges = [(n.id, b) for b in self.succ[n.id] if self.label.get((n.id, b)) is v]
                if not edges:
                    continue
                # reachability without those edges
                seen = {self.entry}
                stack = [self.entry]
                ok = True
                while stack:
                    a = stack.pop()
                    for b in self.succ[a]:
                        if (a, b) in edges:
                            continue
                        if b not in seen:
                            seen.add(b)
                            stack.append(b)
                if node not in seen:
                    facts.append((n.expr, v))
        return facts

    # -- reaching definitions --------------------------------------------
    def defs_at(self, n: Node, weak: bool = True) -> Tuple[Set[str], Set[str]]:
        """(strong defs, weak defs) of local names at node n."""
        strong: Set[str] = set()
        weakd: Set[str] = set()

        def targets(t):
            if isinstance(t, ast.Name):
                strong.add(t.id)
            elif isinstance(t, (ast.Tuple, ast.List)):
                for e in t.elts:
                    targets(e)
            elif isinstance(t, ast.Starred):
                targets(t.value)
            elif isinstance(t, (ast.Subscript, ast.Attribute)) and weak:
                base = t.value
                while isinstance(base, (ast.Subscript, ast.Attribute)):
                    base = base.value
                if isinstance(base, ast.Name) and isinstance(t, ast.Subscript):
                    weakd.add(base.id)

        st = n.stmt
        if n.kind == "entry":
            a = self.fn.args
            for x in a.posonlyargs + a.args + a.kwonlyargs:
                strong.add(x.arg)
            if a.vararg:
                strong.add(a.vararg.arg)
            if a.kwarg:
                strong.add(a.kwarg.arg)
            return strong, weakd
        if st is None:
            return strong, weakd
        roots: List[ast.AST] = []
        if n.kind == "for":
            targets(st.target)
            roots = [st.iter]
        elif n.kind == "with":
            for i in st.items:
                if i.optional_vars is not None:
                    targets(i.optional_vars)
            roots = [i.context_expr for i in st.items]
        elif n.kind == "except":
            if st.name:
                strong.add(st.name)
        elif n.kind == "test":
            roots = [n.expr]
        elif n.kind == "stmt":
            if isinstance(st, ast.Assign):
                for t in st.targets:
                    targets(t)
                roots = [st.value]
            elif isinstance(st, ast.AnnAssign):
                if st.value is not None:
                    targets(st.target)
                    roots = [st.value]
            elif isinstance(st, ast.AugAssign):
                targets(st.target)
                roots = [st.value]
            elif isinstance(st, (ast.FunctionDef, ast.AsyncFunctionDef, ast.ClassDef)):
                strong.add(st.name)
            elif isinstance(st, (ast.Import, ast.ImportFrom)):
                for a in st.names:
                    strong.add((a.asname or a.name).split(".")[0])
            elif isinstance(st, ast.Delete):
                for t in st.targets:
                    if isinstance(t, ast.Name):
                        strong.add(t.id)
                    else:
                        targets(t)
            else:
                roots = [st]
        for r in roots:
            for x in ast.walk(r):
                if isinstance(x, ast.NamedExpr) and isinstance(x.target, ast.Name):
                    strong.add(x.target.id)
                if weak and isinstance(x, ast.Call) and isinstance(x.func, ast.Attribute) and x.func.attr in MUTATOR_METHODS:
                    base = x.func.value
                    if isinstance(base, ast.Name):
                        weakd.add(base.id)
        if weak and n.kind == "stmt" and isinstance(st, ast.Expr):
            pass
        return strong, weakd

    def reaching_defs(self, weak: bool = True) -> Dict[int, Dict[str, Set[int]]]:
        """IN sets: node -> name -> set of defining node ids."""
        gen: Dict[int, Tuple[Set[str], Set[str]]] = {}
        for n in self.nodes:
            if n.id in self.reachable:
                gen[n.id] = self.defs_at(n, weak)
        IN: Dict[int, Dict[str, Set[int]]] = {i: {} for i in gen}
        OUT: Dict[int, Dict[str, Set[int]]] = {i: {} for i in gen}
        work = sorted(gen)
        inwork = set(work)
        while work:
            i = work.pop(0)
            inwork.discard(i)
            newin: Dict[str, Set[int]] = {}
            for p in self.pred[i]:
                if p not in OUT:
                    continue
                for k, v in OUT[p].items():
                    newin.setdefault(k, set()).update(v)
            IN[i] = newin
            strong, weakd = gen[i]
            out = {k: set(v) for k, v in newin.items()}
            for k in strong:
                out[k] = {i}
            for k in weakd:
                if k not in strong:
                    out.setdefault(k, set()).add(i)
            if out != OUT[i]:
                OUT[i] = out
                for s in self.succ[i]:
                    if s in gen and s not in inwork:
                        work.append(s)
                        inwork.add(s)
        self.rd_out = OUT
        return IN


def build(fn_node, may_raise: Callable[[Node], bool] = default_may_raise) -> CFG:
    return CFG(fn_node, may_raise)


def names_loaded(expr: ast.AST) -> Set[str]:
    return {n.id for n in ast.walk(expr) if isinstance(n, ast.Name) and isinstance(n.ctx, ast.Load)}
