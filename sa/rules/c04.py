"""C04 Markup styles exactly the tagged regions, and escape() neutralises any text."""
from __future__ import annotations

import ast
from typing import List, Optional

from .. import cfg as cfgmod
from .. import regexast
from ..astutil import alias_map, call_name, const_int, default_args, expand_alias, fstring_parts
from ..index import AnalysisError, AnchorVanished, norm, short, walk_local

LEVEL = "other"
UNDECIDED = [
    "the regex's matching behaviour on all strings (which '[' starts a tag, backslash runs that are not directly before a tag)",
    "per-character equality of the rendered text with the input minus tags; emoji replacement interaction",
    "escape(s) for s ending in a backslash / unbalanced '[' (excluded by the property itself)",
]
TRUSTED = ["CPython ast parser and re._parser (regex ASTs)", "list.pop / divmod / str.partition semantics", "Text.render applies spans in list order, later spans winning (C05 mechanism)"]


def _regexes(ctx):
    m = ctx.repo.mod("markup")
    tags = regexast.compile_call(m.global_assign("RE_TAGS"))
    esc_fn = m.fn("escape")
    d = default_args(esc_fn.node)
    esc = None
    for k, v in d.items():
        c = regexast.compile_call(v)
        if c is not None:
            esc = (k, c, v)
    if tags is None or esc is None:
        raise AnchorVanished("RE_TAGS / escape()'s regex literal not found in markup.py")
    return m, tags, esc_fn, esc


def r4_1(ctx):
    ctx.rule("R4.1", "escape() and the tokenizer agree on what a tag is: the regex bound to escape's default argument and RE_TAGS have the same normal form once capture groups are flattened; group arities match their unpack sites; the replacement doubles the backslashes and adds exactly one; the tokenizer halves them (divmod by 2) and treats an odd count as an escape")
    m, tags, esc_fn, (esc_name, esc, esc_default) = _regexes(ctx)
    sp_t, sp_e = regexast.parse_call(tags), regexast.parse_call(esc)
    nf_t, nf_e = regexast.normal_form(sp_t), regexast.normal_form(sp_e)
    ctx.check(nf_t == nf_e, "markup:RE_TAGS", f"RE_TAGS={tags.args[0].value.strip()!r} vs escape={esc.args[0].value!r}", f"{m.relpath}:{tags.lineno}",
              f"both regexes reduce to the same token sequence ({len(nf_t)} tokens)",
              f"the tokenizer regex and escape()'s regex differ ({nf_t} vs {nf_e}): some text that render() treats as a tag is not escaped by escape() (or vice versa), so render(escape(s)) != s")
    # arities
    parse = m.fn("_parse")
    for n in walk_local(parse.node):
        if isinstance(n, ast.Assign) and isinstance(n.targets[0], ast.Tuple) and norm(n.value) == "match.groups()":
            k = len(n.targets[0].elts)
            ctx.check(k == regexast.group_count(sp_t), parse.fq, norm(n), f"{m.relpath}:{n.lineno}", f"_parse unpacks {k} groups of RE_TAGS", f"_parse unpacks {k} names from match.groups() but RE_TAGS has {regexast.group_count(sp_t)} groups (ValueError on every tag)")
    inner = m.functions.get("escape.<locals>.escape_backslashes")
    if inner is None:
        raise AnchorVanished("escape.<locals>.escape_backslashes not found")
    names = None
    for n in walk_local(inner.node):
        if isinstance(n, ast.Assign) and isinstance(n.targets[0], ast.Tuple) and norm(n.value).endswith(".groups()"):
            names = [norm(e) for e in n.targets[0].elts]
            ctx.check(len(names) == regexast.group_count(sp_e), inner.fq, norm(n), f"{m.relpath}:{n.lineno}", f"escape unpacks {len(names)} groups", f"escape_backslashes unpacks {len(names)} names but its regex has {regexast.group_count(sp_e)} groups")
    rets = [r for r in walk_local(inner.node) if isinstance(r, ast.Return)]
    ok = False
    if names and len(names) == 2 and len(rets) == 1:
        parts = fstring_parts(rets[0].value)
        if parts is not None:
            flat = [(norm(p[1]) if isinstance(p, tuple) else p) for p in parts]
            ok = flat == [names[0], names[0], "\\", names[1]]
    ctx.check(ok, inner.fq, norm(rets[0]) if rets else "?", inner.where, "replacement = backslashes*2 + one backslash + tag text",
              "escape()'s replacement is not `2 x existing backslashes + '\\' + tag`: the tokenizer's parity rule no longer sees an odd count")
    # the group-1 subpattern of both is the backslash run directly before '['
    # tokenizer parity
    dm = None
    aliases = alias_map(parse.node)
    for n in walk_local(parse.node):
        if isinstance(n, ast.Assign) and isinstance(n.value, ast.Call) and norm(expand_alias(n.value.func, aliases)) == "divmod" and isinstance(n.targets[0], ast.Tuple):
            dm = n
    if dm is None:
        raise AnchorVanished("_parse: divmod(len(escapes), 2) not found")
    okd = const_int(dm.value.args[1]) == 2 and norm(dm.value.args[0]).startswith("len(")
    q, r = (norm(e) for e in dm.targets[0].elts)
    ctx.check(okd, parse.fq, norm(dm), f"{m.relpath}:{dm.lineno}", "backslash run split into pairs and a remainder", "the backslash run is not divided by 2: escaped backslashes / escaped tags are miscounted")
    src = norm(parse.node)
    ctx.check(f"'\\\\' * {q}" in src and f"if {r}:" in src, parse.fq, "literal backslashes / escape branch", parse.where, "emits one backslash per pair; an odd remainder makes the tag literal",
              "the tokenizer no longer emits one backslash per pair and a literal tag for an odd remainder")
    # literal tag text = full match minus the backslashes
    ctx.check("full_text[len(escapes):]" in src, parse.fq, "full_text[len(escapes):]", parse.where, "an escaped tag is emitted verbatim without its backslashes", "an escaped tag is not emitted as the matched text minus the backslash run")


def r4_2(ctx):
    ctx.rule("R4.2", "MarkupError exactly when a closing tag has nothing to close: its only raise sites are the handlers converting the failed pop (KeyError from the by-name pop, IndexError from the top pop); both pops sit inside those try bodies; the by-name pop scans from the top of the stack and removes that entry")
    m = ctx.repo.mod("markup")
    render = m.fn("render")
    raises = []
    for f in m.functions.values():
        for n in walk_local(f.node):
            if isinstance(n, ast.Raise) and n.exc is not None and "MarkupError" in norm(n.exc):
                raises.append((f, n))
    ctx.floor(len(raises), 1, "raise MarkupError sites")
    aliases = alias_map(render.node)
    for f, r in raises:
        h = None
        cur = m.parent_of.get(r)
        while cur is not None:
            if isinstance(cur, ast.ExceptHandler):
                h = cur
                break
            cur = m.parent_of.get(cur)
        where = f"{m.relpath}:{r.lineno}"
        if h is None:
            ctx.violation(f.fq, short(r), where, "MarkupError raised outside the handlers that convert a failed pop: it is raised for something other than a closing tag with nothing to close")
            continue
        tr = m.parent_of.get(h)
        body_calls = [norm(expand_alias(c.func, aliases)) for s in tr.body for c in ast.walk(s) if isinstance(c, ast.Call)]
        ht = norm(h.type) if h.type is not None else "BaseException"
        if ht == "KeyError":
            ok = any(c == "pop_style" for c in body_calls)
        elif ht == "IndexError":
            ok = any(c == "style_stack.pop" for c in body_calls)
        else:
            ok = False
        ctx.check(ok, f.fq, f"except {ht}: {short(r, 50)}", where, f"{ht} from the pop in this try is converted to MarkupError",
                  f"handler `except {ht}` does not wrap the pop that raises it ({body_calls}): a failed close escapes as {ht} or MarkupError is raised spuriously")
    # every pop of the style stack inside render's tag loop is inside a try with the right handler
    for n in walk_local(render.node):
        if isinstance(n, ast.Call):
            cn = norm(expand_alias(n.func, aliases))
            if cn in ("pop_style", "style_stack.pop") and not n.args == [] or cn == "pop_style":
                pass
            if cn not in ("pop_style", "style_stack.pop"):
                continue
            # skip the drain loop after the token loop (guarded by `while style_stack`)
            anc = list(_ancestors(m, n, render.node))
            if any(isinstance(a, ast.While) and norm(a.test) == "style_stack" for a in anc):
                continue
            tr = next((a for a in anc if isinstance(a, ast.Try)), None)
            want = "KeyError" if cn == "pop_style" else "IndexError"
            ok = tr is not None and any(h.type is not None and norm(h.type) == want for h in tr.handlers) and any(n in list(ast.walk(s)) for s in tr.body)
            ctx.check(ok, render.fq, short(n), f"{m.relpath}:{n.lineno}", f"pop inside try/except {want}", f"`{short(n)}` is not inside a try that converts {want}: a closing tag with nothing to close raises {want} instead of MarkupError")
    # pop_style scans from the top
    ps = m.functions.get("render.<locals>.pop_style")
    if ps is None:
        raise AnchorVanished("render.<locals>.pop_style not found")
    loops = [n for n in walk_local(ps.node) if isinstance(n, ast.For)]
    ok = False
    detail = "no loop"
    for lp in loops:
        it = lp.iter
        detail = norm(it)
        if isinstance(it, ast.Call) and call_name(it) == "enumerate" and it.args and isinstance(it.args[0], ast.Call) and call_name(it.args[0]) == "reversed" and norm(it.args[0].args[0]) == "style_stack":
            start = const_int(it.args[1]) if len(it.args) > 1 else 0
            idx = norm(lp.target.elts[0]) if isinstance(lp.target, ast.Tuple) else None
            rets = [r for r in ast.walk(lp) if isinstance(r, ast.Return)]
            for r in rets:
                v = r.value
                if isinstance(v, ast.Call) and norm(expand_alias(v.func, aliases)) in ("style_stack.pop", "pop") and v.args:
                    a = v.args[0]
                    if start == 1 and norm(a) == f"-{idx}":
                        ok = True
                    if start == 0 and norm(a) in (f"-{idx} - 1", f"-({idx} + 1)", f"~{idx}"):
                        ok = True
    ctx.check(ok, ps.fq, f"for ... in {detail}", ps.where, "by-name close searches from the top of the stack and pops that entry",
              f"pop_style iterates `{detail}`: an explicit closing tag must close the MOST RECENT open tag of that name (scan reversed(style_stack), pop(-index))")
    last = ps.node.body[-1]
    ctx.check(isinstance(last, ast.Raise) and "KeyError" in norm(last), ps.fq, norm(last), ps.where, "no match -> KeyError (converted by the caller)", "pop_style does not raise KeyError when no open tag matches")
    # name comparison uses the normalised name on both sides
    ctx.check("style_name = normalize(style_name)" in norm(render.node) and "_Tag(normalize(tag.name), tag.parameters)" in norm(render.node), render.fq, "normalize on open and close", render.where,
              "open and close names are normalised the same way", "opening and closing tag names are not normalised the same way: [b]..[/bold] would not match")


def _ancestors(m, node, stop):
    cur = m.parent_of.get(node)
    while cur is not None and cur is not stop:
        yield cur
        cur = m.parent_of.get(cur)


def r4_3(ctx):
    ctx.rule("R4.3", "unclosed tags run to the end: after the token loop every remaining stack entry is turned into a span ending at len(text), and `return text` is only reached after that drain loop")
    m = ctx.repo.mod("markup")
    render = m.fn("render")
    g = cfgmod.build(render.node)
    drains = [n for n in g.stmt_nodes() if n.kind == "test" and isinstance(n.stmt, ast.While) and norm(n.stmt.test) == "style_stack"]
    ctx.check(len(drains) == 1, render.fq, "while style_stack:", render.where, "drain loop present", "render() no longer drains the open-tag stack at the end: unclosed tags lose their styling")
    if not drains:
        return
    w = drains[0].stmt
    body = " ; ".join(norm(b) for b in w.body)
    # end offset is len(text) evaluated after the token loop
    end_ok = False
    for b in ast.walk(w):
        if isinstance(b, ast.Call) and norm(b.func) in ("_Span", "Span") and len(b.args) >= 2:
            e = b.args[1]
            if norm(e) == "len(text)":
                end_ok = True
            elif isinstance(e, ast.Name):
                rd = g.reaching_defs(weak=False)
                for nid in g.nodes_of(_stmt_of(m, b)):
                    defs = rd.get(nid, {}).get(e.id, set())
                    if defs and all(norm(getattr(g.nodes[d].stmt, "value", None) or ast.Constant(value=0)) == "len(text)" and g.nodes[d].lineno > _token_loop_line(render) for d in defs):
                        end_ok = True
    ctx.check("style_stack.pop()" in body and end_ok, render.fq, short(w), f"{m.relpath}:{w.lineno}", "each leftover tag becomes a span ending at the final text length",
              "the drain loop does not pop every leftover tag into a span that ends at len(text)")
    # return text dominated by the loop's exit
    for n in g.stmt_nodes():
        if n.kind == "stmt" and isinstance(n.stmt, ast.Return) and n.stmt.value is not None and norm(n.stmt.value) == "text":
            ctx.check(g.dominated_by(n.id, {drains[0].id}), render.fq, "return text", f"{m.relpath}:{n.lineno}", "the Text is returned only after the drain loop", "a `return text` bypasses the drain loop")


def _token_loop_line(render) -> int:
    for n in walk_local(render.node):
        if isinstance(n, ast.For) and "_parse(" in norm(n.iter):
            return n.lineno
    return 0


def _stmt_of(m, node):
    cur = node
    while not isinstance(cur, ast.stmt):
        cur = m.parent_of[cur]
    return cur


def r4_4(ctx):
    ctx.rule("R4.4", "span precedence is opening order (a tag opened later wins): the span list handed to Text is in the order the tags were opened - either spans are reserved at open time and filled in place on close, or sorted by an opening counter; ordering by (start, end, style) or by closing order is refuted")
    m = ctx.repo.mod("markup")
    render = m.fn("render")
    assign = None
    for n in walk_local(render.node):
        if isinstance(n, ast.Assign) and norm(n.targets[0]) == "text.spans":
            assign = n
    if assign is None:
        raise AnchorVanished("render(): assignment to text.spans not found")
    where = f"{m.relpath}:{assign.lineno}"
    v = assign.value
    aliases = alias_map(render.node)
    # where are spans appended?
    appends = []
    for n in walk_local(render.node):
        if isinstance(n, ast.Call) and norm(expand_alias(n.func, aliases)) == "spans.append":
            appends.append(n)
    open_branch_appends = []
    close_appends = []
    for a in appends:
        anc = list(_ancestors(m, a, render.node))
        in_open = False
        for x in anc:
            if isinstance(x, ast.If) and "startswith('/')" in norm(x.test):
                # which arm?
                in_body = any(a in list(ast.walk(s)) for s in x.body)
                in_open = not in_body
                if in_body:
                    close_appends.append(a)
        if in_open:
            open_branch_appends.append(a)
        elif a not in close_appends:
            close_appends.append(a)
    if isinstance(v, ast.Name) and v.id == "spans":
        # by-construction order: every append must happen at open time, closes must store in place
        ok = bool(open_branch_appends) and not close_appends
        stores = [n for n in walk_local(render.node) if isinstance(n, ast.Subscript) and isinstance(n.ctx, ast.Store) and norm(n.value) == "spans"]
        # the index stored into must come from the stack entry pushed at open time
        push_ok = any(isinstance(n, ast.Call) and norm(n.func) == "style_stack.append" and n.args and isinstance(n.args[0], ast.Tuple) and norm(n.args[0].elts[0]) == "len(spans)" for n in walk_local(render.node))
        ctx.check(ok and stores and push_ok, render.fq, short(assign), where, "spans are reserved when a tag opens (stack entry carries len(spans)) and filled in place when it closes: list order = opening order",
                  "text.spans is the raw span list but spans are appended when tags CLOSE: list order is closing order, so an outer tag closed later overrides the inner tag opened after it")
        return
    if isinstance(v, ast.Call) and call_name(v) == "sorted":
        key = None
        for k in v.keywords:
            if k.arg == "key":
                key = k.value
        if key is None:
            ctx.violation(render.fq, short(assign), where,
                          "spans are sorted as tuples (start, end, style): of two tags opened at the same offset the one that closes later (the OUTER, earlier-opened tag) sorts last and wins - e.g. '[red][blue]x[/blue]y[/red]' shows x in red; the tag opened later must win")
            return
        ktxt = norm(key)
        if "start" in ktxt and "index" not in ktxt and "order" not in ktxt:
            ctx.violation(render.fq, short(assign), where,
                          f"spans are sorted by `{ktxt}` only: ties between tags opened at the same offset fall back to closing order (or its reverse), which is not opening order for overlapping tags")
            return
        raise AnalysisError(f"render(): cannot establish that sort key `{ktxt}` is the opening order")
    raise AnalysisError(f"render(): text.spans assigned from `{norm(v)}` - ordering not understood")


def r4_5(ctx):
    ctx.rule("R4.5", "tag names are matched modulo whitespace on both sides: the closing branch strips the name itself and then calls Style.normalize, the opening branch relies on Style.normalize alone - so every value Style.normalize returns must be whitespace-insensitive (str(parse(..)) or a .strip()ped form)")
    f = ctx.repo.fn("style:Style.normalize")
    n = 0
    for r in walk_local(f.node):
        if isinstance(r, ast.Return) and r.value is not None:
            n += 1
            txt = norm(r.value)
            ok = txt.startswith("str(cls.parse(") or ".strip()" in txt
            ctx.check(ok, f.fq, norm(r), f"{f.module.relpath}:{r.lineno}", "normal form does not depend on surrounding whitespace",
                      f"Style.normalize returns `{txt}`, which keeps leading/trailing whitespace: an opening tag written `[name ]` is stacked under a different name than the `[/name]` that should close it (MarkupError, and the theme style is not found)")
    ctx.floor(n, 2, "returns of Style.normalize")
    m = ctx.repo.mod("markup")
    render = m.fn("render")
    ctx.check("style_name = tag.name[1:].strip()" in norm(render.node), render.fq, "closing name stripped", render.where, "closing tag name is stripped before normalisation", "the closing tag name is no longer stripped")


def r4_6(ctx):
    from .c06 import r6_4
    from .common import borrow
    borrow(ctx, r6_4, "R6.4", "R4.6", " [a tag opened later takes precedence: span styles are combined with Style.__add__, which must be right-biased including for attributes a later tag switches off]")


RULES = [r4_1, r4_2, r4_3, r4_4, r4_5, r4_6]
