"""Check context: obligations, violations, known findings, evidence, exit protocol."""
from __future__ import annotations

import json
import os
import time
from typing import Any, Dict, List, Optional

VERIF = os.path.dirname(os.path.dirname(os.path.abspath(__file__)))
EVIDENCE_DIR = os.path.join(VERIF, "evidence")
REPLAY_DIR = os.path.join(EVIDENCE_DIR, "replay")
KNOWN_FILE = os.path.join(VERIF, "known_findings.json")


def load_known() -> List[Dict[str, Any]]:
    if not os.path.exists(KNOWN_FILE):
        return []
    with open(KNOWN_FILE) as f:
        data = json.load(f)
    return data.get("findings", [])


class Violation:
    def __init__(self, prop, rule, function, construct, where, message, path=None):
        self.prop = prop
        self.rule = rule
        self.function = function
        self.construct = construct
        self.where = where
        self.message = message
        self.path = path or []

    @property
    def key(self):
        return (self.prop, self.rule, self.function, self.construct)

    def to_json(self):
        return {
            "property": self.prop,
            "rule": self.rule,
            "function": self.function,
            "construct": self.construct,
            "where": self.where,
            "message": self.message,
            "path": self.path,
        }


class Ctx:
    """Collects what one property check established on this run."""

    def __init__(self, prop: str, tier: str, repo, level: str = "other", quiet: bool = False):
        self.prop = prop
        self.tier = tier
        self.repo = repo
        self.level = level
        self.quiet = quiet
        self.t0 = time.time()
        self.obligations: List[Dict[str, Any]] = []  # every rule instance examined
        self.violations: List[Violation] = []
        self.errors: List[str] = []
        self.rules_applied: Dict[str, str] = {}
        self.rule_counts: Dict[str, int] = {}
        self.functions_analysed: set = set()
        self.notes: List[str] = []
        self.assumptions: List[str] = []
        self.trusted: List[str] = []
        self.undecided: List[str] = []
        self.current_rule: Optional[str] = None
        self.extra: Dict[str, Any] = {}

    # -- recording ------------------------------------------------------
    def rule(self, rule_id: str, text: str) -> None:
        self.current_rule = rule_id
        self.rules_applied[rule_id] = text
        self.rule_counts.setdefault(rule_id, 0)

    def ok(self, where: str, fact: str, fn: Optional[str] = None, trivial: bool = False) -> None:
        """Record a discharged rule instance."""
        r = self.current_rule or "?"
        self.rule_counts[r] = self.rule_counts.get(r, 0) + 1
        self.obligations.append({"rule": r, "where": where, "fact": fact, "ok": True, "trivial": trivial})
        if fn:
            self.functions_analysed.add(fn)

    def violation(self, function: str, construct: str, where: str, message: str, path=None, rule: Optional[str] = None) -> None:
        r = rule or self.current_rule or "?"
        self.rule_counts[r] = self.rule_counts.get(r, 0) + 1
        v = Violation(self.prop, r, function, construct, where, message, path)
        # de-duplicate identical keys
        for o in self.violations:
            if o.key == v.key:
                return
        self.violations.append(v)
        self.obligations.append({"rule": r, "where": where, "fact": message, "ok": False, "trivial": False})

    def check(self, cond: bool, function: str, construct: str, where: str, ok_fact: str, bad_message: str, path=None, trivial: bool = False) -> bool:
        if cond:
            self.ok(where, ok_fact, function, trivial=trivial)
        else:
            self.violation(function, construct, where, bad_message, path)
        return cond

    def shape(self, cond: bool, function: str, construct: str, where: str, ok_fact: str, unknown_message: str, path=None) -> bool:
        """A clause that is recognised by the SHAPE of the code (a statement written the way the pinned source writes it): when the
        shape is there the clause is discharged; when it is not, nothing is known - the code may say the same thing differently -
        so this is an analysis error (exit 2), never a VIOLATION.  Positively wrong shapes are reported by the rule itself."""
        if cond:
            self.ok(where, ok_fact, function)
        else:
            self.errors.append(f"rule={self.current_rule} analysis error: {function} ({where}): expected shape `{construct}` not found - {unknown_message}; written differently, this clause is not decided")
        return cond

    def floor(self, count: int, floor: int, what: str) -> None:
        """Instance-count floor: fewer instances than confirmed by hand => the rule no longer sees its subject."""
        if count < floor:
            self.errors.append(f"rule={self.current_rule} found {count} instances of {what}, expected at least {floor}: the rule no longer sees its subject")

    def error(self, msg: str) -> None:
        self.errors.append(f"rule={self.current_rule} {msg}")

    def note(self, msg: str) -> None:
        self.notes.append(f"[{self.current_rule}] {msg}")

    def assume(self, msg: str) -> None:
        if msg not in self.assumptions:
            self.assumptions.append(msg)

    def trust(self, msg: str) -> None:
        if msg not in self.trusted:
            self.trusted.append(msg)

    def fn_seen(self, fq: str) -> None:
        self.functions_analysed.add(fq)

    # -- finishing ------------------------------------------------------
    def finish(self, write_evidence: bool = True) -> int:
        known = load_known()
        known_keys = {}
        for k in known:
            if k.get("status", "known") == "known":
                known_keys[(k["property"], k["rule"], k["function"], k["construct"])] = k
        unlisted: List[Violation] = []
        listed: List[Violation] = []
        for v in self.violations:
            if v.key in known_keys:
                listed.append(v)
            else:
                unlisted.append(v)
        lines: List[str] = []
        code = 0
        if self.errors:
            for e in self.errors:
                lines.append(f"ANALYSIS-ERROR property={self.prop} {e}")
            code = 2
        for v in listed:
            k = known_keys[v.key]
            lines.append(f"KNOWN-FINDING: property={self.prop} {k.get('what', v.message)} [{v.rule} {v.function}]")
        replay_paths = []
        # a construct positively identified as violating the property is reported as such (exit 1) even when some other rule of
        # the same check could not decide its own clause (those ANALYSIS-ERROR lines are still printed)
        if unlisted:
            code = 0
        if unlisted and code == 0:
            os.makedirs(REPLAY_DIR, exist_ok=True)
        for i, v in enumerate(unlisted):
            path = os.path.join(REPLAY_DIR, f"{self.prop}-{i}.json")
            if code == 0 and not os.environ.get("SA_NO_EVIDENCE"):
                try:
                    os.makedirs(REPLAY_DIR, exist_ok=True)
                    with open(path, "w") as f:
                        json.dump(v.to_json(), f, indent=1)
                except OSError:
                    pass
            replay_paths.append(path)
            lines.append(f"  {v.rule} {v.where} in {v.function}: {v.message}")
            lines.append(f"    construct: {v.construct}")
            for p in v.path[:12]:
                lines.append(f"    path: {p}")
            if code == 0 or True:
                lines.append(f"VIOLATION property={self.prop} replay={path}")
        if unlisted and code == 0:
            code = 1
        wall = time.time() - self.t0
        if write_evidence and not os.environ.get("SA_NO_EVIDENCE"):
            self._write_evidence(wall, len(unlisted), len(listed), code)
        self.exit_code = code
        if not self.quiet:
            n_ok = sum(1 for o in self.obligations if o["ok"])
            try:
                print(f"[{self.prop}] tier={self.tier} rules={len(self.rules_applied)} instances={len(self.obligations)} "
                      f"discharged={n_ok} violations={len(unlisted)} known={len(listed)} errors={len(self.errors)} wall={wall:.2f}s")
                for r, t in self.rules_applied.items():
                    print(f"  {r}: {self.rule_counts.get(r, 0)} instances - {t}")
                for l in lines:
                    print(l)
                import sys as _sys
                _sys.stdout.flush()
            except BrokenPipeError:
                pass
        self.unlisted = unlisted
        self.listed = listed
        return code

    def _write_evidence(self, wall: float, n_viol: int, n_known: int, code: int) -> None:
        os.makedirs(EVIDENCE_DIR, exist_ok=True)
        n_ok = sum(1 for o in self.obligations if o["ok"])
        distinct = {(o["rule"], o["where"], o["fact"]) for o in self.obligations if not o.get("trivial")}
        samples = []
        per_rule: Dict[str, int] = {}
        for o in self.obligations:
            c = per_rule.get(o["rule"], 0)
            if c < 4:
                samples.append(o)
            per_rule[o["rule"]] = c + 1
        explanation = (
            "Static analysis of /repo/rich source (ast; no rich code imported or executed). Rules applied: "
            + " | ".join(f"{r}: {t}" for r, t in self.rules_applied.items())
        )
        checker_cmd = f"/venv/bin/python -m sa.check {self.prop} --tier {self.tier}"
        cov: Dict[str, Any] = {
            "explanation": explanation,
            "obligations": len(self.obligations),
            "discharged": n_ok,
            "checker_cmd": checker_cmd,
            "trusted_base": self.trusted or ["CPython ast parser", "Python semantics of the interpreted constructs"],
            "evaluations": len(self.obligations),
            "distinct_nontrivial": len(distinct),
            "rule": "one evaluation = one rule instance discovered in the current source (call site, store, table entry, path query, abstract case); "
                    "distinct = distinct (rule, location, fact) triples; instances marked trivial by the rule (vacuous or constant) are excluded",
            "samples": samples[:60],
            "exhaustive": True,
            "rule_instance_counts": self.rule_counts,
            "functions_analysed": sorted(self.functions_analysed),
            "modules_parsed": len(self.repo.modules) if self.repo is not None else 0,
            "undecided_clauses": self.undecided,
            "notes": self.notes[:80],
            "known_findings_matched": n_known,
            "analysis_errors": self.errors,
            "exit_code": code,
        }
        cov.update(self.extra)
        ev = {
            "property_id": self.prop,
            "tier": self.tier,
            "seed": int(os.environ.get("VERIF_SEED", "0") or 0),
            "level": self.level,
            "coverage": cov,
            "assumptions": self.assumptions,
            "wall_s": round(wall, 3),
            "violations": n_viol,
        }
        tmp = os.path.join(EVIDENCE_DIR, f".{self.prop}.json.tmp")
        with open(tmp, "w") as f:
            json.dump(ev, f, indent=1, default=str)
        os.replace(tmp, os.path.join(EVIDENCE_DIR, f"{self.prop}.json"))
