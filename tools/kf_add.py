#!/venv/bin/python
"""kf_add.py status prop rule function construct commit what   (appends to known_findings.json; maintenance tool, never used by checks)"""
import json, sys
p = '/verif/known_findings.json'
d = json.load(open(p))
status, prop, rule, fn, construct, commit, what = sys.argv[1:8]
e = {"status": status, "property": prop, "rule": rule, "function": fn, "construct": construct, "what": what}
if status == "fixed":
    e["commit"] = commit
    e["record"] = f"fixed: property={prop} {commit} {what}"
d["findings"].append(e)
json.dump(d, open(p, 'w'), indent=1)
print("ok", len(d["findings"]))
