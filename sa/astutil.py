"""Small AST helpers shared by the rules."""
from __future__ import annotations

import ast
import itertools
from typing import Any, Callable, Dict, Iterator, List, Optional, Sequence, Set, Tuple

from .index import AnalysisError, norm, walk_local


def chain(node: ast.AST) -> Optional[Tuple[str, ...]]:
    """('self', '_lock') for self._lock ; None if not a pure Name/Attribute chain."""
    parts: List[str] = []
    while isinstance(node, ast.Attribute):
        parts.append(node.attr)
        node = node.value
    if isinstance(node, ast.Name):
        parts.append(node.id)
        return tuple(reversed(parts))
    return None


def is_attr_of(node: ast.AST, base: str, attr: Optional[str] = None) -> bool:
    return (
        isinstance(node, ast.Attribute)
        and isinstance(node.value, ast.Name)
        and node.value.id == base
        and (attr is None or node.attr == attr)
    )


def const_int(node: ast.AST, env: Optional[Dict[str, int]] = None) -> Optional[int]:
    """Evaluate an integer constant expression (literals, << | & + - * **, names in env)."""
    env = env or {}
    if isinstance(node, ast.Constant) and isinstance(node.value, int) and not isinstance(node.value, bool):
        return node.value
    if isinstance(node, ast.Name) and node.id in env:
        return env[node.id]
    if isinstance(node, ast.UnaryOp) and isinstance(node.op, ast.USub):
        v = const_int(node.operand, env)
        return -v if v is not None else None
    if isinstance(node, ast.UnaryOp) and isinstance(node.op, ast.Invert):
        v = const_int(node.operand, env)
        return ~v if v is not None else None
    if isinstance(node, ast.BinOp):
        a = const_int(node.left, env)
        b = const_int(node.right, env)
        if a is None or b is None:
            return None
        op = node.op
        try:
            if isinstance(op, ast.LShift):
                return a << b
            if isinstance(op, ast.RShift):
                return a >> b
            if isinstance(op, ast.BitOr):
                return a | b
            if isinstance(op, ast.BitAnd):
                return a & b
            if isinstance(op, ast.BitXor):
                return a ^ b
            if isinstance(op, ast.Add):
                return a + b
            if isinstance(op, ast.Sub):
                return a - b
            if isinstance(op, ast.Mult):
                return a * b
            if isinstance(op, ast.Pow) and 0 <= b < 64:
                return a ** b
            if isinstance(op, ast.FloorDiv) and b != 0:
                return a // b
        except Exception:
            return None
    return None


def stores_to_attr(fn_node, attr: str) -> List[ast.AST]:
    """Statements in fn (not nested defs) storing <anything>.attr (Assign / AugAssign / AnnAssign)."""
    out = []
    for n in walk_local(fn_node):
        if isinstance(n, (ast.Assign, ast.AugAssign, ast.AnnAssign)):
            tg = n.targets if isinstance(n, ast.Assign) else [n.target]
            for t in tg:
                for x in ast.walk(t):
                    if isinstance(x, ast.Attribute) and x.attr == attr and isinstance(x.ctx, ast.Store):
                        out.append(n)
    return out


def attr_loads(node: ast.AST, base: str) -> Set[str]:
    """Attribute names loaded as base.X anywhere in node."""
    out = set()
    for n in ast.walk(node):
        if isinstance(n, ast.Attribute) and isinstance(n.value, ast.Name) and n.value.id == base and isinstance(n.ctx, ast.Load):
            out.add(n.attr)
    return out


def calls_in(node: ast.AST, local_only: bool = True) -> Iterator[ast.Call]:
    it = walk_local(node) if local_only and isinstance(node, (ast.FunctionDef, ast.AsyncFunctionDef)) else ast.walk(node)
    for n in it:
        if isinstance(n, ast.Call):
            yield n


def call_name(call: ast.Call) -> str:
    """Textual callee ('self.console.print', 'hash', 'Segment')."""
    c = chain(call.func)
    if c:
        return ".".join(c)
    return norm(call.func)


def kwarg(call: ast.Call, name: str) -> Optional[ast.AST]:
    for k in call.keywords:
        if k.arg == name:
            return k.value
    return None


def arg_of(call: ast.Call, pos: int, name: Optional[str] = None) -> Optional[ast.AST]:
    if name:
        v = kwarg(call, name)
        if v is not None:
            return v
    if pos < len(call.args) and not any(isinstance(a, ast.Starred) for a in call.args[: pos + 1]):
        return call.args[pos]
    return None


def stmt_of(module, node: ast.AST) -> ast.AST:
    """Enclosing statement of an expression node."""
    cur = node
    while cur is not None and not isinstance(cur, ast.stmt):
        cur = module.parent_of.get(cur)
    return cur


def enclosing(module, node: ast.AST, kinds) -> Optional[ast.AST]:
    cur = module.parent_of.get(node)
    while cur is not None:
        if isinstance(cur, kinds):
            return cur
        cur = module.parent_of.get(cur)
    return None


def ancestors(module, node: ast.AST) -> Iterator[ast.AST]:
    cur = module.parent_of.get(node)
    while cur is not None:
        yield cur
        cur = module.parent_of.get(cur)


def returns_of(fn_node) -> List[ast.Return]:
    return [n for n in walk_local(fn_node) if isinstance(n, ast.Return)]


def fstring_parts(node: ast.AST) -> Optional[List[Any]]:
    """JoinedStr -> list of str constants and ('field', expr) tuples; Constant str -> [str]."""
    if isinstance(node, ast.Constant) and isinstance(node.value, str):
        return [node.value]
    if isinstance(node, ast.JoinedStr):
        out: List[Any] = []
        for v in node.values:
            if isinstance(v, ast.Constant):
                out.append(v.value)
            elif isinstance(v, ast.FormattedValue):
                out.append(("field", v.value, v))
        return out
    return None


def literal(node: ast.AST) -> Any:
    try:
        return ast.literal_eval(node)
    except Exception as e:
        raise AnalysisError(f"expected a literal at line {getattr(node, 'lineno', '?')}: {e}")


def alias_map(fn_node) -> Dict[str, ast.AST]:
    """name -> expression for single-assignment local aliases like `append = sgr.append`
    (only names assigned exactly once in the function, to a Name/Attribute chain)."""
    counts: Dict[str, int] = {}
    vals: Dict[str, ast.AST] = {}
    for n in walk_local(fn_node):
        if isinstance(n, ast.Assign):
            for t in n.targets:
                for x in ast.walk(t):
                    if isinstance(x, ast.Name):
                        counts[x.id] = counts.get(x.id, 0) + 1
            if len(n.targets) == 1 and isinstance(n.targets[0], ast.Name) and chain(n.value):
                vals[n.targets[0].id] = n.value
        elif isinstance(n, (ast.AugAssign, ast.AnnAssign)):
            for x in ast.walk(n.target):
                if isinstance(x, ast.Name):
                    counts[x.id] = counts.get(x.id, 0) + (2 if isinstance(n, ast.AugAssign) else 1)
            if isinstance(n, ast.AnnAssign) and isinstance(n.target, ast.Name) and n.value is not None and chain(n.value):
                vals[n.target.id] = n.value
        elif isinstance(n, (ast.For, ast.comprehension)):
            for x in ast.walk(n.target):
                if isinstance(x, ast.Name):
                    counts[x.id] = counts.get(x.id, 0) + 2
        elif isinstance(n, ast.NamedExpr):
            counts[n.target.id] = counts.get(n.target.id, 0) + 2
        elif isinstance(n, ast.withitem) and n.optional_vars is not None:
            for x in ast.walk(n.optional_vars):
                if isinstance(x, ast.Name):
                    counts[x.id] = counts.get(x.id, 0) + 2
    args = fn_node.args
    params = {a.arg for a in args.posonlyargs + args.args + args.kwonlyargs}
    return {k: v for k, v in vals.items() if counts.get(k, 0) == 1 and k not in params}


def expand_alias(expr: ast.AST, aliases: Dict[str, ast.AST], depth: int = 4) -> ast.AST:
    """Replace a leading alias name by its definition (append -> sgr.append)."""
    for _ in range(depth):
        c = expr
        # find the base Name of an attribute chain
        base = c
        while isinstance(base, ast.Attribute):
            base = base.value
        if isinstance(base, ast.Name) and base.id in aliases:
            repl = aliases[base.id]
            if base is c:
                expr = repl
            else:
                expr = _replace_base(c, repl)
        else:
            break
    return expr


def _replace_base(node: ast.AST, repl: ast.AST) -> ast.AST:
    if isinstance(node, ast.Attribute):
        return ast.Attribute(value=_replace_base(node.value, repl), attr=node.attr, ctx=node.ctx)
    return repl


def default_args(fn_node) -> Dict[str, ast.AST]:
    a = fn_node.args
    out: Dict[str, ast.AST] = {}
    pos = a.posonlyargs + a.args
    for arg, d in zip(pos[len(pos) - len(a.defaults):], a.defaults):
        out[arg.arg] = d
    for arg, d in zip(a.kwonlyargs, a.kw_defaults):
        if d is not None:
            out[arg.arg] = d
    return out


def weak_orderings(n: int) -> Iterator[Tuple[int, ...]]:
    """All weak orderings of n items as rank tuples (ranks 0..k-1, every rank used)."""
    seen = set()
    for ranks in itertools.product(range(n), repeat=n):
        used = sorted(set(ranks))
        if used != list(range(len(used))):
            continue
        if ranks in seen:
            continue
        seen.add(ranks)
        yield ranks


def _unpack_component(value: ast.AST, i: int, n: int) -> Optional[ast.AST]:
    """closed form of the i-th name in `a, b, .. = value` for divmod / match.span() / match.groups() / literal tuples"""
    if isinstance(value, (ast.Tuple, ast.List)) and len(value.elts) == n and not any(isinstance(e, ast.Starred) for e in value.elts):
        return value.elts[i]
    if isinstance(value, ast.Call) and isinstance(value.func, ast.Name) and value.func.id == "divmod" and len(value.args) == 2 and n == 2:
        return ast.BinOp(left=value.args[0], op=ast.FloorDiv() if i == 0 else ast.Mod(), right=value.args[1])
    if isinstance(value, ast.Call) and isinstance(value.func, ast.Attribute) and not value.keywords:
        recv = value.func.value
        if value.func.attr == "span" and n == 2 and len(value.args) <= 1 and all(isinstance(a, ast.Constant) and a.value == 0 for a in value.args):
            return ast.Call(func=ast.Attribute(value=recv, attr="start" if i == 0 else "end", ctx=ast.Load()), args=[], keywords=[])
        if value.func.attr == "groups" and not value.args:
            return ast.Call(func=ast.Attribute(value=recv, attr="group", ctx=ast.Load()), args=[ast.Constant(value=i + 1)], keywords=[])
    return None


def single_defs(fn_node) -> Dict[str, ast.AST]:
    """name -> value for locals bound exactly once in the function (plain or annotated assignment), not parameters."""
    counts: Dict[str, int] = {}
    vals: Dict[str, ast.AST] = {}

    def bump(t, k=1):
        for x in ast.walk(t):
            if isinstance(x, ast.Name) and isinstance(x.ctx, ast.Store):
                counts[x.id] = counts.get(x.id, 0) + k
    for n in walk_local(fn_node):
        if isinstance(n, ast.Assign):
            for t in n.targets:
                bump(t)
            if len(n.targets) == 1 and isinstance(n.targets[0], ast.Name):
                vals[n.targets[0].id] = n.value
            elif len(n.targets) == 1 and isinstance(n.targets[0], ast.Tuple) and all(isinstance(e, ast.Name) for e in n.targets[0].elts):
                # tuple unpacking of a few well-known pure calls: each name gets its own closed form
                value = n.value
                if isinstance(value, ast.Call) and isinstance(value.func, ast.Name) and isinstance(vals.get(value.func.id), ast.Name):
                    value = ast.Call(func=vals[value.func.id], args=value.args, keywords=value.keywords)  # `_divmod = divmod` style alias
                for i, e in enumerate(n.targets[0].elts):
                    comp = _unpack_component(value, i, len(n.targets[0].elts))
                    if comp is not None:
                        vals[e.id] = comp
        elif isinstance(n, ast.AnnAssign):
            if n.value is not None:
                bump(n.target)  # a bare annotation `x: T` binds nothing
            if isinstance(n.target, ast.Name) and n.value is not None:
                vals[n.target.id] = n.value
        elif isinstance(n, ast.AugAssign):
            bump(n.target, 2)
        elif isinstance(n, (ast.For, ast.comprehension)):
            bump(n.target, 2)
        elif isinstance(n, ast.NamedExpr):
            bump(n.target, 2)
        elif isinstance(n, ast.withitem) and n.optional_vars is not None:
            bump(n.optional_vars, 2)
        elif isinstance(n, ast.ExceptHandler) and n.name:
            counts[n.name] = counts.get(n.name, 0) + 2
    args = fn_node.args
    params = {a.arg for a in args.posonlyargs + args.args + args.kwonlyargs}
    if args.vararg:
        params.add(args.vararg.arg)
    if args.kwarg:
        params.add(args.kwarg.arg)
    return {k: v for k, v in vals.items() if counts.get(k, 0) == 1 and k not in params}


def inline(expr: ast.AST, defs: Dict[str, ast.AST], depth: int = 8, keep=()) -> ast.AST:
    """Copy of `expr` with single-definition locals replaced (recursively) by their defining expressions:
    a closed form over parameters, attributes and multiply-bound names; insensitive to temporaries and renames."""
    import copy

    class T(ast.NodeTransformer):
        def __init__(self, d):
            self.d = d

        def visit_Name(self, node):
            if isinstance(node.ctx, ast.Load) and node.id in defs and node.id not in keep and self.d > 0:
                return T(self.d - 1).visit(copy.deepcopy(defs[node.id]))
            return node

        def visit_Lambda(self, node):
            return node

    return T(depth).visit(copy.deepcopy(expr))


def helper_closed_return(fn_node) -> Optional[ast.AST]:
    """Closed-form return expression of a *simple helper*: its body is (docstring,) single-target assignments to fresh
    local names and exactly one final `return <expr>`; temporaries are inlined. None for anything more complex."""
    body = list(fn_node.body)
    if body and isinstance(body[0], ast.Expr) and isinstance(body[0].value, ast.Constant) and isinstance(body[0].value.value, str):
        body = body[1:]
    if not body or not isinstance(body[-1], ast.Return) or body[-1].value is None:
        return None
    for st in body[:-1]:
        if isinstance(st, ast.Assign) and len(st.targets) == 1 and isinstance(st.targets[0], ast.Name):
            continue
        if isinstance(st, ast.Assign) and len(st.targets) == 1 and isinstance(st.targets[0], ast.Tuple) and all(isinstance(e, ast.Name) for e in st.targets[0].elts):
            if all(_unpack_component(st.value, i, len(st.targets[0].elts)) is not None for i in range(len(st.targets[0].elts))):
                continue
            return None
        if isinstance(st, ast.AnnAssign) and isinstance(st.target, ast.Name) and st.value is not None:
            continue
        return None
    return inline(body[-1].value, single_defs(fn_node))


def substitute_call(fn_node, call: ast.Call, expr: ast.AST, receiver: Optional[ast.AST] = None) -> Optional[ast.AST]:
    """`expr` (an expression over fn_node's parameters) with the parameters replaced by the arguments of `call`.
    `receiver` replaces the first parameter (self/cls) for method calls. None when the binding is not straightforward."""
    import copy
    a = fn_node.args
    if a.vararg or a.kwarg:
        return None
    params = [p.arg for p in a.posonlyargs + a.args]
    binding: Dict[str, ast.AST] = {}
    if receiver is not None:
        if not params:
            return None
        binding[params[0]] = receiver
        params = params[1:]
    if len(call.args) > len(params) or any(isinstance(x, ast.Starred) for x in call.args):
        return None
    for p, v in zip(params, call.args):
        binding[p] = v
    kwonly = [p.arg for p in a.kwonlyargs]
    for k in call.keywords:
        if k.arg is None or (k.arg not in params and k.arg not in kwonly) or k.arg in binding:
            return None
        binding[k.arg] = k.value
    defaults = dict(zip([p.arg for p in (a.posonlyargs + a.args)][-len(a.defaults):] if a.defaults else [], a.defaults))
    for p, d in zip(a.kwonlyargs, a.kw_defaults):
        if d is not None:
            defaults[p.arg] = d
    for p in params + kwonly:
        if p not in binding:
            if p in defaults:
                binding[p] = defaults[p]
            else:
                return None

    class T(ast.NodeTransformer):
        def visit_Name(self, node):
            if isinstance(node.ctx, ast.Load) and node.id in binding:
                return copy.deepcopy(binding[node.id])
            return node

        def visit_Lambda(self, node):
            return node
    return T().visit(copy.deepcopy(expr))


def concat_parts(e: ast.AST) -> List[Any]:
    """Normal form of a string-building expression as a list of parts: str literals (adjacent ones merged) and
    ("expr", <text>) items.  f-strings, `+` concatenation and `x * 2` repetition of a part reduce to the same list."""
    out: List[Any] = []

    def add(p):
        if isinstance(p, str):
            if not p:
                return
            if out and isinstance(out[-1], str):
                out[-1] += p
                return
        out.append(p)

    def rec(x):
        if isinstance(x, ast.JoinedStr):
            for v in x.values:
                if isinstance(v, ast.Constant):
                    add(str(v.value))
                elif isinstance(v, ast.FormattedValue) and v.conversion == -1 and v.format_spec is None:
                    rec(v.value)
                else:
                    add(("expr", norm(v)))
        elif isinstance(x, ast.Constant) and isinstance(x.value, str):
            add(x.value)
        elif (isinstance(x, ast.Call) and isinstance(x.func, ast.Attribute) and x.func.attr == "format" and isinstance(x.func.value, ast.Constant) and isinstance(x.func.value.value, str)
              and not x.keywords and not any(isinstance(a, ast.Starred) for a in x.args)):
            # "{} = {}".format(a, b): auto-numbered or explicitly numbered plain fields only
            import string
            try:
                fields = list(string.Formatter().parse(x.func.value.value))
            except ValueError:
                add(("expr", norm(x)))
                return
            auto = 0
            for lit, field, spec, conv in fields:
                add(lit or "")
                if field is None:
                    continue
                if spec or conv or (field and not field.isdigit()):
                    out.clear()
                    add(("expr", norm(x)))
                    return
                idx = int(field) if field else auto
                auto += 0 if field else 1
                if idx >= len(x.args):
                    out.clear()
                    add(("expr", norm(x)))
                    return
                rec(x.args[idx])
        elif isinstance(x, ast.BinOp) and isinstance(x.op, ast.Mod) and isinstance(x.left, ast.Constant) and isinstance(x.left.value, str) and x.left.value.count("%s") == x.left.value.count("%") and isinstance(x.right, ast.Tuple) and len(x.right.elts) == x.left.value.count("%s"):
            pieces = x.left.value.split("%s")
            for i_, pc in enumerate(pieces):
                add(pc)
                if i_ < len(x.right.elts):
                    rec(x.right.elts[i_])
        elif isinstance(x, ast.BinOp) and isinstance(x.op, ast.Add):
            rec(x.left)
            rec(x.right)
        elif isinstance(x, ast.BinOp) and isinstance(x.op, ast.Mult) and isinstance(x.right, ast.Constant) and isinstance(x.right.value, int) and 0 <= x.right.value <= 4:
            for _ in range(x.right.value):
                rec(x.left)
        elif isinstance(x, ast.BinOp) and isinstance(x.op, ast.Mult) and isinstance(x.left, ast.Constant) and isinstance(x.left.value, int) and 0 <= x.left.value <= 4:
            for _ in range(x.left.value):
                rec(x.right)
        else:
            add(("expr", norm(x)))
    rec(e)
    return out


def expr_facts(module, node: ast.AST) -> List[Tuple[ast.AST, bool]]:
    """Tests known to hold when `node` is evaluated because of where it sits INSIDE its statement: the body / orelse of a
    conditional expression, a later operand of `and` / `or`, the element of a comprehension with `if` filters.
    Complements cfg.branch_facts (which knows the statement-level branches)."""
    out: List[Tuple[ast.AST, bool]] = []
    cur = node
    while not isinstance(cur, ast.stmt):
        par = module.parent_of.get(cur)
        if par is None:
            break
        if isinstance(par, ast.IfExp):
            if cur is par.body:
                out.append((par.test, True))
            elif cur is par.orelse:
                out.append((par.test, False))
        elif isinstance(par, ast.BoolOp) and cur in par.values:
            k = par.values.index(cur)
            for earlier in par.values[:k]:
                out.append((earlier, isinstance(par.op, ast.And)))
        elif isinstance(par, (ast.ListComp, ast.SetComp, ast.GeneratorExp, ast.DictComp)) and cur in (getattr(par, "elt", None), getattr(par, "key", None), getattr(par, "value", None)):
            for gen in par.generators:
                for c in gen.ifs:
                    out.append((c, True))
        cur = par
    return out
