"""C13 Cell-width arithmetic and line shaping are exact and history-independent."""
from __future__ import annotations

import ast
import re
from typing import Dict, List, Optional, Set

from .. import cfg as cfgmod
from ..astutil import alias_map, arg_of, call_name, chain, const_int, default_args, expand_alias, kwarg, literal
from ..index import AnalysisError, AnchorVanished, norm, short, walk_local
from ..linear import eq as lin_eq, lin, show

LEVEL = "other"
UNDECIDED = [
    "that the width table equals the Unicode data (only its well-formedness and its agreement with the ASCII shortcut are decided)",
    "chop_cells for all strings",
    "characters/styles of cropped lines are unchanged (only the crop target arithmetic is decided)",
]
TRUSTED = ["CPython ast parser", "Python semantics of OrderedDict item methods, str slicing, `*` on str", "functools.lru_cache is transparent for pure functions"]


def _cell_table(ctx):
    m = ctx.repo.mod("_cell_widths")
    node = m.global_assign("CELL_WIDTHS")
    return m, node, literal(node)


def _shortcut_interval(ctx):
    """(lo, hi) inclusive range of code points for which get_character_cell_size returns 1 directly."""
    f = ctx.repo.fn("cells:get_character_cell_size")
    for n in walk_local(f.node):
        if isinstance(n, ast.If) and isinstance(n.test, ast.Compare) and n.body and isinstance(n.body[0], ast.Return):
            t = n.test
            ret = const_int(n.body[0].value)
            if ret is None:
                continue
            # forms: A > x > B ; B < x < A ; with optional =
            items = [t.left] + list(t.comparators)
            if len(items) != 3 or not isinstance(items[1], ast.Name):
                continue
            a, b = const_int(items[0]), const_int(items[2])
            if a is None or b is None:
                continue
            o1, o2 = t.ops
            lo = hi = None
            if isinstance(o1, (ast.Gt, ast.GtE)) and isinstance(o2, (ast.Gt, ast.GtE)):
                hi = a - (1 if isinstance(o1, ast.Gt) else 0)
                lo = b + (1 if isinstance(o2, ast.Gt) else 0)
            elif isinstance(o1, (ast.Lt, ast.LtE)) and isinstance(o2, (ast.Lt, ast.LtE)):
                lo = a + (1 if isinstance(o1, ast.Lt) else 0)
                hi = b - (1 if isinstance(o2, ast.Lt) else 0)
            if lo is not None:
                return f, n, lo, hi, ret
    return f, None, None, None, None


def r13_1(ctx):
    ctx.rule("R13.1", "CELL_WIDTHS literal: int triples, start<=end, strictly increasing and disjoint, widths in {-1,0,1,2}, inside [0,0x10FFFF]; agrees with the ASCII shortcut; never written")
    m, node, table = _cell_table(ctx)
    where = f"{m.relpath}:{node.lineno}"
    ctx.floor(len(table), 300, "CELL_WIDTHS entries")
    prev_end = -1
    bad = []
    for i, ent in enumerate(table):
        if not (isinstance(ent, tuple) and len(ent) == 3 and all(isinstance(x, int) and not isinstance(x, bool) for x in ent)):
            bad.append(f"entry {i} {ent!r} is not an int triple")
            continue
        s, e, w = ent
        if s > e:
            bad.append(f"entry {i} {ent}: start > end")
        if s <= prev_end:
            bad.append(f"entry {i} {ent}: not strictly after previous end {prev_end} (binary search needs sorted disjoint ranges)")
        if w not in (-1, 0, 1, 2):
            bad.append(f"entry {i} {ent}: width {w} not in {{-1,0,1,2}}")
        if s < 0 or e > 0x10FFFF:
            bad.append(f"entry {i} {ent}: outside the code-point range")
        prev_end = max(prev_end, e)
    for b in bad[:5]:
        ctx.violation("_cell_widths:CELL_WIDTHS", b, where, "width table malformed: " + b)
    if not bad:
        for i, ent in enumerate(table):
            ctx.ok(f"{m.relpath}:{node.elts[i].lineno if hasattr(node, 'elts') else node.lineno}", f"entry {ent} ordered, disjoint, width ok", trivial=i > 2)
    f, ifn, lo, hi, ret = _shortcut_interval(ctx)
    if ifn is None:
        ctx.note("get_character_cell_size has no constant-range shortcut (nothing to cross-check)")
    else:
        conflicts = [ent for ent in table if isinstance(ent, tuple) and len(ent) == 3 and ent[0] <= hi and ent[1] >= lo and (0 if ent[2] == -1 else ent[2]) != ret]
        ctx.check(not conflicts, f.fq, f"if {norm(ifn.test)}: return {ret}", f"{f.module.relpath}:{ifn.lineno}",
                  f"shortcut [{lo},{hi}] -> {ret} agrees with the table (no entry in that range says otherwise)",
                  f"shortcut returns {ret} for code points {lo}..{hi} but the table has {conflicts[:3]} there: result depends on which path is taken")
    # no writer
    writers = []
    for mod in ctx.repo.modules.values():
        for n in ast.walk(mod.tree):
            if mod.in_main_guard(n):
                continue
            tg = []
            if isinstance(n, ast.Assign):
                tg = n.targets
            elif isinstance(n, (ast.AugAssign, ast.AnnAssign)):
                tg = [n.target]
            elif isinstance(n, ast.Delete):
                tg = n.targets
            for t in tg:
                base = t
                while isinstance(base, (ast.Subscript, ast.Attribute)):
                    base = base.value
                if isinstance(base, ast.Name) and base.id == "CELL_WIDTHS" and not (mod is m and t is base and isinstance(n, ast.Assign) and n.value is node):
                    writers.append(f"{mod.relpath}:{n.lineno}")
            if isinstance(n, ast.Call) and isinstance(n.func, ast.Attribute) and isinstance(n.func.value, ast.Name) and n.func.value.id in ("CELL_WIDTHS", "_table") and n.func.attr in cfgmod.MUTATOR_METHODS and mod.short in ("cells", "_cell_widths"):
                writers.append(f"{mod.relpath}:{n.lineno}")
    ctx.check(not writers, "_cell_widths:CELL_WIDTHS", "writers of CELL_WIDTHS", where, "the table has no writer in the package (history-independent)",
              f"CELL_WIDTHS is written at {writers}")


def _bisect_form(ctx, f, cp) -> bool:
    """Shape B of the width-table lookup: a library bisection over a projection of CELL_WIDTHS.

    ENDS = [end for _s, end, _w in CELL_WIDTHS];  i = bisect_left(ENDS, cp)       -> first range whose end >= cp   (correct)
    STARTS = [start for start, _e, _w in ...];    i = bisect_right(STARTS, cp) - 1 -> last range whose start <= cp  (correct)
    The other two pairings are off by one exactly at a range boundary and are reported.  Returns False when no bisect call is found.
    """
    m = f.module
    calls = [c for c in walk_local(f.node) if isinstance(c, ast.Call) and call_name(c) in ("bisect_left", "bisect_right", "bisect") and len(c.args) >= 2 and norm(c.args[1]) == cp]
    if len(calls) != 1:
        return False
    c = calls[0]
    side = "left" if call_name(c) == "bisect_left" else "right"
    proj_name = norm(c.args[0])
    proj = m.module_const(proj_name) if isinstance(c.args[0], ast.Name) else None
    if proj is None:
        for n in walk_local(f.node):
            if isinstance(n, ast.Assign) and norm(n.targets[0]) == proj_name:
                proj = n.value
    if not (isinstance(proj, ast.ListComp) and len(proj.generators) == 1 and not proj.generators[0].ifs and norm(proj.generators[0].iter) == "CELL_WIDTHS" and isinstance(proj.generators[0].target, ast.Tuple) and len(proj.generators[0].target.elts) == 3 and isinstance(proj.elt, ast.Name)):
        raise AnalysisError(f"_get_codepoint_cell_size: `{proj_name}` is not a one-component projection [x for a, b, c in CELL_WIDTHS]")
    comps = [norm(e) for e in proj.generators[0].target.elts]
    which = comps.index(proj.elt.id) if proj.elt.id in comps else None
    if which not in (0, 1):
        raise AnalysisError("_get_codepoint_cell_size: the bisected list is neither the range starts nor the range ends")
    # how the result is used as an index: i or i - 1
    st = c
    while not isinstance(st, ast.stmt):
        st = m.parent_of[st]
    minus_one = isinstance(st, ast.Assign) and isinstance(st.value, ast.BinOp) and isinstance(st.value.op, ast.Sub) and const_int(st.value.right) == 1 and st.value.left is c
    plain = isinstance(st, ast.Assign) and st.value is c
    if not (minus_one or plain):
        raise AnalysisError(f"_get_codepoint_cell_size: cannot read how the bisect result is used: `{short(st)}`")
    where = f"{m.relpath}:{c.lineno}"
    if which == 1:
        ok = side == "left" and plain
        ctx.check(ok, f.fq, short(st), where, "bisect_left over the range ENDS: the first range whose end >= code point",
                  f"`{short(st)}` over the range ends: bisect_{side}{' - 1' if minus_one else ''} skips the range whose END equals the code point (the last code point of every range - every single-code-point range such as U+2705 - gets the default width 1)")
    else:
        ok = side == "right" and minus_one
        ctx.check(ok, f.fq, short(st), where, "bisect_right over the range STARTS minus one: the last range whose start <= code point",
                  f"`{short(st)}` over the range starts: bisect_{side}{' - 1' if minus_one else ''} does not select the last range whose start <= code point (a code point equal to a range START is looked up in the wrong range)")
    # the hit test against the other end of the selected range, and the -1 -> 0 mapping / default 1
    idx = norm(st.targets[0])
    unpack = None
    for n in walk_local(f.node):
        if isinstance(n, ast.Assign) and isinstance(n.targets[0], ast.Tuple) and len(n.targets[0].elts) == 3 and isinstance(n.value, ast.Subscript) and norm(n.value.value) == "CELL_WIDTHS" and norm(n.value.slice) == idx:
            unpack = n
    if unpack is None:
        raise AnalysisError("_get_codepoint_cell_size: cannot find `start, end, width = CELL_WIDTHS[index]`")
    s_, e_, w_ = (norm(x) for x in unpack.targets[0].elts)
    g = cfgmod.build(f.node)
    from ..yieldpaths import canon_test
    rets = [r for r in walk_local(f.node) if isinstance(r, ast.Return)]
    hit = [r for r in rets if w_ in {n.id for n in ast.walk(r.value) if isinstance(n, ast.Name)}]
    if len(hit) != 1:
        raise AnalysisError("_get_codepoint_cell_size: expected exactly one return of the table width")
    facts = set()
    for nid in g.nodes_of(hit[0]):
        for t, v in g.branch_facts(nid):
            for a, tv in canon_test(t, v):
                facts.add((a, tv))
    other = s_ if which == 1 else e_
    want = {(f"{cp} >= {other}", True), (f"{other} <= {cp}", True), (f"{cp} < {other}", False), (f"{other} > {cp}", False)} if which == 1 else {(f"{cp} <= {other}", True), (f"{other} >= {cp}", True), (f"{cp} > {other}", False), (f"{other} < {cp}", False)}
    ctx.check(bool(want & facts), f.fq, short(hit[0]), f"{m.relpath}:{hit[0].lineno}", f"the width is returned only when the code point lies inside the selected range (`{other}` tested)",
              f"the table width is returned without testing the code point against `{other}` of the selected range: code points in the gaps between ranges get a neighbour's width")
    bound = {(f"{idx} < len(CELL_WIDTHS)", True), (f"len(CELL_WIDTHS) > {idx}", True), (f"{idx} >= len(CELL_WIDTHS)", False)} if which == 1 else {(f"{idx} >= 0", True), (f"0 <= {idx}", True), (f"{idx} < 0", False)}
    ctx.check(bool(bound & facts), f.fq, short(unpack), f"{m.relpath}:{unpack.lineno}", "the index is inside the table where it is used",
              f"CELL_WIDTHS[{idx}] is read without the bound test the bisection needs ({'index < len' if which == 1 else 'index >= 0'}): IndexError / wrap-around for code points beyond the table")
    v = hit[0].value
    okv = isinstance(v, ast.IfExp) and norm(v.test) in (f"{w_} == -1", f"-1 == {w_}") and const_int(v.body) == 0 and norm(v.orelse) == w_
    ctx.check(okv, f.fq, short(hit[0]), f"{m.relpath}:{hit[0].lineno}", "hit returns 0 for -1 else the table width", "hit does not return `0 if width == -1 else width`")
    miss = [r for r in rets if r is not hit[0]]
    ctx.check(bool(miss) and all(const_int(r.value) == 1 for r in miss), f.fq, "miss", f.where, "miss returns 1", "a miss does not return the default width 1")
    return True


def r13_2(ctx):
    ctx.rule("R13.2", "binary search in _get_codepoint_cell_size: on cp<start only the upper bound moves (below index), on cp>end only the lower bound (above index); hit returns 0 for -1 else the table width; miss returns 1; probes the CELL_WIDTHS table")
    f = ctx.repo.fn("cells:_get_codepoint_cell_size")
    cp = f.params[0]
    aliases = alias_map(f.node)
    # roles from initialisation
    lower = upper = index = None
    table_name = None
    upper_is_len = None
    for n in walk_local(f.node):
        if isinstance(n, ast.Assign) and len(n.targets) == 1 and isinstance(n.targets[0], ast.Name):
            v = n.value
            name = n.targets[0].id
            if const_int(v) == 0 and lower is None:
                lower = name
            elif isinstance(v, ast.BinOp) and isinstance(v.op, ast.Sub) and const_int(v.right) == 1 and isinstance(v.left, ast.Call) and call_name(v.left) == "len":
                upper = name
                table_name = norm(v.left.args[0])
            elif upper is None and any(isinstance(c_, ast.Call) and call_name(c_) == "len" for c_ in ast.walk(v)):
                lc = [c_ for c_ in ast.walk(v) if isinstance(c_, ast.Call) and call_name(c_) == "len"][0]
                upper = name
                table_name = norm(lc.args[0])
                upper_is_len = (n, v)
    if lower is None or upper is None:
        if _bisect_form(ctx, f, cp):
            return
        raise AnalysisError("cannot identify lower/upper bound variables of the search")
    # closed interval [lower, upper] (upper starts at len - 1, loop until upper < lower) or half-open [lower, upper) (upper starts at
    # len, `while lower < upper`, `upper = index` below): an upper bound of len(table) is wrong only for the closed form
    half_open = False
    if upper_is_len is not None:
        n_, v_ = upper_is_len
        wl = [w for w in walk_local(f.node) if isinstance(w, ast.While) and norm(w.test) in (f"{lower} < {upper}", f"{upper} > {lower}")]
        if norm(v_) == f"len({table_name})" and len(wl) == 1:
            half_open = True
            ctx.ok(f"{f.module.relpath}:{n_.lineno}", "half-open search interval [lower, upper) with upper = len(table) and `while lower < upper`", f.fq)
        else:
            ctx.violation(f.fq, norm(n_), f"{f.module.relpath}:{n_.lineno}",
                          f"the search's upper bound starts at `{norm(v_)}`, not at the last index len(table) - 1: a code point above the last table entry probes past the end of the table (IndexError) or skips entries")
    tbl = aliases.get(table_name)
    ctx.check(table_name == "CELL_WIDTHS" or (tbl is not None and norm(tbl) == "CELL_WIDTHS"), f.fq, f"table {table_name}", f.where,
              "search runs over CELL_WIDTHS", f"search table `{table_name}` is not CELL_WIDTHS")
    # unpack
    start = end = width = None
    idx_name = None
    for n in walk_local(f.node):
        if isinstance(n, ast.Assign) and isinstance(n.targets[0], ast.Tuple) and isinstance(n.value, ast.Subscript) and norm(n.value.value) == table_name:
            el = n.targets[0].elts
            if len(el) == 3 and all(isinstance(x, ast.Name) for x in el):
                start, end, width = (x.id for x in el)
                idx_name = norm(n.value.slice)
    if start is None:
        raise AnalysisError("cannot find `start, end, width = table[index]` unpack")
    # midpoint
    mids = 0
    for n in walk_local(f.node):
        if isinstance(n, ast.Assign) and len(n.targets) == 1 and isinstance(n.targets[0], ast.Name) and n.targets[0].id == idx_name:
            v = n.value
            ok = isinstance(v, ast.BinOp) and isinstance(v.op, ast.FloorDiv) and const_int(v.right) == 2 and lin_eq(lin(v.left), {lower: 1, upper: 1})
            if not ok and isinstance(v, ast.BinOp) and isinstance(v.op, ast.Add):
                # the overflow-safe spelling lower + (upper - lower) // 2: floor((l + u) / 2) again, since l is an integer
                for a_, b_ in ((v.left, v.right), (v.right, v.left)):
                    if (lin_eq(lin(a_), {lower: 1}) and isinstance(b_, ast.BinOp) and isinstance(b_.op, ast.FloorDiv) and const_int(b_.right) == 2
                            and lin_eq(lin(b_.left), {upper: 1, lower: -1})):
                        ok = True
            mids += 1
            ctx.check(ok, f.fq, norm(n), f"{f.module.relpath}:{n.lineno}", "probe index is the midpoint of [lower, upper]", f"probe index `{norm(v)}` is not (lower+upper)//2")
    ctx.floor(mids, 1, "midpoint computations")

    def classify(test) -> Optional[str]:
        """'below' if test means cp < start ; 'above' if cp > end."""
        if not (isinstance(test, ast.Compare) and len(test.ops) == 1):
            return None
        l, op, r = test.left, test.ops[0], test.comparators[0]
        ln, rn = norm(l), norm(r)
        if ln == cp and rn == start and isinstance(op, ast.Lt):
            return "below"
        if ln == start and rn == cp and isinstance(op, ast.Gt):
            return "below"
        if ln == cp and rn == end and isinstance(op, ast.Gt):
            return "above"
        if ln == end and rn == cp and isinstance(op, ast.Lt):
            return "above"
        if ln in (cp, start, end) and rn in (cp, start, end):
            return "other:" + norm(test)
        return None

    seen = set()

    def visit_if(n: ast.If, negs: List[str]):
        kind = classify(n.test)
        where = f"{f.module.relpath}:{n.lineno}"
        if kind in ("below", "above"):
            seen.add(kind)
            stores = {}
            for b in n.body:
                for x in ast.walk(b):
                    if isinstance(x, ast.Assign) and len(x.targets) == 1 and isinstance(x.targets[0], ast.Name):
                        stores[x.targets[0].id] = x.value
                    elif isinstance(x, ast.AugAssign) and isinstance(x.target, ast.Name):
                        stores[x.target.id] = x
            want, other, sign = (upper, lower, -1) if kind == "below" else (lower, upper, 1)
            ok = want in stores and other not in stores
            detail = ""
            if ok:
                form = lin(stores[want]) if not isinstance(stores[want], ast.AugAssign) else None
                if form is None:
                    ok = False
                    detail = "augmented assignment"
                else:
                    c = form.get("", 0)
                    if half_open and kind == "below":
                        ok = form.get(idx_name) == 1 and set(form) <= {idx_name, ""} and c == 0  # upper is exclusive: upper = index
                    else:
                        ok = form.get(idx_name) == 1 and set(form) <= {idx_name, ""} and c * sign >= 1
                    detail = f"{want} = {show(form)}"
            ctx.check(ok, f.fq, f"if {norm(n.test)}: {detail or sorted(stores)}", where,
                      f"code point {kind} the probed range: only `{want}` moves, strictly past index ({detail})",
                      f"code point {kind} the probed range but the bounds update is wrong ({detail or 'stores ' + str(sorted(stores))}): search can loop or skip the matching range")
            for o in n.orelse:
                if isinstance(o, ast.If):
                    visit_if(o, negs + [kind])
                else:
                    visit_hit(n.orelse, negs + [kind], n)
                    break
        elif kind and kind.startswith("other:"):
            ctx.violation(f.fq, norm(n.test), where, f"comparison `{norm(n.test)}` pairs the code point with the wrong bound of the probed range")

    def visit_hit(body, negs, ifn):
        if set(negs) != {"below", "above"}:
            return
        for b in body:
            if isinstance(b, ast.Return):
                v = b.value
                vals = set()
                for w in (-1, 0, 1, 2):
                    vals.add((w, _eval_width(v, width, w)))
                ok = all(r == (0 if w == -1 else w) for w, r in vals)
                ctx.check(ok, f.fq, norm(b), f"{f.module.relpath}:{b.lineno}", "hit returns 0 for -1, else the entry's width (checked for -1,0,1,2)",
                          f"hit branch returns {sorted(vals)} (width, result): not the table width")
                seen.add("hit")

    # guard clauses are the chain they abbreviate:  `if A: X; continue` followed by R  is  `if A: X; continue / else: R`, and
    # `if T: return a` followed by `return b` is `return a if T else b` - the cases are read off that nested form
    import copy as _copy

    def _nest(stmts):
        out = []
        for i, st in enumerate(stmts):
            for fld in ("body", "orelse"):
                sub = getattr(st, fld, None)
                if isinstance(sub, list) and sub and isinstance(sub[0], ast.stmt) and not isinstance(st, (ast.FunctionDef, ast.ClassDef)):
                    setattr(st, fld, _nest(sub))
            rest = stmts[i + 1:]
            if isinstance(st, ast.If) and not st.orelse and st.body and isinstance(st.body[-1], (ast.Continue, ast.Return, ast.Break)) and rest:
                st.orelse = _nest(rest)
                if len(st.body) == 1 and isinstance(st.body[0], ast.Return) and len(st.orelse) == 1 and isinstance(st.orelse[0], ast.Return) and st.body[0].value is not None and st.orelse[0].value is not None:
                    out.append(ast.copy_location(ast.Return(value=ast.copy_location(ast.IfExp(test=st.test, body=st.body[0].value, orelse=st.orelse[0].value), st)), st))
                else:
                    out.append(st)
                return out
            out.append(st)
        return out
    fnode2 = _copy.deepcopy(f.node)
    for lp_ in [x for x in ast.walk(fnode2) if isinstance(x, (ast.While, ast.For))]:
        lp_.body = _nest(lp_.body)
    nodes2 = [x for x in ast.walk(fnode2)]
    for n in nodes2:
        if isinstance(n, ast.If) and classify(n.test) in ("below", "above") and not any(
            isinstance(p, ast.If) and n in p.orelse for p in nodes2
        ):
            visit_if(n, [])
    for k in ("below", "above", "hit"):
        if k not in seen:
            ctx.violation(f.fq, f"missing {k} case", f.where, f"search has no `{k}` case comparing the code point with the probed range")
    # every other return of the lookup is a constant in {0,1,2} or the normalised hit value
    for r in nodes2:
        if isinstance(r, ast.Return) and r.value is not None:
            v = r.value
            if const_int(v) in (0, 1, 2):
                continue
            try:
                vals = {(_w, _eval_width(v, width, _w)) for _w in (-1, 0, 1, 2)}
                okr = all(res == (0 if _w == -1 else _w) for _w, res in vals)
            except AnalysisError:
                okr = False
            ctx.check(okr, f.fq, norm(r), f"{f.module.relpath}:{r.lineno}", "return value is a cell width in {0,1,2}",
                      f"`{norm(r)}` can return a raw table width (-1 for control characters) or an unrelated value: the width of a character then depends on which path answered")
    # fallthrough
    last = f.node.body[-1]
    ctx.check(isinstance(last, ast.Return) and const_int(last.value) == 1, f.fq, norm(last), f"{f.module.relpath}:{last.lineno}",
              "miss returns width 1", "a code point not in the table does not get width 1")
    # termination test
    term = False
    for n in walk_local(f.node):
        if isinstance(n, (ast.If, ast.While)) and isinstance(n.test, ast.Compare) and len(n.test.ops) == 1:
            l, r = norm(n.test.left), norm(n.test.comparators[0])
            op = n.test.ops[0]
            if {l, r} == {lower, upper}:
                term = True
                good = (l == upper and isinstance(op, ast.Lt)) or (l == lower and isinstance(op, ast.Gt)) or \
                       (isinstance(n, ast.While) and ((l == lower and isinstance(op, ast.LtE)) or (l == upper and isinstance(op, ast.GtE))))
                if half_open:
                    # [lower, upper) is non-empty exactly while lower < upper
                    good = isinstance(n, ast.While) and ((l == lower and isinstance(op, ast.Lt)) or (l == upper and isinstance(op, ast.Gt)))
                ctx.check(good, f.fq, norm(n.test), f"{f.module.relpath}:{n.lineno}", "loop ends exactly when the interval is empty",
                          f"termination test `{norm(n.test)}` stops while candidates remain or never stops")
    ctx.check(term, f.fq, "termination test", f.where, "interval-empty test present", "no interval-empty termination test found")


def _eval_width(e, wname, w):
    if isinstance(e, ast.IfExp):
        return _eval_width(e.body, wname, w) if _eval_width(e.test, wname, w) else _eval_width(e.orelse, wname, w)
    if isinstance(e, ast.Compare) and len(e.ops) == 1:
        a, b = _eval_width(e.left, wname, w), _eval_width(e.comparators[0], wname, w)
        op = e.ops[0]
        if isinstance(op, ast.Eq):
            return a == b
        if isinstance(op, ast.NotEq):
            return a != b
        if isinstance(op, ast.Lt):
            return a < b
        if isinstance(op, ast.Gt):
            return a > b
        if isinstance(op, ast.LtE):
            return a <= b
        if isinstance(op, ast.GtE):
            return a >= b
    if isinstance(e, ast.Name) and e.id == wname:
        return w
    c = const_int(e)
    if c is not None:
        return c
    if isinstance(e, ast.Call) and call_name(e) == "max" and len(e.args) == 2:
        return max(_eval_width(e.args[0], wname, w), _eval_width(e.args[1], wname, w))
    raise AnalysisError(f"cannot evaluate width expression {norm(e)}")


def r13_3(ctx):
    ctx.rule("R13.3", "memoisation is transparent: cell_len looks up and stores under the same key (its argument), stores exactly the value it returns, returns hits unmodified; LRUCache.__getitem__ re-inserts the value it read; __setitem__ stores its arguments; eviction only removes; lru_cache'd functions read only their arguments and never-written module constants")
    f = ctx.repo.fn("cells:cell_len")
    text = f.params[0]
    defaults = default_args(f.node)
    cache_names = [k for k, v in defaults.items() if isinstance(v, ast.Call) and "Cache" in call_name(v)] or []
    g = cfgmod.build(f.node)
    rd = g.reaching_defs()
    if cache_names:
        cache = cache_names[0]
        lookups, stores = [], []
        for n in walk_local(f.node):
            if isinstance(n, ast.Call) and isinstance(n.func, ast.Attribute) and norm(n.func.value) == cache and n.func.attr == "get":
                lookups.append(n)
            if isinstance(n, ast.Subscript) and norm(n.value) == cache:
                if isinstance(n.ctx, ast.Store):
                    stores.append(n)
                else:
                    lookups.append(n)
        ctx.floor(len(lookups) + len(stores), 2, "cache lookups/stores in cell_len")
        for l in lookups:
            key = l.args[0] if isinstance(l, ast.Call) else l.slice
            ctx.check(norm(key) == text, f.fq, short(l), f"{f.module.relpath}:{l.lineno}", "lookup key is the argument itself",
                      f"cache is looked up under `{norm(key)}`, not under the measured string `{text}`: different strings can share an entry")
        for s in stores:
            ctx.check(norm(s.slice) == text, f.fq, short(s), f"{f.module.relpath}:{s.lineno}", "store key is the argument itself",
                      f"cache is stored under `{norm(s.slice)}`, not under the measured string `{text}`")
        # the parameter is never rebound before use as key
        for node in g.stmt_nodes():
            if node.kind in ("stmt", "test") and node.stmt is not None:
                for x in ast.walk(node.stmt if node.kind == "stmt" else node.expr):
                    if isinstance(x, ast.Name) and x.id == text and isinstance(x.ctx, ast.Load):
                        defs = rd.get(node.id, {}).get(text, set())
                        if defs and defs != {g.entry}:
                            ctx.violation(f.fq, f"{text} rebound", f"{f.module.relpath}:{node.lineno}", f"`{text}` is rebound before being used as cache key / measured")
        # decided per control-flow path (helpers and temporaries inlined, path-local values resolved)
        from ..yieldpaths import Enumerator, Unsupported, resolve
        from .common import inline_helpers_in_function
        try:
            P = [resolve(p_) for p_ in Enumerator(inline_helpers_in_function(f)).run()]
        except Unsupported as u:
            raise AnalysisError(f"cell_len: statement outside the path normal form ({u})")
        LOOK = (f"{cache}.get({text}, None)", f"{cache}.get({text})", f"{cache}[{text}]")

        def is_char_sum(txt):
            try:
                v = ast.parse(txt, mode="eval").body
            except SyntaxError:
                return False
            if not (isinstance(v, ast.Call) and norm(v.func) == "sum" and len(v.args) == 1 and not v.keywords):
                return False
            a = v.args[0]
            if isinstance(a, ast.Call) and norm(a.func) == "map" and len(a.args) == 2 and norm(a.args[0]) == "get_character_cell_size" and norm(a.args[1]) == text:
                return True
            if isinstance(a, (ast.GeneratorExp, ast.ListComp)) and len(a.generators) == 1 and not a.generators[0].ifs and norm(a.generators[0].iter) == text:
                el = a.elt
                return isinstance(el, ast.Call) and norm(el.func) == "get_character_cell_size" and len(el.args) == 1 and norm(el.args[0]) == norm(a.generators[0].target)
            return False
        hit_ok = miss_ok = store_ok = True
        n_hit = n_miss = n_store = 0
        for p_ in P:
            facts = {e[1]: e[2] for e in p_ if e[0] == "cond"}
            rets = [e for e in p_ if e[0] == "return" and e[1] is not None]
            if len(rets) != 1:
                hit_ok = miss_ok = False
                continue
            rv = rets[0][1]
            is_hit = any(facts.get(f"{l} is None") is False for l in LOOK) or facts.get(f"{text} in {cache}") is True
            is_miss = any(facts.get(f"{l} is None") is True for l in LOOK) or facts.get(f"{text} in {cache}") is False
            if is_hit:
                n_hit += 1
                hit_ok = hit_ok and rv in LOOK
            elif is_miss:
                n_miss += 1
                miss_ok = miss_ok and is_char_sum(rv)
            else:
                hit_ok = False
            for e in p_:
                if e[0] == "set" and e[1] == f"{cache}[{text}]":
                    n_store += 1
                    store_ok = store_ok and e[2] == rv and is_miss
        ctx.check(hit_ok and n_hit >= 1, f.fq, "hit path", f.where, "a hit returns the stored value unmodified", "the hit path does not return the looked-up value unmodified")
        ctx.check(store_ok and n_store >= 1, f.fq, "store on miss", f.where, "value stored is the value returned on a miss", "cache stores a value other than the one the miss path returns (or stores on a hit)")
        ctx.check(miss_ok and n_miss >= 1, f.fq, "sum(get_character_cell_size(c) for c in text)", f.where, "width of a string = sum of its characters' widths over the whole argument",
                  "cell_len no longer sums get_character_cell_size over every character of its argument")
    else:
        ctx.note("cell_len has no cache parameter")
        ok = False
        aliases = alias_map(f.node)
        for n in walk_local(f.node):
            if isinstance(n, ast.Call) and call_name(n) == "sum" and n.args and isinstance(n.args[0], ast.GeneratorExp):
                ge = n.args[0]
                if len(ge.generators) == 1 and not ge.generators[0].ifs and norm(ge.generators[0].iter) == text:
                    el = ge.elt
                    if isinstance(el, ast.Call) and len(el.args) == 1 and norm(el.args[0]) == norm(ge.generators[0].target) and norm(expand_alias(el.func, aliases)) == "get_character_cell_size":
                        ok = True
        ctx.check(ok, f.fq, "sum(get_character_cell_size(c) for c in text)", f.where, "width of a string = sum of its characters' widths over the whole argument",
                  "cell_len no longer sums get_character_cell_size over every character of its argument")
    # LRUCache
    lc = ctx.repo.cls("_lru_cache:LRUCache")
    gi = lc.method("__getitem__")
    si = lc.method("__setitem__")
    if gi is not None:
        key = gi.params[1]
        read = None
        ok = True
        msgs = []
        reinserted = None
        for n in walk_local(gi.node):
            if isinstance(n, (ast.Assign, ast.AnnAssign)) and isinstance(n.value, ast.Call) and call_name(n.value).endswith("__getitem__"):
                read = norm(n.targets[0] if isinstance(n, ast.Assign) else n.target)
                if norm(n.value.args[-1]) != key:
                    msgs.append(f"reads under `{norm(n.value.args[-1])}`")
            if isinstance(n, ast.Call) and call_name(n).endswith("__setitem__"):
                reinserted = n
            if isinstance(n, ast.Call) and call_name(n).endswith("__delitem__"):
                if norm(n.args[-1]) != key:
                    msgs.append(f"deletes `{norm(n.args[-1])}`")
        if reinserted is not None:
            if norm(reinserted.args[-2]) != key or norm(reinserted.args[-1]) != read:
                msgs.append(f"re-inserts ({norm(reinserted.args[-2])}, {norm(reinserted.args[-1])}) instead of ({key}, {read})")
        rets = [r for r in walk_local(gi.node) if isinstance(r, ast.Return)]
        if read is None or not rets or any(norm(r.value) != read for r in rets):
            msgs.append("does not return the value it read")
        ctx.check(not msgs, gi.fq, "LRUCache.__getitem__", gi.where, "__getitem__ returns and re-inserts exactly the value read under the same key",
                  "LRUCache.__getitem__ " + "; ".join(msgs))
    if si is not None:
        key, value = si.params[1], si.params[2]
        stores = [n for n in walk_local(si.node) if isinstance(n, ast.Call) and call_name(n).endswith("__setitem__")]
        ok = bool(stores) and all(norm(s.args[-2]) == key and norm(s.args[-1]) == value for s in stores)
        # the final store must be unconditional (on every path)
        uncond = any(isinstance(st, ast.Expr) and st.value in stores for st in si.node.body)
        ctx.check(ok and uncond, si.fq, "LRUCache.__setitem__", si.where, "__setitem__ stores (key, value) unmodified on every path",
                  "LRUCache.__setitem__ does not store its (key, value) arguments unmodified on every path")
        others = [call_name(n) for n in walk_local(si.node) if isinstance(n, ast.Call) and isinstance(n.func, ast.Attribute) and n.func.attr in cfgmod.MUTATOR_METHODS and n.func.attr != "popitem"]
        ctx.check(not others, si.fq, "eviction", si.where, "eviction only removes entries (popitem)", f"__setitem__ also mutates through {others}")
    # lru_cache'd functions in cells.py are pure in the needed sense
    cm = ctx.repo.mod("cells")
    n_lru = 0
    for fn in list(cm.functions.values()):
        if any("lru_cache" in d for d in fn.decorators):
            n_lru += 1
            params = set(fn.params)
            local_defs = {x.id for x in walk_local(fn.node) if isinstance(x, ast.Name) and isinstance(x.ctx, ast.Store)}
            for x in walk_local(fn.node):
                if isinstance(x, (ast.Global, ast.Nonlocal)):
                    local_defs -= set(x.names)
            bad = []
            for x in walk_local(fn.node):
                if isinstance(x, ast.Name) and isinstance(x.ctx, ast.Load) and x.id not in params and x.id not in local_defs:
                    if x.id in ("len", "range", "min", "max", "ord", "int", "sum", "abs", "True", "False", "None"):
                        continue
                    if x.id in cm.functions:
                        continue
                    from ..memo import _global_is_constant
                    if _global_is_constant(ctx.repo, cm, x.id):
                        continue
                    bad.append(x.id)
            ctx.check(not bad, fn.fq, "lru_cache purity", fn.where, "memoised function reads only its arguments and single-assignment module constants",
                      f"lru_cache'd function reads non-constant global state {sorted(set(bad))}: result depends on history")
    ctx.floor(n_lru, 1, "lru_cache functions in cells.py")


def _pad_sinks(fn):
    """(node, style_expr, kind) for every construct that creates padding in fn."""
    aliases = alias_map(fn.node)
    out = []
    for n in walk_local(fn.node):
        if not isinstance(n, ast.Call):
            continue
        callee = norm(expand_alias(n.func, aliases))
        # Segment(" " * E, style)
        if callee in ("cls", "Segment") and n.args:
            a0 = n.args[0]
            if isinstance(a0, ast.BinOp) and isinstance(a0.op, ast.Mult) and any(isinstance(s, ast.Constant) and s.value == " " for s in (a0.left, a0.right)):
                st = arg_of(n, 1, "style")
                out.append((n, st, "pad-segment"))
        if callee.endswith("adjust_line_length"):
            st = arg_of(n, 2, "style")
            out.append((n, st, "adjust_line_length(style=)"))
    return out


def r13_4(ctx):
    ctx.rule("R13.4", "padding carries the requested style: in split_and_crop_lines / adjust_line_length / set_shape the style given to every padding segment or padding helper has the function's `style` parameter as its only reaching definition")
    total = 0
    for spec in ("segment:Segment.split_and_crop_lines", "segment:Segment.adjust_line_length", "segment:Segment.set_shape"):
        f = ctx.repo.fn(spec)
        if "style" not in f.params:
            raise AnchorVanished(f"{spec} has no `style` parameter")
        g = cfgmod.build(f.node)
        rd = g.reaching_defs(weak=False)
        sinks = _pad_sinks(f)
        for call, st, kind in sinks:
            total += 1
            where = f"{f.module.relpath}:{call.lineno}"
            construct = short(call)
            if st is None:
                ctx.violation(f.fq, construct, where, f"{kind} created without the requested style (padding would be unstyled)")
                continue
            if not isinstance(st, ast.Name):
                ctx.violation(f.fq, construct, where, f"{kind} receives `{norm(st)}`, not the `style` parameter")
                continue
            stmt = call
            while not isinstance(stmt, ast.stmt):
                stmt = f.module.parent_of[stmt]
            nodes = g.nodes_of(stmt)
            alldefs: Set[int] = set()
            for nid in nodes:
                alldefs |= rd.get(nid, {}).get(st.id, set())
            if st.id == "style" and alldefs == {g.entry}:
                ctx.ok(where, f"{kind}: style is the parameter on every path", f.fq)
            else:
                others = sorted(repr(g.nodes[d]) for d in alldefs if d != g.entry)
                ctx.violation(f.fq, construct, where,
                              f"{kind} uses `{st.id}`, which on some path is not the function's `style` parameter but was rebound by: {others} - padding gets the wrong style")
    ctx.floor(total, 3, "padding sinks")


def r13_5(ctx):
    ctx.rule("R13.5", "exact pad arithmetic: the number of pad spaces is (requested length - measured cell length) of the same line/string; crop target is (length - cells kept so far)")
    # adjust_line_length
    f = ctx.repo.fn("segment:Segment.adjust_line_length")
    g = cfgmod.build(f.node)
    rd = g.reaching_defs(weak=False)
    line_p, length_p = f.params[1], f.params[2]
    n_checked = 0
    for call, st, kind in _pad_sinks(f):
        if kind != "pad-segment":
            continue
        a0 = call.args[0]
        count = a0.right if isinstance(a0.left, ast.Constant) else a0.left
        form = lin(count)
        # which variable measures?
        meas = [k for k in form if k not in ("", length_p)]
        stmt = call
        while not isinstance(stmt, ast.stmt):
            stmt = f.module.parent_of[stmt]
        ok = form.get(length_p) == 1 and len(meas) == 1 and form.get(meas[0]) == -1 and "" not in form
        detail = show(form)
        if ok:
            # the measure's reaching definition is sum(segment.cell_length for segment in <line param>)
            defs = set()
            for nid in g.nodes_of(stmt):
                defs |= rd.get(nid, {}).get(meas[0], set())
            for d in defs:
                dn = g.nodes[d]
                v = getattr(dn.stmt, "value", None)
                good = (
                    isinstance(v, ast.Call) and call_name(v) == "sum" and v.args and isinstance(v.args[0], ast.GeneratorExp)
                    and norm(v.args[0].generators[0].iter) == line_p and norm(v.args[0].elt).endswith(".cell_length")
                    and not v.args[0].generators[0].ifs
                )
                if not good and isinstance(v, ast.Call) and isinstance(v.func, ast.Attribute) and isinstance(v.func.value, ast.Name) and v.func.value.id in ("cls", "self", "Segment") and len(v.args) == 1 and norm(v.args[0]) == line_p and f.cls is not None:
                    # the same sum behind a method of the class (Segment.get_line_length): read its closed return
                    from ..astutil import helper_closed_return as _hcr, substitute_call as _subc
                    h_ = f.cls.method(v.func.attr)
                    closed_ = _hcr(h_.node) if h_ is not None else None
                    if closed_ is not None:
                        b_ = _subc(h_.node, v, closed_, receiver=v.func.value)
                        good = (b_ is not None and isinstance(b_, ast.Call) and call_name(b_) == "sum" and b_.args and isinstance(b_.args[0], ast.GeneratorExp)
                                and norm(b_.args[0].generators[0].iter) == line_p and norm(b_.args[0].elt).endswith(".cell_length") and not b_.args[0].generators[0].ifs)
                if not good:
                    ok = False
                    detail += f" with {meas[0]} defined by `{short(dn.stmt) if dn.stmt is not None else dn.kind}`"
        n_checked += 1
        ctx.check(ok, f.fq, short(call), f"{f.module.relpath}:{call.lineno}", f"pad count = {length_p} - (sum of cell lengths of {line_p})",
                  f"pad count is `{detail}`, not requested length minus the measured length of the line: padded lines miss the requested width")
    # pad branch guarded by measured < length
    # crop: set_cell_size(text, length - kept)
    for n in walk_local(f.node):
        if isinstance(n, ast.Call) and call_name(n).endswith("set_cell_size") and len(n.args) == 2:
            form = lin(n.args[1])
            kept = [k for k in form if k not in ("", length_p)]
            ok = form.get(length_p) == 1 and len(kept) == 1 and form.get(kept[0]) == -1 and "" not in form
            if ok:
                # kept is accumulated by += cell_length of appended segments, starting from 0
                k = kept[0]
                stmt = n
                while not isinstance(stmt, ast.stmt):
                    stmt = f.module.parent_of[stmt]
                defs = set()
                for nid in g.nodes_of(stmt):
                    defs |= rd.get(nid, {}).get(k, set())
                for d in defs:
                    ds = g.nodes[d].stmt
                    if isinstance(ds, ast.Assign) and const_int(ds.value) == 0:
                        continue
                    if isinstance(ds, ast.AugAssign) and isinstance(ds.op, ast.Add):
                        continue
                    ok = False
            n_checked += 1
            ctx.check(ok, f.fq, short(n), f"{f.module.relpath}:{n.lineno}", "crop target = length - cells already kept",
                      f"crop target `{show(form)}` is not requested length minus cells kept: cropped lines miss the requested width")
    # set_cell_size pad branch
    s = ctx.repo.fn("cells:set_cell_size")
    text_p, total_p = s.params[0], s.params[1]
    gs = cfgmod.build(s.node)
    rds = gs.reaching_defs(weak=False)
    found = False
    for n in walk_local(s.node):
        if isinstance(n, ast.Return) and isinstance(n.value, ast.BinOp) and isinstance(n.value.op, ast.Add):
            l, r = n.value.left, n.value.right
            if isinstance(r, ast.BinOp) and isinstance(r.op, ast.Mult) and any(isinstance(x, ast.Constant) and x.value == " " for x in (r.left, r.right)):
                cnt = r.right if isinstance(r.left, ast.Constant) else r.left
                form = lin(cnt)
                meas = [k for k in form if k not in ("", total_p)]
                ok = norm(l) == text_p and form.get(total_p) == 1 and len(meas) == 1 and form.get(meas[0]) == -1 and "" not in form
                if ok and meas[0] == f"cell_len({text_p})":
                    pass
                elif ok and not meas[0].isidentifier():
                    ok = False
                elif ok:
                    for nid in gs.nodes_of(n):
                        if not rds.get(nid, {}).get(meas[0]):
                            ok = False
                    for nid in gs.nodes_of(n):
                        for d in rds.get(nid, {}).get(meas[0], set()):
                            v = getattr(gs.nodes[d].stmt, "value", None)
                            if not (isinstance(v, ast.Call) and call_name(v) == "cell_len" and norm(v.args[0]) == text_p):
                                ok = False
                        if rds.get(nid, {}).get(text_p, set()) != {gs.entry}:
                            ok = False
                found = True
                n_checked += 1
                ctx.check(ok, s.fq, short(n), f"{s.module.relpath}:{n.lineno}", "short strings are the original followed by exactly total - cell_len(text) spaces",
                          f"pad branch returns `{norm(n.value)}`: not the original plus (total - cell_len(text)) spaces")
    if not found:
        ctx.violation(s.fq, "pad branch", s.where, "set_cell_size has no branch that pads a short string with (total - cell_len) spaces")
    # crop branch structure: prefix slice of the original, single compensating space
    for n in walk_local(s.node):
        if isinstance(n, ast.Assign) and isinstance(n.value, ast.Subscript) and norm(n.value.value) == text_p:
            sl = n.value.slice
            ok = isinstance(sl, ast.Slice) and sl.lower is None and sl.step is None and sl.upper is not None
            n_checked += 1
            ctx.check(ok, s.fq, short(n), f"{s.module.relpath}:{n.lineno}", "cropped result is a prefix slice of the original string",
                      f"crop takes `{norm(n.value)}`, which is not a prefix of the original")
        if isinstance(n, ast.AugAssign) and isinstance(n.op, ast.Add) and norm(n.target) == text_p:
            ok = isinstance(n.value, ast.Constant) and n.value.value == " "
            # guard must be excess == -1
            par = s.module.parent_of.get(n)
            gok = isinstance(par, ast.If) and isinstance(par.test, ast.Compare) and len(par.test.ops) == 1 and isinstance(par.test.ops[0], ast.Eq) and const_int(par.test.comparators[0]) == -1
            n_checked += 1
            ctx.check(ok and gok, s.fq, f"if {norm(par.test) if isinstance(par, ast.If) else '?'}: {norm(n)}", f"{s.module.relpath}:{n.lineno}",
                      "one compensating space exactly when a wide character overshot by one cell",
                      "compensation after cutting a wide character is not `one space iff excess == -1`")
    # set_shape: blank lines have exactly `width` spaces; lines adjusted to `width`
    sh = ctx.repo.fn("segment:Segment.set_shape")
    width_p = sh.params[2]
    for call, st, kind in _pad_sinks(sh):
        if kind == "pad-segment":
            a0 = call.args[0]
            cnt = a0.right if isinstance(a0.left, ast.Constant) else a0.left
            n_checked += 1
            ctx.check(norm(cnt) == width_p, sh.fq, short(call), f"{sh.module.relpath}:{call.lineno}", "blank line has exactly `width` cells",
                      f"blank pad line has `{norm(cnt)}` cells, not `{width_p}`")
        else:
            ln = arg_of(call, 1, "length")
            n_checked += 1
            ctx.check(ln is not None and norm(ln) == width_p, sh.fq, short(call), f"{sh.module.relpath}:{call.lineno}", "each line adjusted to `width`",
                      f"line adjusted to `{norm(ln) if ln is not None else None}`, not to `{width_p}`")
    # split_and_crop_lines passes its own length
    sp = ctx.repo.fn("segment:Segment.split_and_crop_lines")
    length_sp = sp.params[2]
    for call, st, kind in _pad_sinks(sp):
        if kind != "pad-segment":
            ln = arg_of(call, 1, "length")
            pd = arg_of(call, 3, "pad")
            n_checked += 1
            ctx.check(ln is not None and norm(ln) == length_sp, sp.fq, short(call), f"{sp.module.relpath}:{call.lineno}", "each line cropped/padded to the requested `length`",
                      f"line adjusted to `{norm(ln) if ln is not None else None}`, not to `{length_sp}`")
    ctx.floor(n_checked, 6, "pad/crop arithmetic sites")
    # Segment.cell_length: control segments measure 0, others cell_len(text)
    cl = ctx.repo.cls("segment:Segment").method("cell_length")
    if cl is None:
        raise AnchorVanished("Segment.cell_length not found")
    rets = [r for r in walk_local(cl.node) if isinstance(r, ast.Return)]
    ok = len(rets) == 1 and isinstance(rets[0].value, ast.IfExp) and const_int(rets[0].value.body) == 0 and norm(rets[0].value.test) == "self.is_control" and norm(rets[0].value.orelse) == "cell_len(self.text)"
    alt = len(rets) == 1 and norm(rets[0].value) in ("cell_len(self.text) if not self.is_control else 0",)
    ctx.check(ok or alt, cl.fq, norm(rets[0]) if rets else "?", cl.where, "segment cell length = cell_len(text), 0 for control segments",
              "Segment.cell_length is no longer `0 if is_control else cell_len(text)`")
    # the crop ends the line: once the segment that crosses the limit has been cut to the remaining cells, nothing more may be
    # appended - every path from the set_cell_size(..) statement leaves the loop (break / return) before the loop takes another
    # segment; a loop that goes on appends the following segments to a line that is already full
    for lp in [x for x in walk_local(f.node) if isinstance(x, ast.For)]:
        crops = [nd for nd in g.stmt_nodes() if nd.kind == "stmt" and nd.stmt is not None and any(isinstance(c_, ast.Call) and norm(c_.func).endswith("set_cell_size") for c_ in ast.walk(nd.stmt))
                 and any(nd.stmt is y for y in ast.walk(lp))]
        if not crops:
            continue
        heads = set(g.nodes_of(lp))
        leaves = {nd.id for nd in g.stmt_nodes() if nd.kind == "stmt" and isinstance(nd.stmt, (ast.Break, ast.Return)) and any(nd.stmt is y for y in ast.walk(lp))}
        for nd in crops:
            back = bool(heads & g.reach([nd.id], avoid=leaves)) if leaves else True
            # (an update that marks the line as full - line_length = length - makes further appends impossible as well)
            full = any(isinstance(x.stmt, ast.Assign) and norm(x.stmt.targets[0]) == "line_length" and norm(x.stmt.value) == length_p for x in g.stmt_nodes() if x.kind == "stmt" and x.stmt is not None and any(x.stmt is y for y in ast.walk(lp)))
            ctx.check(not back or full, f.fq, short(nd.stmt), f"{f.module.relpath}:{nd.lineno}", "the crop ends the line",
                      f"after `{short(nd.stmt)}` the loop goes on with the next segment: the line is already `{length_p}` cells long, and every following segment narrower than the limit is appended to it - the cropped line comes out wider than requested")


def r13_8(ctx):
    ctx.rule("R13.8", "set_cell_size crop loop keeps the invariant `cells(kept characters) - excess == total`: excess starts at cell_len(text) - total over the per-character size list of the whole string, each iteration removes exactly one trailing size from the list and from excess, the loop runs while excess > 0, the result is the prefix of as many characters as sizes remain plus one space exactly when excess == -1 (sizes are at most 2 by R13.1/R13.2, so excess ends in {0, -1}) => the result has exactly `total` cells and is a prefix of the original followed by spaces")
    f = ctx.repo.fn("cells:set_cell_size")
    text_p, total_p = f.params[0], f.params[1]
    aliases = alias_map(f.node)
    m = f.module
    sizes = None
    for n in walk_local(f.node):
        if isinstance(n, ast.Assign) and isinstance(n.value, ast.ListComp) and len(n.value.generators) == 1:
            ge = n.value.generators[0]
            el = n.value.elt
            if norm(ge.iter) == text_p and not ge.ifs and isinstance(el, ast.Call) and norm(expand_alias(el.func, aliases)) == "get_character_cell_size" and len(el.args) == 1 and norm(el.args[0]) == norm(ge.target):
                sizes = norm(n.targets[0])
        # list(map(get_character_cell_size, text)) is the same list
        if isinstance(n, ast.Assign) and isinstance(n.value, ast.Call) and norm(n.value.func) == "list" and len(n.value.args) == 1:
            mp = n.value.args[0]
            if isinstance(mp, ast.Call) and norm(mp.func) == "map" and len(mp.args) == 2 and norm(expand_alias(mp.args[0], aliases)) == "get_character_cell_size" and norm(mp.args[1]) == text_p:
                sizes = norm(n.targets[0])
    ctx.check(sizes is not None, f.fq, "character_sizes = [size(c) for c in text]", f.where, "one cell size per character of the whole string", "set_cell_size no longer builds the list of per-character cell sizes of its whole argument")
    if sizes is None:
        return
    g = cfgmod.build(f.node)
    rd = g.reaching_defs(weak=False)
    loops = [n for n in walk_local(f.node) if isinstance(n, ast.While)]
    if len(loops) != 1:
        raise AnalysisError(f"set_cell_size: {len(loops)} while-loops (the crop loop this rule interprets pops characters from the end until the excess is gone); another cropping algorithm is not decided here")
    ctx.ok(f.where, "one crop loop", f.fq)
    lp = loops[0]
    t = lp.test
    conj = [norm(x) for x in (t.values if isinstance(t, ast.BoolOp) and isinstance(t.op, ast.And) else [t])]
    exv = None
    _keep_names = {norm(x.targets[0]) for x in walk_local(f.node) if isinstance(x, ast.Assign) and len(x.targets) == 1 and sizes is not None and norm(x.value) == f"len({sizes})"}
    for c in conj:
        if c.endswith(" > 0") and c[:-4] not in _keep_names:
            exv = c[:-4]
    # shape B: an index `keep` counts the characters still kept (initially len(sizes)) instead of popping the list
    keeps = [norm(x.targets[0]) for x in walk_local(f.node) if isinstance(x, ast.Assign) and len(x.targets) == 1 and isinstance(x.targets[0], ast.Name) and norm(x.value) == f"len({sizes})" and x.lineno < lp.lineno]
    keep = keeps[0] if len(keeps) == 1 and (f"{keeps[0]} > 0" in conj or keeps[0] in conj) else None
    ok = exv is not None and (sizes in conj or keep is not None) and len(conj) == 2
    ctx.check(ok, f.fq, f"while {norm(t)}", f"{m.relpath}:{lp.lineno}", "loop runs while cells are still in excess and characters remain",
              f"crop loop condition `{norm(t)}` is not `excess > 0 and {sizes}`: it stops early (result too wide) or removes one character too many")
    if exv is None:
        return
    # initial value of excess
    init_ok = False
    for nid in g.nodes_of(lp):
        for d in rd.get(nid, {}).get(exv, set()):
            ds = g.nodes[d].stmt
            if isinstance(ds, ast.Assign):
                form = lin(ds.value)
                meas = [k for k in form if k not in ("", total_p)]
                if form.get(total_p) == -1 and len(meas) == 1 and form[meas[0]] == 1 and "" not in form:
                    mv = meas[0]
                    for _hop in range(4):
                        if mv == f"cell_len({text_p})":
                            break
                        nxt = [norm(x.value) for x in walk_local(f.node) if isinstance(x, ast.Assign) and len(x.targets) == 1 and norm(x.targets[0]) == mv]
                        if len(nxt) != 1:
                            break
                        mv = nxt[0]
                    if mv == f"cell_len({text_p})":
                        init_ok = True
    ctx.check(init_ok, f.fq, f"{exv} = cell_len(text) - total", f"{m.relpath}:{lp.lineno}", "excess starts as measured cells minus requested cells", f"`{exv}` is not initialised to cell_len({text_p}) - {total_p}")
    body = [b for b in lp.body]
    okb = len(body) == 1 and isinstance(body[0], ast.AugAssign) and isinstance(body[0].op, ast.Sub) and norm(body[0].target) == exv and isinstance(body[0].value, ast.Call) and not body[0].value.args and norm(expand_alias(body[0].value.func, aliases)) == f"{sizes}.pop"
    if keep is not None:
        texts = [norm(b) for b in body]
        okb = texts in ([f"{keep} -= 1", f"{exv} -= {sizes}[{keep}]"], [f"{exv} -= {sizes}[{keep} - 1]", f"{keep} -= 1"])
    ctx.check(okb, f.fq, " ; ".join(norm(b) for b in body), f"{m.relpath}:{lp.lineno}", "each step drops the last character's size from the list and from excess (invariant kept)",
              f"the loop body is not exactly `{exv} -= {sizes}.pop()`: the removed cells and the removed characters get out of step")
    # after the loop: prefix of len(sizes) characters
    after = [n for n in walk_local(f.node) if isinstance(n, ast.Assign) and isinstance(n.targets[0], ast.Name) and isinstance(n.value, ast.Subscript) and norm(n.value.value) == text_p and n.lineno > lp.lineno]
    upper = keep if keep is not None else f"len({sizes})"
    okp = len(after) == 1 and isinstance(after[0].value.slice, ast.Slice) and after[0].value.slice.lower is None and after[0].value.slice.upper is not None and norm(after[0].value.slice.upper) == upper and after[0].value.slice.step is None
    ctx.check(okp, f.fq, norm(after[0]) if after else "?", f"{m.relpath}:{lp.lineno}", "kept text = as many leading characters as sizes remain", f"the kept text is not `{text_p}[:{upper}]`")
    if okp:
        res = norm(after[0].targets[0])
        pads = [x for x in walk_local(f.node) if isinstance(x, ast.If) and norm(x.test) in (f"{exv} == -1", f"-1 == {exv}", f"{exv} < 0") and len(x.body) == 1 and norm(x.body[0]) == f"{res} += ' '" and not x.orelse and x.lineno > after[0].lineno]
        rets = [r for r in walk_local(f.node) if isinstance(r, ast.Return) and r.lineno > lp.lineno]
        ctx.check(len(pads) == 1 and len(rets) == 1 and norm(rets[0].value) == res, f.fq, f"if {exv} == -1: {res} += ' '", f"{m.relpath}:{after[0].lineno}", "one space makes up for half of a double-width character that was cut",
                  f"the result is not `{res}` plus exactly one space when the excess ended at -1: the string is one cell short (or long) after cutting through a double-width character")


def r13_9(ctx):
    ctx.rule("R13.9", "chop_cells places every character exactly once, in order, and starts a new piece exactly when the next character would overflow: characters are popped from the reversed (char, size) list of the whole string, both branches append the popped character once, the running size is reset to that character's size on a new piece and increased by it otherwise, the test is `running + size > max_size`, pieces are joined in order")
    f = ctx.repo.fn("cells:chop_cells")
    m = f.module
    text_p, max_p, pos_p = f.params[0], f.params[1], f.params[2]
    aliases = alias_map(f.node)
    src = norm(f.node)
    chars = None
    for n in walk_local(f.node):
        if isinstance(n, ast.Assign) and isinstance(n.value, ast.Subscript) and isinstance(n.value.value, ast.ListComp) and norm(n.value.slice) == "::-1":
            lc = n.value.value
            ge = lc.generators[0]
            if norm(ge.iter) == text_p and not ge.ifs and isinstance(lc.elt, ast.Tuple) and norm(lc.elt.elts[0]) == norm(ge.target) and isinstance(lc.elt.elts[1], ast.Call) and norm(expand_alias(lc.elt.elts[1].func, aliases)) == "get_character_cell_size":
                chars = norm(n.targets[0])
    # third accepted shape: pieces are consecutive SLICES of the text:  for off, ch in enumerate(text): ... on overflow
    # lines.append(text[ls:off]); ls = off ...; after the loop lines.append(text[ls:]) - a partition of the text by construction
    if chars is None:
        for n in walk_local(f.node):
            if isinstance(n, ast.For) and isinstance(n.iter, ast.Call) and norm(n.iter.func) == "enumerate" and len(n.iter.args) == 1 and norm(n.iter.args[0]) == text_p and isinstance(n.target, ast.Tuple) and len(n.target.elts) == 2 and not n.orelse:
                off, ch3 = (norm(e) for e in n.target.elts)
                szs = [b for b in n.body if isinstance(b, ast.Assign) and len(b.targets) == 1 and isinstance(b.targets[0], ast.Name) and isinstance(b.value, ast.Call) and norm(expand_alias(b.value.func, aliases)) == "get_character_cell_size" and len(b.value.args) == 1 and norm(b.value.args[0]) == ch3]
                ifs3 = [b for b in n.body if isinstance(b, ast.If)]
                if len(szs) != 1 or len(ifs3) != 1 or len(n.body) != 2:
                    continue
                sz3 = szs[0].targets[0].id
                iff3 = ifs3[0]
                t3 = iff3.test
                okt = isinstance(t3, ast.Compare) and len(t3.ops) == 1 and isinstance(t3.ops[0], ast.Gt) and norm(t3.comparators[0]) == max_p and isinstance(t3.left, ast.BinOp) and isinstance(t3.left.op, ast.Add) and sz3 in (norm(t3.left.left), norm(t3.left.right))
                ctx.check(okt, f.fq, f"if {norm(t3)}", f"{m.relpath}:{iff3.lineno}", "new piece exactly when running size + this character exceeds max_size",
                          f"overflow test `{norm(t3)}` is not `running + {sz3} > {max_p}`: a piece can exceed the width, or characters that fit exactly are pushed to the next piece")
                if not okt:
                    return
                tot3 = norm(t3.left.left) if norm(t3.left.right) == sz3 else norm(t3.left.right)
                body_txt = [norm(b) for b in iff3.body]
                starts = [b.targets[0].id for b in iff3.body if isinstance(b, ast.Assign) and len(b.targets) == 1 and isinstance(b.targets[0], ast.Name) and norm(b.value) == off]
                ls = starts[0] if len(starts) == 1 else None
                ok_true = ls is not None and sorted(body_txt) == sorted([f"lines.append({text_p}[{ls}:{off}])", f"{ls} = {off}", f"{tot3} = {sz3}"]) and body_txt.index(f"lines.append({text_p}[{ls}:{off}])") < body_txt.index(f"{ls} = {off}")
                ok_false = [norm(b) for b in iff3.orelse] == [f"{tot3} += {sz3}"]
                ctx.check(ok_true and ok_false, f.fq, "; ".join(body_txt), f"{m.relpath}:{iff3.lineno}", "on overflow the finished piece text[start:offset] is emitted, the next piece starts at this character and the running size restarts at its size; otherwise the size grows",
                          "the slice bookkeeping of chop_cells is not `lines.append(text[start:offset]); start = offset; running = size` / `running += size`: characters are dropped, duplicated or pieces overflow")
                inits = {norm(x.targets[0]): norm(x.value) for x in walk_local(f.node) if isinstance(x, ast.Assign) and len(x.targets) == 1 and x.lineno < n.lineno}
                anns = {norm(x.target): norm(x.value) for x in walk_local(f.node) if isinstance(x, ast.AnnAssign) and x.value is not None and x.lineno < n.lineno}
                inits.update(anns)
                after = [x for x in f.node.body if getattr(x, "lineno", 0) > n.lineno]
                ok_tail = len(after) == 2 and ls is not None and norm(after[0]) == f"lines.append({text_p}[{ls}:])" and norm(after[1]) == "return lines"
                ctx.check(ls is not None and inits.get(ls) == "0" and inits.get("lines") == "[]" and inits.get(tot3) == pos_p and ok_tail, f.fq, "start = 0 ... lines.append(text[start:]); return lines", f.where,
                          "pieces start at offset 0, the last piece runs to the end of the text, the running size starts at the given position: the pieces are a partition of the text, in order",
                          "chop_cells (slice form) does not start at offset 0 / does not emit the final piece text[start:] / does not start the running size at `position`")
                return
    # second accepted shape: plain forward iteration `for ch in text:` with `size = get_character_cell_size(ch)` in the body
    fwd = None
    if chars is None:
        for n in walk_local(f.node):
            if isinstance(n, ast.For) and norm(n.iter) == text_p and isinstance(n.target, ast.Name) and not n.orelse:
                szs = [b for b in n.body if isinstance(b, ast.Assign) and len(b.targets) == 1 and isinstance(b.targets[0], ast.Name) and isinstance(b.value, ast.Call) and norm(expand_alias(b.value.func, aliases)) == "get_character_cell_size" and len(b.value.args) == 1 and norm(b.value.args[0]) == n.target.id]
                if len(szs) == 1:
                    fwd = (n, n.target.id, szs[0].targets[0].id)
    ctx.check(chars is not None or fwd is not None, f.fq, "characters = [(c, size(c)) for c in text][::-1]  |  for c in text: size = size(c)", f.where, "every character of the argument is visited once, in order, with its cell size",
              "chop_cells no longer visits every character of its whole argument in order with its cell size (neither the reversed (character, size) list popped from the end nor a plain `for character in text`)")
    if chars is None and fwd is None:
        return
    if fwd is not None:
        lp, ch, sz = fwd
    else:
        loops = [n for n in walk_local(f.node) if isinstance(n, ast.While) and norm(n.test) == chars]
        ctx.check(len(loops) == 1, f.fq, f"while {chars}", f.where, "loop until every character is placed", "chop_cells does not loop until the character list is empty")
        if not loops:
            return
        lp = loops[0]
        first = lp.body[0]
        okf = isinstance(first, ast.Assign) and isinstance(first.targets[0], ast.Tuple) and isinstance(first.value, ast.Call) and norm(expand_alias(first.value.func, aliases)) == f"{chars}.pop" and not first.value.args
        ch, sz = (norm(e) for e in first.targets[0].elts) if okf else ("character", "size")
        ctx.check(okf, f.fq, norm(first), f"{m.relpath}:{first.lineno}", "next character taken from the end of the reversed list (original order)", "characters are not taken one by one from the end of the reversed list")
    ifs = [b for b in lp.body if isinstance(b, ast.If)]
    ctx.check(len(ifs) == 1, f.fq, "overflow test", f"{m.relpath}:{lp.lineno}", "one overflow test per character", "chop_cells loop has no single overflow test")
    if not ifs:
        return
    iff = ifs[0]
    tot = None
    t = iff.test
    okt = isinstance(t, ast.Compare) and len(t.ops) == 1 and isinstance(t.ops[0], ast.Gt) and norm(t.comparators[0]) == max_p and isinstance(t.left, ast.BinOp) and isinstance(t.left.op, ast.Add) and sz in (norm(t.left.left), norm(t.left.right))
    if okt:
        tot = norm(t.left.left) if norm(t.left.right) == sz else norm(t.left.right)
    ctx.check(okt, f.fq, f"if {norm(t)}", f"{m.relpath}:{iff.lineno}", "new piece exactly when running size + this character exceeds max_size",
              f"overflow test `{norm(t)}` is not `running + {sz} > {max_p}`: a piece can exceed the width, or characters that fit exactly are pushed to the next piece")
    if tot is None:
        return

    # the placement clauses below read one vocabulary: append(ch) / lines.append([ch]) / lines[-1].append(ch), the running size and
    # the re-binding of the append alias.  A loop body that keeps its pieces differently (a separate current-piece list joined on
    # overflow, string concatenation, ...) is another bookkeeping: not decided here, never reported
    def _known(st):
        if isinstance(st, ast.If):
            return all(_known(b_) for b_ in list(st.body) + list(st.orelse))
        if isinstance(st, ast.Expr) and isinstance(st.value, ast.Call):
            fn_ = norm(expand_alias(st.value.func, aliases))
            if any(isinstance(y, ast.Call) and isinstance(y.func, ast.Attribute) and y.func.attr == "join" for a_ in st.value.args for y in ast.walk(a_)):
                return False  # a finished piece is joined and stored: the pieces are strings, not lists of characters
            return fn_.endswith(".append") or fn_ == "append"
        if isinstance(st, ast.Expr) and isinstance(st.value, ast.Constant):
            return True
        if isinstance(st, ast.Assign) and len(st.targets) == 1:
            t_ = norm(st.targets[0])
            return t_ == tot or t_ == "append" or norm(st.value) == f"[{ch}]" or norm(st.value).endswith(".append")
        if isinstance(st, ast.AugAssign):
            return norm(st.target) == tot
        return False
    foreign = [st for st in list(iff.body) + list(iff.orelse) if not _known(st)]
    if foreign:
        raise AnalysisError(f"chop_cells: the pieces are kept by `{short(foreign[0])}`, a bookkeeping this rule does not read (it interprets append(character) / lines.append([character]) and slices of the text); the placement clause is not decided")

    def appends(body):
        out = 0
        local_lists = {norm(b.targets[0]) for b in body if isinstance(b, ast.Assign) and len(b.targets) == 1 and norm(b.value) == f"[{ch}]"}
        for b in body:
            if not isinstance(b, (ast.Expr, ast.Assign)):
                continue  # only unconditional statements of the branch count
            for c in ast.walk(b):
                if isinstance(c, ast.Call) and c.args:
                    fn = norm(expand_alias(c.func, aliases))
                    if fn.endswith(".append") and (norm(c.args[0]) == ch or norm(c.args[0]) == f"[{ch}]" or (norm(c.args[0]) in local_lists and fn == "lines.append")):
                        out += 1
                    elif isinstance(c.func, ast.Name) and c.func.id == "append" and norm(c.args[0]) == ch:
                        out += 1
        return out

    ctx.check(appends(iff.body) == 1 and appends(iff.orelse) == 1, f.fq, "append(character) in both branches", f"{m.relpath}:{iff.lineno}", "the popped character is placed exactly once whichever branch runs",
              f"the popped character is appended {appends(iff.body)} time(s) on overflow and {appends(iff.orelse)} time(s) otherwise: characters are dropped or duplicated")
    new_ok = any(isinstance(b, ast.Assign) and norm(b.targets[0]) == tot and norm(b.value) == sz for b in iff.body)
    same_ok = any(isinstance(b, ast.AugAssign) and isinstance(b.op, ast.Add) and norm(b.target) == tot and norm(b.value) == sz for b in iff.orelse)
    ctx.check(new_ok and same_ok, f.fq, f"{tot} = {sz} / {tot} += {sz}", f"{m.relpath}:{iff.lineno}", "running size restarts at the character's size on a new piece and grows by it otherwise",
              "the running size is not reset to the character's size on a new piece / increased by it otherwise: later pieces overflow or are cut short")
    ctx.check(any(isinstance(n, ast.Assign) and norm(n.targets[0]) == tot and norm(n.value) == pos_p for n in walk_local(f.node)), f.fq, f"{tot} = {pos_p}", f.where, "running size starts at the given position", f"the running size does not start at `{pos_p}`")
    if fwd is not None:
        # the list the fitting character is appended to must be the LAST piece: the name is (re)bound to each new piece that
        # is appended to `lines`, and initially to the first piece
        cur_names = {norm(c.func.value) for b in iff.orelse for c in ast.walk(b) if isinstance(c, ast.Call) and isinstance(c.func, ast.Attribute) and c.func.attr == "append" and c.args and norm(c.args[0]) == ch}
        okc = len(cur_names) == 1
        if okc:
            cur = next(iter(cur_names))
            rebound = any(isinstance(b, ast.Assign) and norm(b.targets[0]) == cur and norm(b.value) == f"[{ch}]" for b in iff.body) and any(isinstance(c, ast.Call) and norm(c.func) == "lines.append" and c.args and norm(c.args[0]) == cur for b in iff.body for c in ast.walk(b))
            init_defs = [x for x in walk_local(f.node) if isinstance(x, (ast.Assign, ast.AnnAssign)) and norm(x.targets[0] if isinstance(x, ast.Assign) else x.target) == cur and x.lineno < lp.lineno]
            lines_init = [x for x in walk_local(f.node) if isinstance(x, (ast.Assign, ast.AnnAssign)) and norm(x.targets[0] if isinstance(x, ast.Assign) else x.target) == "lines" and x.value is not None and norm(x.value) == f"[{cur}]"]
            okc = rebound and len(init_defs) == 1 and norm(init_defs[0].value) == "[]" and len(lines_init) == 1
        ctx.check(okc, f.fq, "current piece", f"{m.relpath}:{iff.lineno}", "a fitting character goes to the last piece (the name is rebound to every new piece appended to `lines`)",
                  "the list a fitting character is appended to is not the last piece of `lines`: characters land in the wrong piece")
    rets = [r for r in walk_local(f.node) if isinstance(r, ast.Return)]
    ctx.check(len(rets) == 1 and norm(rets[0].value) == "[''.join(line) for line in lines]", f.fq, norm(rets[0]) if rets else "?", f.where, "pieces returned in order", "chop_cells does not return the pieces joined in order")


CELL_PARAMS = {
    "cells:set_cell_size": {"total"},
    "cells:chop_cells": {"max_size", "position"},
    "segment:Segment.adjust_line_length": {"length"},
    "segment:Segment.split_and_crop_lines": {"length"},
    "segment:Segment.set_shape": {"width"},
}
CELL_CALLS = {"cell_len", "get_character_cell_size", "_get_character_cell_size", "_get_codepoint_cell_size", "_get_size", "get_line_length"}


def r13_7(ctx):
    ctx.rule("R13.7", "units: a quantity measured in terminal cells (cell_len, per-character cell sizes, the requested size parameters) is never used where a character count is required (string slice bounds / indices) nor added to one; character counts come from len() of strings / per-character lists")
    n = 0
    work = [(k, set(v)) for k, v in CELL_PARAMS.items()]
    done = set(CELL_PARAMS)
    while work:
        spec, cparams = work.pop(0)
        f = ctx.repo.fn(spec)
        mod = f.module
        aliases = alias_map(f.node)
        unit: Dict[str, str] = {p: "cells" for p in cparams}
        cell_lists: Set[str] = set()

        def u(e) -> Optional[str]:
            if isinstance(e, ast.Constant):
                return "const"
            if isinstance(e, ast.Name):
                return unit.get(e.id)
            if isinstance(e, ast.Attribute) and e.attr in ("cell_length", "cell_len"):
                return "cells"
            if isinstance(e, ast.Call):
                cn = norm(expand_alias(e.func, aliases))
                if cn.split(".")[-1] in CELL_CALLS:
                    return "cells"
                if cn == "len":
                    return "chars"
                if cn == "sum" and e.args and isinstance(e.args[0], (ast.GeneratorExp, ast.ListComp)):
                    return u(e.args[0].elt)
                if cn in ("min", "max") and e.args:
                    us = {u(a) for a in e.args} - {"const", None}
                    return us.pop() if len(us) == 1 else None
                if isinstance(e.func, ast.Attribute) and e.func.attr == "pop" and norm(expand_alias(e.func.value, aliases)) in cell_lists:
                    return "cells"
                if isinstance(e.func, ast.Name) and e.func.id in aliases and norm(aliases[e.func.id]).endswith(".pop") and norm(aliases[e.func.id]).rsplit(".", 1)[0] in cell_lists:
                    return "cells"
                return None
            if isinstance(e, ast.BinOp) and isinstance(e.op, (ast.Add, ast.Sub)):
                a, b = u(e.left), u(e.right)
                us = {a, b} - {"const", None}
                if len(us) == 1:
                    return us.pop()
                if len(us) == 2:
                    return "mixed"
                return None
            if isinstance(e, ast.BinOp) and isinstance(e.op, (ast.FloorDiv, ast.Mult, ast.Mod)):
                return u(e.left) if u(e.right) in ("const", None) else (u(e.right) if u(e.left) in ("const", None) else None)
            if isinstance(e, ast.UnaryOp):
                return u(e.operand)
            return None

        for _ in range(4):
            for x in walk_local(f.node):
                if isinstance(x, ast.Assign) and len(x.targets) == 1 and isinstance(x.targets[0], ast.Name):
                    name = x.targets[0].id
                    v = x.value
                    if isinstance(v, ast.ListComp) and u(v.elt) == "cells":
                        cell_lists.add(name)
                        continue
                    uu = u(v)
                    if uu in ("cells", "chars") and unit.get(name) in (None, uu):
                        unit[name] = uu
                elif isinstance(x, ast.AugAssign) and isinstance(x.target, ast.Name):
                    uu = u(x.value)
                    if uu in ("cells", "chars") and unit.get(x.target.id) is None:
                        unit[x.target.id] = uu
                elif isinstance(x, ast.Assign) and isinstance(x.targets[0], ast.Tuple) and isinstance(x.value, ast.Call):
                    pass
        for x in walk_local(f.node):
            if isinstance(x, ast.Subscript) and isinstance(x.ctx, ast.Load):
                base_is_str = isinstance(x.value, ast.Name) and x.value.id in ("text", "_text", "line_token") or (isinstance(x.value, ast.Attribute) and x.value.attr in ("text", "plain"))
                if not base_is_str:
                    continue
                bounds = [b for b in ((x.slice.lower, x.slice.upper) if isinstance(x.slice, ast.Slice) else (x.slice,)) if b is not None]
                for b in bounds:
                    n += 1
                    uu = u(b)
                    ctx.check(uu not in ("cells", "mixed"), f.fq, short(x), f"{mod.relpath}:{x.lineno}", f"string index `{norm(b)}` is a character count ({uu or 'unitless'})",
                              f"`{short(x)}` indexes a string with `{norm(b)}`, a quantity measured in terminal cells: for wide (2-cell) or zero-width characters the cut lands on the wrong character and the result does not have the requested cell width")
            if isinstance(x, ast.BinOp) and isinstance(x.op, (ast.Add, ast.Sub)):
                if u(x) == "mixed" and u(x.left) != "mixed" and u(x.right) != "mixed":
                    n += 1
                    ctx.violation(f.fq, short(x), f"{mod.relpath}:{x.lineno}", f"`{short(x)}` adds a cell width to a character count: the two only agree for text made of 1-cell characters")
            if isinstance(x, ast.Call) and norm(expand_alias(x.func, aliases)).endswith("set_cell_size") and len(x.args) == 2:
                n += 1
                uu = u(x.args[1])
                ctx.check(uu != "chars", f.fq, short(x), f"{mod.relpath}:{x.lineno}", "target size passed to set_cell_size is a cell count", f"`{short(x)}` passes a character count where a cell width is required")
            # helpers of the same class / module that receive a cell quantity are analysed with that parameter in cells
            if isinstance(x, ast.Call):
                callee = None
                fx = x.func
                if isinstance(fx, ast.Attribute) and isinstance(fx.value, ast.Name) and fx.value.id in ("cls", "self") and f.cls is not None:
                    callee = f.cls.method(fx.attr)
                    skip = 1
                elif isinstance(fx, ast.Name) and fx.id in mod.functions:
                    callee = mod.functions[fx.id]
                    skip = 0
                if callee is not None and callee.fq not in done and callee.fq != f.fq:
                    cp = {callee.params[i + skip] for i, a in enumerate(x.args) if i + skip < len(callee.params) and u(a) == "cells"}
                    cp |= {k.arg for k in x.keywords if k.arg and u(k.value) == "cells"}
                    if cp:
                        done.add(callee.fq)
                        work.append((callee.fq, cp))
    ctx.floor(n, 2, "unit-sensitive sites")


def r13_6(ctx):
    from .common import memo_rule
    memo_rule(ctx, "R13.6", ["cells", "_lru_cache", "segment"], 1)


def r13_10(ctx):
    from ..astutil import inline as _inl, single_defs as _sdf
    from ..yieldpaths import canon_test
    ctx.rule("R13.10", "(a) who-may-write the width cache: the container that memoises cell_len is stored into only by cell_len itself (under its own argument, R13.3) - nothing else may prime it; (b) split_and_crop_lines hands EVERY segment of a line to adjust_line_length: whether a segment is appended to the current line never depends on the requested length or on accumulated cell counts (cropping is adjust_line_length's job, which keeps the part that fits)")
    cm = ctx.repo.mod("cells")
    f = ctx.repo.fn("cells:cell_len")
    d = default_args(f.node)
    cache_names = set()
    for k, v in d.items():
        if isinstance(v, ast.Call) and "Cache" in call_name(v):
            pass  # anonymous: only reachable through the parameter
        elif isinstance(v, ast.Name):
            cache_names.add(v.id)
    n = 1
    bad = []
    for fn in cm.functions.values():
        if fn is f or cm.in_main_guard(fn.node):
            continue
        for x in walk_local(fn.node):
            if isinstance(x, ast.Subscript) and isinstance(x.ctx, (ast.Store, ast.Del)) and isinstance(x.value, ast.Name) and x.value.id in cache_names:
                bad.append((fn, x))
            if isinstance(x, ast.Call) and isinstance(x.func, ast.Attribute) and isinstance(x.func.value, ast.Name) and x.func.value.id in cache_names and x.func.attr in ("update", "setdefault", "__setitem__", "pop", "clear"):
                bad.append((fn, x))
    for fn, x in bad:
        ctx.violation(fn.fq, short(m_parent_stmt(cm, x)), f"{cm.relpath}:{x.lineno}", f"`{short(m_parent_stmt(cm, x))}` writes the cache that memoises cell_len from outside cell_len: later cell_len() calls return this value for that string whether or not it is its width (history-dependent widths)")
    ctx.check(not bad, f.fq, "writers of the cell_len cache", f.where, "only cell_len writes its cache", "the cell_len cache has a writer outside cell_len")
    sp = ctx.repo.fn("segment:Segment.split_and_crop_lines")
    g = cfgmod.build(sp.node)
    sd = _sdf(sp.node)
    al = alias_map(sp.node)
    lenp = "length"
    for nd in g.stmt_nodes():
        if nd.kind != "stmt" or nd.stmt is None:
            continue
        apps = [c for c in ast.walk(nd.stmt) if isinstance(c, ast.Call) and norm(expand_alias(c.func, al)) == "line.append"]
        if not apps:
            continue
        n += 1
        atoms = []
        for t, v in g.branch_facts(nd.id):
            for a, tv in canon_test(_inl(t, sd), v):
                atoms.append(a)
        dep = [a for a in atoms if re.search(r"\b" + lenp + r"\b", a) or "cell_len" in a or "cell_length" in a]
        ctx.check(not dep, sp.fq, short(nd.stmt), f"{sp.module.relpath}:{nd.lineno}", "segment joins the current line regardless of widths",
                  f"`{short(nd.stmt)}` runs only under {dep}: a segment is kept or dropped as a whole depending on cell counts before adjust_line_length sees it, so the segment that crosses the limit vanishes instead of being cut (lines come out short, later segments slide left)")
    ctx.floor(n, 3, "cache writers / line appends")


def m_parent_stmt(mod, node):
    cur = node
    while not isinstance(cur, ast.stmt):
        cur = mod.parent_of[cur]
    return cur


def r13_11(ctx):
    ctx.rule("R13.11", "segment lines break at '\\n' and nowhere else, and no character is dropped: in segment.py the line-splitting functions (split_lines, split_and_crop_lines and their helpers) divide segment text with partition('\\n') / split('\\n') - never str.splitlines() (which also breaks at \\r, \\v, \\f, \\x1c-\\x1e, \\x85, \\u2028, \\u2029) and never strip characters other than the '\\n' they split at")
    m = ctx.repo.mod("segment")
    n = 0
    fns = [f for q, f in m.functions.items() if q.split(".")[-1] in ("split_lines", "split_and_crop_lines") or "split_lines" in q or "split_and_crop_lines" in q]
    if not fns:
        raise AnchorVanished("segment: split_lines / split_and_crop_lines not found")
    # helpers of the module that those functions call (a shared generator that walks the text line by line) belong to them
    for f0 in list(fns):
        for c in walk_local(f0.node):
            if isinstance(c, ast.Call) and isinstance(c.func, ast.Name) and c.func.id in m.functions and m.functions[c.func.id] not in fns:
                fns.append(m.functions[c.func.id])
            # ... and class / static methods of Segment reached as cls.X / self.X / Segment.X
            if isinstance(c, ast.Call) and isinstance(c.func, ast.Attribute) and isinstance(c.func.value, ast.Name) and c.func.value.id in ("cls", "self", "Segment"):
                h = m.functions.get(f"Segment.{c.func.attr}")
                if h is not None and h not in fns and c.func.attr not in ("adjust_line_length", "line", "control", "make_control", "get_line_length", "get_shape", "set_shape"):
                    fns.append(h)
    for f in fns:
        for x in walk_local(f.node):
            if not (isinstance(x, ast.Call) and isinstance(x.func, ast.Attribute)):
                continue
            a = x.func.attr
            where = f"{m.relpath}:{x.lineno}"
            if a == "splitlines":
                n += 1
                ctx.violation(f.fq, short(x), where, f"`{short(x)}` breaks lines at every Unicode line boundary (\\r, \\x0b, \\x0c, \\x85, \\u2028 ...), not only at '\\n': Segment('a\\rb\\n') becomes two lines and the characters it split at are lost")
            elif a in ("find", "index", "rfind", "rindex") and x.args and isinstance(x.args[0], ast.Constant) and isinstance(x.args[0].value, str):
                n += 1
                ctx.check(x.args[0].value == "\n", f.fq, short(x), where, "line boundaries searched as '\\n'", f"`{short(x)}` looks for {x.args[0].value!r} as the line boundary, not for '\\n'")
            elif a in ("partition", "split", "rpartition", "rsplit") and x.args:
                n += 1
                sep = x.args[0]
                ok = isinstance(sep, ast.Constant) and sep.value == "\n"
                ctx.check(ok, f.fq, short(x), where, "split at '\\n'", f"`{short(x)}` splits segment text at {norm(sep)}, not at '\\n'")
            elif a in ("strip", "rstrip", "lstrip") and x.args and isinstance(x.args[0], ast.Constant) and isinstance(x.args[0].value, str) and set(x.args[0].value) - {"\n"}:
                n += 1
                ctx.violation(f.fq, short(x), where, f"`{short(x)}` removes characters other than the new line from segment text: carriage returns (and whatever else is listed) vanish from the output")
    ctx.floor(n, 1, "split primitives in the segment line-splitting functions")


RULES = [r13_1, r13_2, r13_3, r13_4, r13_5, r13_6, r13_7, r13_8, r13_9, r13_10, r13_11]
