"""Procedure inlining as a normal form.

A refactoring that extracts a helper (a private method, a module-level function, a local closure) does not change what the
code does, but it moves the statements a rule looks for out of the function the rule reads.  Before a module is indexed, every
function that is NOT part of the symbol inventory of the pinned source (`sa/baseline_symbols.json`: the functions the rules
were written against) is therefore expanded at its call sites inside the same module, so the caller again contains the
statements it contained before the extraction.  Functions of the inventory are never touched - the rules address them by name.

Supported call sites (everything else is left alone, helper and call stay as they are):
    h(..)                      as a statement                      -> the body
    x = h(..) / x: T = h(..) / x op= h(..) / return h(..)          -> the body, then the statement with the result variable
    yield from h(..)  /  x = yield from h(..)                       -> the body of a generator helper (its yields stay yields)
    a call of h nested in the expression of a simple statement      -> the body first, result in a temporary
A helper is eligible when it has no *args / **kwargs / decorators other than staticmethod / classmethod, is not recursive,
not async, and its body can be brought into single-exit form: `return` only as the last statement of a block, `if`s whose
branches return, and `with` blocks - no return inside a loop or a try.  Receiver: `self.h(..)` (same class), `cls.h` /
`Class.h` for static and class methods, bare `h(..)` for module-level functions and closures of the enclosing function.

Positions: every inlined statement takes the line of the call it replaces (order-sensitive rules keep working).  Locals of the
helper that collide with names of the caller are renamed.  The result is used for analysis only - it is never executed.
"""
from __future__ import annotations

import ast
import copy
import itertools
from typing import Dict, List, Optional, Set, Tuple

_counter = itertools.count()


class _NotInlinable(Exception):
    pass


def _always_returns(stmts: List[ast.stmt]) -> bool:
    if not stmts:
        return False
    last = stmts[-1]
    if isinstance(last, (ast.Return, ast.Raise)):
        return True
    if isinstance(last, ast.If):
        return _always_returns(last.body) and _always_returns(last.orelse)
    if isinstance(last, ast.With):
        return _always_returns(last.body)
    return False


def _contains_return(node: ast.AST) -> bool:
    for x in ast.walk(node):
        if isinstance(x, (ast.FunctionDef, ast.AsyncFunctionDef, ast.Lambda)) and x is not node:
            continue
        if isinstance(x, ast.Return):
            return True
    return False


def _returns_outside_nested(node: ast.AST) -> bool:
    """a Return that belongs to `node`'s own function (not to a nested def)"""
    stack = [node]
    while stack:
        x = stack.pop()
        if isinstance(x, ast.Return):
            return True
        for c in ast.iter_child_nodes(x):
            if isinstance(c, (ast.FunctionDef, ast.AsyncFunctionDef, ast.Lambda)):
                continue
            stack.append(c)
    return False


def single_exit(stmts: List[ast.stmt], res: Optional[str]) -> List[ast.stmt]:
    """Statement list equivalent to `stmts` in which no `return` occurs: `return e` becomes `res = e` (dropped when res is None)
    and the statements after a returning `if` move into the other branch.  Raises _NotInlinable for returns in loops / try."""
    out: List[ast.stmt] = []
    for i, st in enumerate(stmts):
        rest = stmts[i + 1:]
        if isinstance(st, ast.Return):
            if res is not None:
                val = st.value if st.value is not None else ast.Constant(value=None)
                out.append(ast.copy_location(ast.Assign(targets=[ast.Name(id=res, ctx=ast.Store())], value=val), st))
            elif st.value is not None and not isinstance(st.value, (ast.Constant, ast.Name)):
                out.append(ast.copy_location(ast.Expr(value=st.value), st))
            return out
        if isinstance(st, ast.If) and _returns_outside_nested(st):
            b_ret, o_ret = _always_returns(st.body), _always_returns(st.orelse)
            if b_ret and not _returns_outside_nested(ast.Module(body=st.orelse, type_ignores=[])):
                new = ast.If(test=st.test, body=single_exit(st.body, res) or [ast.Pass()], orelse=single_exit(st.orelse + rest, res))
                out.append(ast.copy_location(new, st))
                return out
            if o_ret and not _returns_outside_nested(ast.Module(body=st.body, type_ignores=[])):
                new = ast.If(test=st.test, body=single_exit(st.body + rest, res) or [ast.Pass()], orelse=single_exit(st.orelse, res))
                out.append(ast.copy_location(new, st))
                return out
            if b_ret and o_ret:
                new = ast.If(test=st.test, body=single_exit(st.body, res) or [ast.Pass()], orelse=single_exit(st.orelse, res))
                out.append(ast.copy_location(new, st))
                return out
            if b_ret:
                # the else branch may return as well (nested guard): push the rest into it
                new = ast.If(test=st.test, body=single_exit(st.body, res) or [ast.Pass()], orelse=single_exit(st.orelse + rest, res))
                out.append(ast.copy_location(new, st))
                return out
            if o_ret:
                new = ast.If(test=st.test, body=single_exit(st.body + rest, res) or [ast.Pass()], orelse=single_exit(st.orelse, res))
                out.append(ast.copy_location(new, st))
                return out
            raise _NotInlinable("conditional return that does not end its branch")
        if isinstance(st, ast.With) and _returns_outside_nested(st):
            if rest and not _always_returns(st.body):
                raise _NotInlinable("return inside a with block that is followed by more statements")
            new = ast.With(items=st.items, body=single_exit(st.body, res) or [ast.Pass()])
            out.append(ast.copy_location(new, st))
            if _always_returns(st.body):
                return out
            continue
        if isinstance(st, (ast.For, ast.While, ast.Try, ast.AsyncFor, ast.AsyncWith)) and _returns_outside_nested(st):
            raise _NotInlinable("return inside a loop or try")
        out.append(st)
    return out


def _is_generator(fn: ast.FunctionDef) -> bool:
    stack = list(fn.body)
    while stack:
        x = stack.pop()
        if isinstance(x, (ast.Yield, ast.YieldFrom)):
            return True
        for c in ast.iter_child_nodes(x):
            if isinstance(c, (ast.FunctionDef, ast.AsyncFunctionDef, ast.Lambda)):
                continue
            stack.append(c)
    return False


def _stored_names(nodes) -> Set[str]:
    out: Set[str] = set()
    for n in nodes:
        for x in ast.walk(n):
            if isinstance(x, ast.Name) and isinstance(x.ctx, (ast.Store, ast.Del)):
                out.add(x.id)
            elif isinstance(x, (ast.FunctionDef, ast.ClassDef)):
                out.add(x.name)
            elif isinstance(x, ast.arg):
                out.add(x.arg)
            elif isinstance(x, ast.ExceptHandler) and x.name:
                out.add(x.name)
    return out


def _all_names(node) -> Set[str]:
    return {x.id for x in ast.walk(node) if isinstance(x, ast.Name)} | {x.arg for x in ast.walk(node) if isinstance(x, ast.arg)}


def _simple_arg(a: ast.AST) -> bool:
    if isinstance(a, (ast.Name, ast.Constant)):
        return True
    if isinstance(a, ast.Attribute):
        return _simple_arg(a.value)
    return False


class _Subst(ast.NodeTransformer):
    def __init__(self, expr_map: Dict[str, ast.AST], rename: Dict[str, str]):
        self.expr_map = expr_map
        self.rename = rename

    def visit_Name(self, node):
        if node.id in self.expr_map and isinstance(node.ctx, ast.Load):
            return copy.deepcopy(self.expr_map[node.id])
        if node.id in self.rename:
            return ast.copy_location(ast.Name(id=self.rename[node.id], ctx=node.ctx), node)
        return node

    def visit_arg(self, node):
        return node

    def visit_FunctionDef(self, node):
        # nested defs: rename free uses, leave their own parameters
        shadow = {a.arg for a in node.args.args + node.args.kwonlyargs}
        saved = (self.expr_map, self.rename)
        self.expr_map = {k: v for k, v in self.expr_map.items() if k not in shadow}
        self.rename = {k: v for k, v in self.rename.items() if k not in shadow}
        if node.name in saved[1]:
            node.name = saved[1][node.name]
        self.generic_visit(node)
        self.expr_map, self.rename = saved
        return node

    visit_Lambda = visit_FunctionDef  # type: ignore

    def visit_Lambda(self, node):  # noqa: F811
        shadow = {a.arg for a in node.args.args + node.args.kwonlyargs}
        saved = (self.expr_map, self.rename)
        self.expr_map = {k: v for k, v in self.expr_map.items() if k not in shadow}
        self.rename = {k: v for k, v in self.rename.items() if k not in shadow}
        self.generic_visit(node)
        self.expr_map, self.rename = saved
        return node


class _Helper:
    def __init__(self, node: ast.FunctionDef, kind: str, cls: Optional[str], owner: Optional[ast.AST]):
        self.node = node
        self.kind = kind          # 'module' | 'method' | 'static' | 'classmethod' | 'closure'
        self.cls = cls
        self.owner = owner        # enclosing FunctionDef for closures
        self.is_gen = _is_generator(node)


def _eligible(fn: ast.FunctionDef) -> bool:
    if isinstance(fn, ast.AsyncFunctionDef):
        return False
    a = fn.args
    if a.vararg or a.kwarg or a.posonlyargs:
        return False
    for d in fn.decorator_list:
        if not (isinstance(d, ast.Name) and d.id in ("staticmethod", "classmethod")):
            return False
    for x in ast.walk(fn):
        if isinstance(x, (ast.Nonlocal, ast.Global, ast.Await)):
            return False
        if isinstance(x, ast.Call) and ((isinstance(x.func, ast.Name) and x.func.id == fn.name) or (isinstance(x.func, ast.Attribute) and x.func.attr == fn.name)):
            return False  # (possibly) recursive
        if isinstance(x, ast.Call) and isinstance(x.func, ast.Name) and x.func.id in ("locals", "vars", "super", "eval", "exec"):
            return False
        if isinstance(x, ast.Name) and x.id == "__class__":
            return False
    return True


def _strip_doc(body: List[ast.stmt]) -> List[ast.stmt]:
    if body and isinstance(body[0], ast.Expr) and isinstance(body[0].value, ast.Constant) and isinstance(body[0].value.value, str):
        return body[1:]
    return body


def _bind(h: _Helper, call: ast.Call, caller_names: Set[str], caller_self: Optional[str], overwritten: Set[str] = frozenset()) -> Tuple[List[ast.stmt], Dict[str, ast.AST], Dict[str, str]]:
    """(prologue assignments, parameter->expression substitutions, local renames) for one call site"""
    fn = h.node
    params = [a.arg for a in fn.args.args]
    defaults = dict(zip(params[len(params) - len(fn.args.defaults):], fn.args.defaults)) if fn.args.defaults else {}
    kwonly = [a.arg for a in fn.args.kwonlyargs]
    kwdefaults = {a.arg: d for a, d in zip(fn.args.kwonlyargs, fn.args.kw_defaults) if d is not None}
    expr_map: Dict[str, ast.AST] = {}
    bound: Dict[str, ast.AST] = {}
    pos = list(params)
    if h.kind == "method":
        if not params:
            raise _NotInlinable("method without self")
        if caller_self is None:
            raise _NotInlinable("no receiver")
        bound[params[0]] = ast.Name(id=caller_self, ctx=ast.Load())
        pos = params[1:]
    elif h.kind == "classmethod":
        bound[params[0]] = ast.Name(id=h.cls or "cls", ctx=ast.Load())
        pos = params[1:]
    if any(isinstance(a, ast.Starred) for a in call.args) or any(k.arg is None for k in call.keywords):
        raise _NotInlinable("star arguments")
    if len(call.args) > len(pos):
        raise _NotInlinable("too many positional arguments")
    for p, a in zip(pos, call.args):
        bound[p] = a
    for k in call.keywords:
        if k.arg in bound or (k.arg not in params and k.arg not in kwonly):
            raise _NotInlinable("bad keyword")
        bound[k.arg] = k.value
    for p in pos + kwonly:
        if p not in bound:
            d = defaults.get(p) if p in defaults else kwdefaults.get(p)
            if d is None:
                raise _NotInlinable(f"missing argument {p}")
            bound[p] = d
    body = _strip_doc(fn.body)
    stored = _stored_names(body)
    locals_ = stored - set(bound)
    prologue: List[ast.stmt] = []
    rename: Dict[str, str] = {}
    suffix = f"__{fn.name.lstrip('_')}"
    for p, a in bound.items():
        if p in stored and isinstance(a, ast.Name) and a.id in overwritten:
            # x = h(x) / x, y = h(x): the caller's variable is overwritten by this very statement, so the helper may work on it
            # directly instead of on a renamed copy
            if a.id != p:
                rename[p] = a.id
            continue
        if p in stored or not _simple_arg(a):
            # needs its own variable (reassigned in the helper, or the argument is not a plain reference)
            newp = p if (p not in caller_names) else p + suffix
            if isinstance(a, ast.Name) and a.id == newp:
                continue
            rename[p] = newp
            prologue.append(ast.Assign(targets=[ast.Name(id=newp, ctx=ast.Store())], value=copy.deepcopy(a)))
        else:
            if isinstance(a, ast.Name) and a.id == p:
                continue
            expr_map[p] = a
    for l in locals_:
        if l in caller_names:
            rename[l] = l + suffix
    return prologue, expr_map, rename


def _fold_constant_branches(stmts: List[ast.stmt]) -> List[ast.stmt]:
    """after a constant argument was substituted for a parameter: `if True: A else: B` is A, `x if False else y` is y"""
    class F(ast.NodeTransformer):
        def visit_IfExp(self, node):
            self.generic_visit(node)
            if isinstance(node.test, ast.Constant):
                return node.body if node.test.value else node.orelse
            return node

        def visit_UnaryOp(self, node):
            self.generic_visit(node)
            if isinstance(node.op, ast.Not) and isinstance(node.operand, ast.Constant) and isinstance(node.operand.value, (bool, type(None))):
                return ast.copy_location(ast.Constant(value=not node.operand.value), node)
            return node

        def visit_Compare(self, node):
            self.generic_visit(node)
            # `None is not None`, `None is None`, `3 is None` after a literal argument took a parameter's place
            if len(node.ops) == 1 and isinstance(node.ops[0], (ast.Is, ast.IsNot)) and isinstance(node.left, ast.Constant) and isinstance(node.comparators[0], ast.Constant) \
                    and (node.left.value is None or node.comparators[0].value is None):
                same = node.left.value is None and node.comparators[0].value is None
                return ast.copy_location(ast.Constant(value=same if isinstance(node.ops[0], ast.Is) else not same), node)
            return node

        def visit_BoolOp(self, node):
            self.generic_visit(node)
            if isinstance(node.op, ast.And):
                if any(isinstance(v, ast.Constant) and isinstance(v.value, (bool, type(None))) and not v.value for v in node.values):
                    # `x and False` is falsy whatever x is; as a branch test that is all that matters (x is a plain name / attribute)
                    if all(isinstance(v, (ast.Constant, ast.Name, ast.Attribute)) for v in node.values):
                        return ast.copy_location(ast.Constant(value=False), node)
                vals = [v for v in node.values if not (isinstance(v, ast.Constant) and v.value is True)]
                if len(vals) == 1:
                    return vals[0]
                if vals and len(vals) < len(node.values):
                    node.values = vals
            return node
    out: List[ast.stmt] = []
    for st in stmts:
        st = F().visit(st)
        for fld in ("body", "orelse", "finalbody"):
            sub = getattr(st, fld, None)
            if isinstance(sub, list) and sub and isinstance(sub[0], ast.stmt) and not isinstance(st, (ast.FunctionDef, ast.ClassDef)):
                setattr(st, fld, _fold_constant_branches(sub) or ([ast.Pass()] if fld == "body" else []))
        if isinstance(st, ast.If) and isinstance(st.test, ast.Constant):
            out.extend(st.body if st.test.value else st.orelse)
            continue
        out.append(st)
    return out


def _expand(h: _Helper, call: ast.Call, res: Optional[str], caller_names: Set[str], caller_self: Optional[str], at: ast.AST) -> List[ast.stmt]:
    overwritten: Set[str] = set()
    if isinstance(at, ast.Assign) and (at.value is call or (isinstance(at.value, ast.YieldFrom) and at.value.value is call)):
        for t in at.targets:
            for x in ast.walk(t):
                if isinstance(x, ast.Name) and isinstance(x.ctx, ast.Store):
                    overwritten.add(x.id)
    prologue, expr_map, rename = _bind(h, call, caller_names, caller_self, overwritten)
    body = copy.deepcopy(_strip_doc(h.node.body))
    body = single_exit(body, res)
    sub = _Subst(expr_map, rename)
    new_body = [sub.visit(st) for st in body]
    new_body = _fold_constant_branches(new_body)
    out = prologue + new_body
    if not out:
        out = [ast.Pass()]
    for st in out:
        for x in ast.walk(st):
            if hasattr(x, "lineno") or isinstance(x, (ast.stmt, ast.expr)):
                x.lineno = getattr(at, "lineno", 1)
                x.col_offset = getattr(at, "col_offset", 0)
                x.end_lineno = getattr(at, "end_lineno", getattr(at, "lineno", 1))
                x.end_col_offset = getattr(at, "end_col_offset", 0)
    return out


def _as_expression(stmts: List[ast.stmt], depth: int = 0) -> Optional[ast.AST]:
    """the value a block returns, as one expression, when the block consists only of returns, `if`s of such blocks and
    single-use temporaries (`x = e` with x read later): `if c: return a` / `return b`  ->  `a if c else b`"""
    if depth > 6 or not stmts:
        return None
    st, rest = stmts[0], stmts[1:]
    if isinstance(st, ast.Return):
        return st.value if st.value is not None else ast.Constant(value=None)
    if isinstance(st, ast.If):
        a = _as_expression(st.body if _always_returns(st.body) else st.body + rest, depth + 1)
        b = _as_expression(st.orelse + rest if not _always_returns(st.orelse) else st.orelse, depth + 1)
        if a is None or b is None:
            return None
        return ast.IfExp(test=st.test, body=a, orelse=b)
    if isinstance(st, ast.Assign) and len(st.targets) == 1 and isinstance(st.targets[0], ast.Name):
        inner = _as_expression(rest, depth + 1)
        if inner is None:
            return None
        nm = st.targets[0].id
        if any(isinstance(x, ast.Name) and x.id == nm and isinstance(x.ctx, ast.Store) for r_ in rest for x in ast.walk(r_)):
            return None
        return _Subst({nm: st.value}, {}).visit(copy.deepcopy(inner))
    if isinstance(st, ast.Expr) and isinstance(st.value, ast.Constant):
        return _as_expression(rest, depth + 1)
    return None


def _fold_result(body: List[ast.stmt], res: Optional[str]):
    """when the only store to the result variable is the last statement `res = <expr>` (the helper ended in `return <expr>`),
    hand that expression to the statement that uses the result instead of a temporary: nothing executes in between"""
    if res is None or not body:
        return body, None
    last = body[-1]
    if isinstance(last, ast.Assign) and len(last.targets) == 1 and isinstance(last.targets[0], ast.Name) and last.targets[0].id == res:
        n = sum(1 for st in body for x in ast.walk(st) if isinstance(x, ast.Name) and x.id == res and isinstance(x.ctx, ast.Store))
        if n == 1:
            return body[:-1], last.value
    return body, None


def _callee_key(call: ast.Call, caller_cls: Optional[str], caller_self: Optional[str], enclosing: List[ast.FunctionDef]):
    f = call.func
    if isinstance(f, ast.Name):
        return ("name", f.id)
    if isinstance(f, ast.Attribute) and isinstance(f.value, ast.Name):
        if caller_self is not None and f.value.id == caller_self:
            return ("self", caller_cls, f.attr)
        if f.value.id == "cls" or (caller_cls is not None and f.value.id == caller_cls):
            return ("cls", caller_cls, f.attr)
        return ("clsname", f.value.id, f.attr)
    return None


def inline_module(tree: ast.Module, known: Optional[Set[str]]) -> ast.Module:
    """Expand, inside `tree`, the call sites of every function whose qualified name is not in `known`."""
    if known is None:
        return tree
    # --- collect helpers ---------------------------------------------------------------------------------------------
    helpers: Dict[Tuple, _Helper] = {}

    def qual(prefix, name):
        return prefix + name

    def collect(body, prefix, cls, owner):
        for st in body:
            if isinstance(st, (ast.FunctionDef, ast.AsyncFunctionDef)):
                qn = qual(prefix, st.name)
                if qn not in known and isinstance(st, ast.FunctionDef) and _eligible(st):
                    decos = {d.id for d in st.decorator_list if isinstance(d, ast.Name)}
                    if cls is not None and owner is None:
                        kind = "static" if "staticmethod" in decos else ("classmethod" if "classmethod" in decos else "method")
                        key = ("m", cls, st.name)
                    elif owner is not None:
                        kind = "closure"
                        key = ("c", id(owner), st.name)
                    else:
                        kind = "module"
                        key = ("f", st.name)
                    if key not in helpers:
                        helpers[key] = _Helper(st, kind, cls, owner)
                collect(st.body, qn + ".<locals>.", None, st)
            elif isinstance(st, ast.ClassDef) and owner is None and not prefix:
                collect(st.body, st.name + ".", st.name, None)
            elif isinstance(st, (ast.If, ast.Try, ast.With, ast.For, ast.While)):
                for fld in ("body", "orelse", "finalbody"):
                    collect(getattr(st, fld, []) or [], prefix, cls, owner)
                for hnd in getattr(st, "handlers", []) or []:
                    collect(hnd.body, prefix, cls, owner)
    collect(tree.body, "", None, None)
    if not helpers:
        return tree

    # a name that is defined more than once (property setter pairs etc.) is ambiguous: skip
    def lookup(key, caller_cls, enclosing):
        if key is None:
            return None
        if key[0] == "name":
            for owner in reversed(enclosing):
                h = helpers.get(("c", id(owner), key[1]))
                if h is not None:
                    return h
            return helpers.get(("f", key[1]))
        if key[0] == "self":
            return helpers.get(("m", key[1], key[2]))  # instance, static and class methods can all be called through self
        if key[0] in ("cls", "clsname"):
            h = helpers.get(("m", key[1], key[2]))
            return h if h is not None and h.kind in ("static", "classmethod") else None
        return None

    # recursion guard: helper call graph among helpers
    def calls_of(fn):
        return [x for x in ast.walk(fn) if isinstance(x, ast.Call)]

    changed_any = False

    def process_function(fn: ast.FunctionDef, cls: Optional[str], enclosing: List[ast.FunctionDef], depth: int = 0):
        nonlocal changed_any
        a = fn.args.args
        decos = {d.id for d in fn.decorator_list if isinstance(d, ast.Name)}
        caller_self = a[0].arg if (cls is not None and not enclosing and a and "staticmethod" not in decos and "classmethod" not in decos) else None
        if enclosing and cls is None:
            # closures see the self of the method that encloses them
            caller_self = getattr(enclosing[0], "_inl_self", None)
        fn._inl_self = caller_self  # type: ignore
        fn._inl_cls = cls if cls is not None else getattr(enclosing[0], "_inl_cls", None) if enclosing else None  # type: ignore
        caller_cls = fn._inl_cls  # type: ignore

        # bound-name aliases of helpers (`make = _helper` / `make = self._helper`, assigned once, only ever called): the call sites
        # are calls of the helper; the alias statement goes away with them
        import copy as _copy
        alias_defs: Dict[str, List[ast.Assign]] = {}
        stores: Dict[str, int] = {}
        for x in ast.walk(fn):
            if isinstance(x, ast.Name) and isinstance(x.ctx, (ast.Store, ast.Del)):
                stores[x.id] = stores.get(x.id, 0) + 1
            elif isinstance(x, ast.arg):
                stores[x.arg] = stores.get(x.arg, 0) + 1
        for x in ast.walk(fn):
            if isinstance(x, ast.Assign) and len(x.targets) == 1 and isinstance(x.targets[0], ast.Name) and isinstance(x.value, (ast.Name, ast.Attribute)):
                fake = ast.Call(func=x.value, args=[], keywords=[])
                if lookup(_callee_key(fake, caller_cls, caller_self, enclosing + [fn]), caller_cls, enclosing + [fn]) is not None and stores.get(x.targets[0].id) == 1:
                    alias_defs.setdefault(x.targets[0].id, []).append(x)
        if alias_defs:
            call_funcs = {id(c.func) for c in ast.walk(fn) if isinstance(c, ast.Call)}
            loads = {}
            for x in ast.walk(fn):
                if isinstance(x, ast.Name) and isinstance(x.ctx, ast.Load) and x.id in alias_defs:
                    loads.setdefault(x.id, []).append(x)
            usable = {nm for nm in alias_defs if all(id(l) in call_funcs for l in loads.get(nm, []))}
            if usable:
                class _A(ast.NodeTransformer):
                    def visit_Call(self, node):
                        self.generic_visit(node)
                        if isinstance(node.func, ast.Name) and node.func.id in usable:
                            node.func = ast.copy_location(_copy.deepcopy(alias_defs[node.func.id][0].value), node.func)
                        return node

                    def visit_Assign(self, node):
                        if any(node is d for nm in usable for d in alias_defs[nm]):
                            return ast.copy_location(ast.Pass(), node)
                        self.generic_visit(node)
                        return node
                _A().visit(fn)
                ast.fix_missing_locations(fn)

        def rewrite_block(stmts: List[ast.stmt], budget: List[int]) -> List[ast.stmt]:
            out: List[ast.stmt] = []
            for st in stmts:
                # recurse into compound statements first
                for fld in ("body", "orelse", "finalbody"):
                    sub = getattr(st, fld, None)
                    if isinstance(sub, list) and sub and isinstance(sub[0], ast.stmt) and not isinstance(st, (ast.FunctionDef, ast.AsyncFunctionDef, ast.ClassDef)):
                        setattr(st, fld, rewrite_block(sub, budget))
                for hnd in getattr(st, "handlers", []) or []:
                    hnd.body = rewrite_block(hnd.body, budget)
                if isinstance(st, (ast.FunctionDef, ast.AsyncFunctionDef, ast.ClassDef)):
                    out.append(st)
                    continue
                new = try_inline_stmt(st, budget)
                out.extend(new)
            return out

        inlined_names: Set[str] = set()

        def names_now() -> Set[str]:
            # names of the caller, not counting what only occurs inside the helper definitions nested in it
            out: Set[str] = set()
            stack = [fn]
            while stack:
                x = stack.pop()
                if isinstance(x, ast.FunctionDef) and x is not fn and id(x) in helper_nodes:
                    continue
                if isinstance(x, ast.Name):
                    out.add(x.id)
                elif isinstance(x, ast.arg):
                    out.add(x.arg)
                stack.extend(ast.iter_child_nodes(x))
            return out | inlined_names

        def try_inline_stmt(st: ast.stmt, budget: List[int]) -> List[ast.stmt]:
            nonlocal changed_any
            if budget[0] <= 0:
                return [st]
            # the call to inline: the statement's own top-level call, or the first helper call nested in its expression
            top = None
            mode = None
            if isinstance(st, ast.Expr) and isinstance(st.value, ast.Call):
                top, mode = st.value, "stmt"
            elif isinstance(st, ast.Expr) and isinstance(st.value, ast.YieldFrom) and isinstance(st.value.value, ast.Call):
                top, mode = st.value.value, "yieldfrom"
            elif isinstance(st, (ast.Assign, ast.AnnAssign, ast.AugAssign)) and isinstance(getattr(st, "value", None), ast.Call):
                top, mode = st.value, "assign"
            elif isinstance(st, (ast.Assign, ast.AnnAssign)) and isinstance(getattr(st, "value", None), ast.YieldFrom) and isinstance(st.value.value, ast.Call):
                top, mode = st.value.value, "assign-yieldfrom"
            elif isinstance(st, ast.Return) and isinstance(st.value, ast.Call):
                top, mode = st.value, "return"
            h = lookup(_callee_key(top, caller_cls, caller_self, enclosing + [fn]), caller_cls, enclosing + [fn]) if top is not None else None
            if h is not None and h.node is fn:
                h = None
            if h is not None and mode in ("yieldfrom", "assign-yieldfrom") and not h.is_gen:
                h = None
            if h is not None and mode in ("stmt", "assign", "return") and h.is_gen:
                h = None
            if h is None and isinstance(st, (ast.Return, ast.Assign)) and isinstance(st.value, ast.Call) and isinstance(st.value.func, ast.Name) and st.value.func.id == "list" \
                    and len(st.value.args) == 1 and not st.value.keywords and isinstance(st.value.args[0], ast.Call):
                # a drained generator:  return list(G(args))  /  x = list(G(args))  with G a helper generator - the caller builds the
                # list G yields:  acc = []; <body of G with `yield v` as acc.append(v), `yield from e` as acc.extend(e)>; return acc
                gcall = st.value.args[0]
                hg = lookup(_callee_key(gcall, caller_cls, caller_self, enclosing + [fn]), caller_cls, enclosing + [fn])
                if hg is not None and hg.node is not fn and hg.is_gen:
                    ys_ = [y for y in ast.walk(hg.node) if isinstance(y, (ast.Yield, ast.YieldFrom))]
                    stmt_ys = [x.value for x in ast.walk(hg.node) if isinstance(x, ast.Expr) and isinstance(x.value, (ast.Yield, ast.YieldFrom))]
                    nested_defs = [x for x in ast.walk(hg.node) if isinstance(x, (ast.FunctionDef, ast.Lambda)) and x is not hg.node]
                    if len(ys_) == len(stmt_ys) and all(y.value is not None for y in ys_) and not nested_defs:
                        acc = None
                        if isinstance(st, ast.Assign) and len(st.targets) == 1 and isinstance(st.targets[0], ast.Name):
                            acc = st.targets[0].id
                        accn = acc or f"__acc{next(_counter)}"
                        try:
                            body = _expand(hg, gcall, None, names_now() | {accn}, caller_self, st)
                        except _NotInlinable:
                            body = None
                        if body is not None:
                            class Y(ast.NodeTransformer):
                                def visit_Expr(self, node):
                                    if isinstance(node.value, ast.Yield):
                                        call_ = ast.Call(func=ast.Attribute(value=ast.Name(id=accn, ctx=ast.Load()), attr="append", ctx=ast.Load()), args=[node.value.value], keywords=[])
                                        return ast.copy_location(ast.Expr(value=ast.copy_location(call_, node)), node)
                                    if isinstance(node.value, ast.YieldFrom):
                                        call_ = ast.Call(func=ast.Attribute(value=ast.Name(id=accn, ctx=ast.Load()), attr="extend", ctx=ast.Load()), args=[node.value.value], keywords=[])
                                        return ast.copy_location(ast.Expr(value=ast.copy_location(call_, node)), node)
                                    return node
                            body = [Y().visit(b_) for b_ in body]
                            init = ast.copy_location(ast.Assign(targets=[ast.Name(id=accn, ctx=ast.Store())], value=ast.List(elts=[], ctx=ast.Load()), lineno=st.lineno), st)
                            inlined_names.update(_stored_names(body) | {accn})
                            budget[0] -= 1
                            changed_any = True
                            tail_ = [ast.copy_location(ast.Return(value=ast.Name(id=accn, ctx=ast.Load())), st)] if isinstance(st, ast.Return) else []
                            return [init] + rewrite_block(body, budget) + tail_
            if h is None:
                # nested call in a simple statement
                if isinstance(st, (ast.Expr, ast.Assign, ast.AnnAssign, ast.AugAssign, ast.Return)):
                    val = getattr(st, "value", None)
                    if val is not None:
                        for x in ast.walk(val):
                            if isinstance(x, (ast.Lambda, ast.GeneratorExp, ast.ListComp, ast.SetComp, ast.DictComp)):
                                break
                        cand = None
                        blocked = set()
                        for x in ast.walk(val):
                            if isinstance(x, (ast.Lambda, ast.GeneratorExp, ast.ListComp, ast.SetComp, ast.DictComp, ast.IfExp, ast.BoolOp)):
                                for y in ast.walk(x):
                                    if y is not x:
                                        blocked.add(id(y))
                        for x in ast.walk(val):
                            if isinstance(x, ast.Call) and x is not val and id(x) not in blocked:
                                hh = lookup(_callee_key(x, caller_cls, caller_self, enclosing + [fn]), caller_cls, enclosing + [fn])
                                if hh is not None and hh.node is not fn and not hh.is_gen:
                                    cand = (x, hh)
                                    break
                        if cand is not None:
                            x, hh = cand
                            tmp = f"__inl{next(_counter)}"
                            try:
                                body = _expand(hh, x, tmp, names_now(), caller_self, st)
                            except _NotInlinable:
                                return [st]
                            inlined_names.update(_stored_names(body))
                            budget[0] -= 1
                            changed_any = True
                            body, direct = _fold_result(body, tmp)

                            class R(ast.NodeTransformer):
                                def visit_Call(self, node):
                                    if node is x:
                                        return ast.copy_location(copy.deepcopy(direct) if direct is not None else ast.Name(id=tmp, ctx=ast.Load()), node)
                                    return self.generic_visit(node)
                            st2 = R().visit(st)
                            return rewrite_block(body, budget) + try_inline_stmt(st2, budget)
                return [st]
            res = None
            if mode in ("assign", "return", "assign-yieldfrom"):
                res = f"__inl{next(_counter)}"
            try:
                body = _expand(h, top, res, names_now(), caller_self, st)
            except _NotInlinable:
                return [st]
            inlined_names.update(_stored_names(body))
            budget[0] -= 1
            changed_any = True
            tail: List[ast.stmt] = []
            body, direct = _fold_result(body, res)
            res_expr = copy.deepcopy(direct) if direct is not None else ast.Name(id=res, ctx=ast.Load())
            if mode in ("assign", "assign-yieldfrom"):
                st2 = copy.copy(st)
                st2.value = ast.copy_location(res_expr, st)
                tail = [st2]
                if isinstance(st2, ast.Assign) and len(st2.targets) == 1 and isinstance(st2.targets[0], ast.Name) and isinstance(st2.value, ast.Name) and st2.value.id == st2.targets[0].id:
                    tail = []  # x = x
                elif direct is not None and isinstance(st2, ast.Assign) and len(st2.targets) == 1 and isinstance(st2.targets[0], ast.Tuple) and isinstance(st2.value, ast.Tuple) \
                        and len(st2.targets[0].elts) == len(st2.value.elts) and all(isinstance(t, ast.Name) for t in st2.targets[0].elts) and not any(isinstance(v, ast.Starred) for v in st2.value.elts):
                    # a, b = (x, y)  with the helper's returned tuple in hand: two plain assignments, when no element reads a target
                    tnames = {t.id for t in st2.targets[0].elts}
                    if not any(isinstance(x, ast.Name) and x.id in tnames for v in st2.value.elts for x in ast.walk(v)):
                        tail = []
                        for t, v in zip(st2.targets[0].elts, st2.value.elts):
                            if isinstance(v, ast.Name) and v.id == t.id:
                                continue
                            tail.append(ast.copy_location(ast.Assign(targets=[ast.Name(id=t.id, ctx=ast.Store())], value=v, lineno=st.lineno), st))
            elif mode == "return":
                tail = [ast.copy_location(ast.Return(value=ast.copy_location(res_expr, st)), st)]
            # helpers called by the helper are expanded in turn
            return rewrite_block(body, budget) + tail

        budget = [60]
        fn.body = rewrite_block(fn.body, budget)

        # calls that sit where statements cannot be put (inside comprehensions, lambdas, conditional expressions): a helper
        # whose body is one expression is substituted in place, arguments for parameters
        class E(ast.NodeTransformer):
            def visit_FunctionDef(self, node):
                return node if node is not fn else self.generic_visit(node)

            def visit_Call(self, node):
                nonlocal changed_any
                self.generic_visit(node)
                hh = lookup(_callee_key(node, caller_cls, caller_self, enclosing + [fn]), caller_cls, enclosing + [fn])
                if hh is None or hh.node is fn or hh.is_gen or budget[0] <= 0:
                    return node
                ex = _as_expression(copy.deepcopy(_strip_doc(hh.node.body)))
                if ex is None:
                    return node
                try:
                    prologue, expr_map, rename = _bind(hh, node, set(), caller_self)
                except _NotInlinable:
                    return node
                # every parameter must be substitutable as an expression (no prologue assignments possible here)
                for st_ in prologue:
                    expr_map[[k for k, v in rename.items() if v == st_.targets[0].id][0]] = st_.value
                rename = {}
                budget[0] -= 1
                changed_any = True
                new = _Subst(expr_map, rename).visit(ex)
                for x in ast.walk(new):
                    if isinstance(x, (ast.expr,)):
                        ast.copy_location(x, node)
                return new
        fn.body = [E().visit(st) for st in fn.body]
        # nested functions of this function
        for st in list(ast.walk(fn)):
            if isinstance(st, ast.FunctionDef) and st is not fn and _parent_fn.get(id(st)) is fn:
                process_function(st, None, enclosing + [fn], depth + 1)

    # parent function map for nested defs
    _parent_fn: Dict[int, ast.AST] = {}

    def map_parents(fn):
        stack = list(fn.body)
        while stack:
            x = stack.pop()
            if isinstance(x, (ast.FunctionDef, ast.AsyncFunctionDef)):
                _parent_fn[id(x)] = fn
                map_parents(x)
                continue
            if isinstance(x, ast.ClassDef):
                continue
            stack.extend(ast.iter_child_nodes(x))

    def top_functions(body, cls):
        for st in body:
            if isinstance(st, ast.FunctionDef):
                yield st, cls
            elif isinstance(st, ast.ClassDef) and cls is None:
                yield from top_functions(st.body, st.name)
            elif isinstance(st, (ast.If, ast.Try)):
                for fld in ("body", "orelse", "finalbody"):
                    yield from top_functions(getattr(st, fld, []) or [], cls)

    # helpers first (so that a helper used inside another helper is already expanded when that one is inlined)
    order = list(top_functions(tree.body, None))
    for fn, cls in order:
        map_parents(fn)
    helper_nodes = {id(h.node) for h in helpers.values()}
    for rounds in range(3):
        for fn, cls in sorted(order, key=lambda t: id(t[0]) not in helper_nodes):
            process_function(fn, cls, [])
    if changed_any:
        # a helper whose every use was expanded is dead: drop its definition (rules that scan all functions of a module
        # must not read the now unreachable copy out of context)
        def refs(name, skip):
            n = 0
            stack = [tree]
            while stack:
                x = stack.pop()
                if x is skip:
                    continue
                if isinstance(x, ast.Name) and x.id == name:
                    n += 1
                elif isinstance(x, ast.Attribute) and x.attr == name:
                    n += 1
                stack.extend(ast.iter_child_nodes(x))
            return n

        def drop(body):
            keep = []
            for st in body:
                if isinstance(st, ast.FunctionDef) and id(st) in helper_nodes and refs(st.name, st) == 0:
                    continue
                for fld in ("body", "orelse", "finalbody"):
                    sub = getattr(st, fld, None)
                    if isinstance(sub, list) and sub and isinstance(sub[0], ast.stmt):
                        new_sub = drop(sub)
                        setattr(st, fld, new_sub if new_sub or fld != "body" else [ast.copy_location(ast.Pass(), st)])
                for hnd in getattr(st, "handlers", []) or []:
                    hnd.body = drop(hnd.body) or [ast.copy_location(ast.Pass(), hnd)]
                keep.append(st)
            return keep
        tree.body = drop(tree.body)
        ast.fix_missing_locations(tree)
        tree._sa_inlined = True  # type: ignore
    return tree


def symbol_inventory(tree: ast.Module) -> List[str]:
    """qualified names of every function of a module, in the naming scheme `inline_module` uses"""
    out: List[str] = []

    def collect(body, prefix, in_class):
        for st in body:
            if isinstance(st, (ast.FunctionDef, ast.AsyncFunctionDef)):
                qn = prefix + st.name
                out.append(qn)
                collect(st.body, qn + ".<locals>.", False)
            elif isinstance(st, ast.ClassDef) and not prefix:
                collect(st.body, st.name + ".", True)
            elif isinstance(st, (ast.If, ast.Try, ast.With, ast.For, ast.While)):
                for fld in ("body", "orelse", "finalbody"):
                    collect(getattr(st, fld, []) or [], prefix, in_class)
                for hnd in getattr(st, "handlers", []) or []:
                    collect(hnd.body, prefix, in_class)
    collect(tree.body, "", False)
    return sorted(set(out))
