"""C09 Measurements are sound bounds on what rendering produces (clamp proved)."""
from __future__ import annotations

import ast
import itertools
from typing import List

from ..absint import Const, IntIv, Interp, Opaque, Rec, as_iv
from ..astutil import call_name, kwarg
from ..index import AnalysisError, AnchorVanished, norm, short, walk_local
from ..linear import lin, show

LEVEL = "proof"
UNDECIDED = [
    "rendering at the reported minimum / maximum never exceeds it (needs the layout arithmetic of every renderable)",
    "table and columns measurements mirror their column solver",
]
TRUSTED = ["CPython ast parser", "the checker's evaluator for min/max/comparison expressions (sa/absint.py)",
           "an expression built only from min, max, comparisons and the constants 0 and 1 depends only on the relative order of its inputs, so representatives of every weak ordering of {m, M, W, 0, 1} cover all integer inputs"]


def r9_1(ctx):
    ctx.rule("R9.1", "clamp: Measurement.get is interpreted with the value returned by __rich_measure__ replaced by (m, M) for representatives of every weak ordering of m, M, W against 0 and 1; on every non-raising path it returns (lo, hi) with 0 <= lo <= hi <= W; for W < 1 it returns (0, 0); normalize/with_maximum/with_minimum/clamp are interpreted, not assumed")
    f = ctx.repo.fn("measure:Measurement.get")
    it = Interp(ctx.repo, f.module)
    order, _ = it.records["Measurement"]
    vals = list(range(-2, 5))
    n = bad = 0
    samples = []
    for W in (-1, 0, 1, 2, 3, 4):
        for m, M in itertools.product(vals, vals):
            it.call_hooks = {"get_console_width": lambda pos, kw, _m=m, _M=M: Rec("Measurement", {"minimum": IntIv(_m, _m), "maximum": IntIv(_M, _M)}, order)}
            it.hazards = []
            args = {f.params[0]: Opaque("cls"), f.params[1]: Opaque("console"), f.params[2]: Opaque("renderable"), f.params[3]: IntIv(W, W)}
            outs = it.run(f, args)
            for o in outs:
                if o.kind == "raise":
                    continue  # NotRenderableError for non-renderables: documented
                n += 1
                v = o.value
                ok = isinstance(v, Rec) and v.cls == "Measurement"
                if ok:
                    lo, hi = as_iv(v.fields["minimum"]), as_iv(v.fields["maximum"])
                    ok = lo is not None and hi is not None and lo[0] == lo[1] and hi[0] == hi[1]
                    if ok:
                        lo, hi = lo[0], hi[0]
                        ok = 0 <= lo <= hi <= max(W, 0) if W >= 1 else (lo == 0 and hi == 0)
                if not ok:
                    bad += 1
                    if bad <= 3:
                        where = f"{f.module.relpath}:{o.node.lineno}" if o.node is not None else f.where
                        ctx.violation(f.fq, f"m={m} M={M} W={W}: {v!r}", where,
                                      f"Measurement.get returns {v!r} when __rich_measure__ reports ({m}, {M}) and {W} cells are available: violates 0 <= minimum <= maximum <= available")
                elif len(samples) < 6:
                    samples.append(f"m={m} M={M} W={W} -> {v!r}")
    if not bad:
        ctx.ok(f.where, f"all {n} (ordering representative, path) cases satisfy 0 <= min <= max <= W, e.g. {samples[:3]}", f.fq)
        for smp in samples[3:]:
            ctx.ok(f.where, smp, f.fq, trivial=True)
    ctx.extra["clamp_cases"] = n
    ctx.floor(n, 250, "interpreted (m, M, W) cases")
    # helpers individually: with_maximum really lowers, with_minimum really raises
    for name, check in (("with_maximum", lambda m, M, w, lo, hi: lo == min(m, w) and hi == min(M, w)), ("with_minimum", lambda m, M, w, lo, hi: lo == max(m, max(0, w)) and hi == max(M, max(0, w)))):
        g = ctx.repo.fn(f"measure:Measurement.{name}")
        badh = []
        for m, M, w in itertools.product(range(-1, 4), range(-1, 4), range(-1, 4)):
            selfv = Rec("Measurement", {"minimum": IntIv(m, m), "maximum": IntIv(M, M)}, order, "self")
            outs = it.run(g, {"self": selfv, g.params[1]: IntIv(w, w)})
            for o in outs:
                v = o.value
                if not (o.kind == "return" and isinstance(v, Rec)):
                    badh.append((m, M, w, repr(o)))
                    continue
                lo, hi = as_iv(v.fields["minimum"])[0], as_iv(v.fields["maximum"])[0]
                if not check(m, M, w, lo, hi):
                    badh.append((m, M, w, (lo, hi)))
        ctx.check(not badh, g.fq, name, g.where, f"{name} is the componentwise {'min' if 'max' in name else 'max'} (125 cases)", f"Measurement.{name} is not the componentwise {'min' if 'max' in name else 'max'} with its argument: {badh[:2]}")


def r9_2(ctx):
    ctx.rule("R9.2", "the clamp cannot be bypassed: __rich_measure__ is looked up / called only inside Measurement.get; every other module obtains measurements through Measurement.get or measure_renderables")
    n_defs = 0
    bad = []
    for f in ctx.repo.all_functions():
        if f.name == "__rich_measure__":
            n_defs += 1
        for x in walk_local(f.node):
            hit = False
            if isinstance(x, ast.Attribute) and x.attr == "__rich_measure__":
                hit = True
            if isinstance(x, ast.Call) and call_name(x) in ("getattr", "hasattr") and len(x.args) >= 2 and isinstance(x.args[1], ast.Constant) and x.args[1].value == "__rich_measure__":
                hit = True
            if hit and f.fq not in ("measure:Measurement.get", "protocol:is_renderable"):
                bad.append(f"{f.fq}:{x.lineno}")
    ctx.check(not bad, "measure:Measurement.get", "callers of __rich_measure__", "rich/measure.py", f"__rich_measure__ ({n_defs} definitions) is only invoked by Measurement.get",
              f"__rich_measure__ is called directly at {bad}: the result is used without normalisation and clamping to the available width")
    ctx.floor(n_defs, 12, "__rich_measure__ definitions")
    mr = ctx.repo.fn("measure:measure_renderables")
    from ..astutil import alias_map, expand_alias, inline, single_defs
    al = alias_map(mr.node)
    gets = [c for c in walk_local(mr.node) if isinstance(c, ast.Call) and norm(expand_alias(c.func, al)) == "Measurement.get"]
    ok = bool(gets) and all(len(c.args) == 3 and norm(c.args[2]) == "max_width" and norm(c.args[0]) == "console" for c in gets)
    if ok:
        # measured inside an iteration over the renderables
        ok = False
        for x in ast.walk(mr.node):
            if isinstance(x, (ast.ListComp, ast.GeneratorExp)) and any(c in list(ast.walk(x.elt)) for c in gets) and norm(x.generators[0].iter) in ("renderables", "list(renderables)") and norm(gets[0].args[1]) == norm(x.generators[0].target):
                ok = True
            if isinstance(x, ast.For) and norm(x.iter) in ("renderables", "list(renderables)") and any(c in list(ast.walk(x)) for c in gets) and norm(gets[0].args[1]) == norm(x.target):
                ok = True
    ctx.check(ok, mr.fq, "measure_renderables", mr.where, "measure_renderables goes through Measurement.get with its max_width", "measure_renderables does not measure each renderable through Measurement.get(…, max_width)")
    sd = single_defs(mr.node)

    def max_of_field(e, idx, field):
        """max(ms, key=itemgetter(idx)).field | max(m.field for m in ms) | max(m[idx] for m in ms) | max(lo for lo, hi in ms)"""
        if isinstance(e, ast.Attribute) and e.attr == field and isinstance(e.value, ast.Call) and norm(e.value.func) == "max" and len(e.value.args) == 1:
            k = next((kw.value for kw in e.value.keywords if kw.arg == "key"), None)
            if k is not None and norm(k) in (f"itemgetter({idx})", f"attrgetter('{field}')") or (isinstance(k, ast.Lambda) and norm(k.body) in (f"{k.args.args[0].arg}.{field}", f"{k.args.args[0].arg}[{idx}]")):
                return norm(inline(e.value.args[0], sd))
        if isinstance(e, ast.Call) and norm(e.func) == "max" and len(e.args) == 1 and isinstance(e.args[0], (ast.GeneratorExp, ast.ListComp)) and len(e.args[0].generators) == 1 and not e.args[0].generators[0].ifs and not e.keywords:
            g_ = e.args[0].generators[0]
            elt = e.args[0].elt
            t = g_.target
            if isinstance(t, ast.Name) and norm(elt) in (f"{t.id}.{field}", f"{t.id}[{idx}]"):
                return norm(inline(g_.iter, sd))
            if isinstance(t, ast.Tuple) and len(t.elts) == 2 and norm(elt) == norm(t.elts[idx]):
                return norm(inline(g_.iter, sd))
        return None
    rets = [r for r in walk_local(mr.node) if isinstance(r, ast.Return) and r.value is not None]
    okm = False
    detail = "?"
    for r in rets:
        v = inline(r.value, sd)
        detail = short(v)
        if isinstance(v, ast.Call) and norm(v.func) == "Measurement" and len(v.args) == 2:
            a, b = max_of_field(v.args[0], 0, "minimum"), max_of_field(v.args[1], 1, "maximum")
            if a is not None and a == b:
                # the sequence is the list of per-renderable measurements
                okm = True
    ctx.check(okm, mr.fq, detail, mr.where, "group measurement = (max of minimums, max of maximums)", "measure_renderables does not take the maximum of the minimums and of the maximums")


def r9_3(ctx):
    ctx.rule("R9.3", "measure mirrors render constants: Padding measures with left+right, the same quantity its render subtracts; Panel's measure adds horizontal padding + 2 as its render does; Tree indents 4 per level (C08 R8.5); Constrain/Styled/Align delegate to the child with the same width cap; Table._measure_column caps every returned measurement at its max_width")
    from ..astutil import inline as _inl, single_defs as _sdf
    from ..linear import eq as _leq, lin as _lin
    from .common import return_forms
    pm = ctx.repo.fn("padding:Padding.__rich_measure__")
    pr = ctx.repo.fn("padding:Padding.__rich_console__")
    psd = _sdf(pm.node)
    E = {"self.left": 1, "self.right": 1}
    # the child is measured at max(0, max_width - (left + right))
    gets = [c for c in walk_local(pm.node) if isinstance(c, ast.Call) and norm(c.func) == "Measurement.get" and len(c.args) == 3]
    unpack = [x for x in walk_local(pm.node) if isinstance(x, ast.Assign) and isinstance(x.targets[0], ast.Tuple) and len(x.targets[0].elts) == 2 and x.value in gets]
    ok = len(gets) == 1 and len(unpack) == 1
    if ok:
        a2 = _inl(gets[0].args[2], psd)
        ok = isinstance(a2, ast.Call) and norm(a2.func) == "max" and len(a2.args) == 2 and any(norm(z) == "0" for z in a2.args) and any(_leq(_lin(z), {"max_width": 1, "self.left": -1, "self.right": -1}) for z in a2.args)
        lo, hi = (norm(e) for e in unpack[0].targets[0].elts)
    if ok:
        # every non-degenerate return adds left + right back to both bounds and caps them at max_width
        forms = return_forms(pm)
        seen_main = False
        for facts, v in forms:
            v = _inl(v, psd)
            txt = norm(v)
            if txt == "Measurement(max_width, max_width)":
                continue
            seen_main = True
            capped_call = isinstance(v, ast.Call) and isinstance(v.func, ast.Attribute) and v.func.attr == "with_maximum" and len(v.args) == 1 and norm(v.args[0]) == "max_width"
            core = v.func.value if capped_call else v
            good = isinstance(core, ast.Call) and norm(core.func) == "Measurement" and len(core.args) == 2
            if good:
                for arg, base in zip(core.args, (lo, hi)):
                    inner = arg
                    if not capped_call:
                        if not (isinstance(arg, ast.Call) and norm(arg.func) == "min" and len(arg.args) == 2 and any(norm(z) == "max_width" for z in arg.args)):
                            good = False
                            break
                        inner = [z for z in arg.args if norm(z) != "max_width"][0]
                    want = dict(E)
                    want[base] = 1
                    if not _leq(_lin(inner), want):
                        good = False
            ok = ok and good
        ok = ok and seen_main
    ctx.check(ok, pm.fq, "extra_width = self.left + self.right", pm.where, "Padding measure adds left + right around the child's measure at (max_width - left - right)", "Padding.__rich_measure__ does not measure the child at max_width - (left + right) and add the same back")
    rsd = _sdf(pr.node)
    upd = [c for c in walk_local(pr.node) if isinstance(c, ast.Call) and norm(c.func) == "options.update" and kwarg(c, "width") is not None]
    ok = len(upd) == 1 and _leq(_lin(_inl(kwarg(upd[0], "width"), rsd, keep=("width",))), {"width": 1, "self.left": -1, "self.right": -1})
    if not ok and len(upd) == 1:
        # the same relation with the data flow the other way round (child width first, frame = child + left + right): compare the
        # value forms of the frame width and of the child's width at the call (a variable set on several paths cancels against itself)
        from ..linewidth import WidthEnv as _WE
        env93 = _WE(pr)
        nid93 = env93.nid(upd[0])
        child93 = env93.val(kwarg(upd[0], "width"), nid93)
        frames = [x for x in walk_local(pr.node) if isinstance(x, ast.BinOp) and isinstance(x.op, ast.Mult) and isinstance(x.left, ast.Constant) and x.left.value == " " and isinstance(x.right, ast.Name)]
        fw = {norm(x.right) for x in frames} - {"self.left", "self.right"}
        fw = {n_ for n_ in fw if not _leq(env93.val(ast.Name(id=n_, ctx=ast.Load()), nid93), {"self.left": 1}) and not _leq(env93.val(ast.Name(id=n_, ctx=ast.Load()), nid93), {"self.right": 1})}
        if len(fw) != 1:
            raise AnalysisError("Padding.__rich_console__: cannot tell which variable is the frame width (the width of the blank lines)")
        frame93 = env93.val(ast.Name(id=fw.pop(), ctx=ast.Load()), nid93)
        diff = dict(frame93)
        for k_, v_ in child93.items():
            diff[k_] = diff.get(k_, 0) - v_
        diff = {k_: v_ for k_, v_ in diff.items() if v_}
        if _leq(diff, {"self.left": 1, "self.right": 1}):
            ok = True
        elif all("@" not in k_ for k_ in diff):
            ok = False
        else:
            raise AnalysisError(f"Padding.__rich_console__: frame width minus child width is `{diff}`; not decided")
    ctx.check(ok, pr.fq, "render subtracts left + right", pr.where, "render subtracts the same left + right", "Padding render no longer subtracts left + right from the width")
    pn = ctx.repo.fn("panel:Panel.__rich_measure__")
    s = norm(pn.node)
    ok = "padding = left + right" in s and "max_width - padding - 2" in s and "+ padding + 2" in s.replace("\n", " ")
    ctx.check(ok, pn.fq, "measure(children, max_width - padding - 2) + padding + 2", pn.where, "Panel measure mirrors border (2) and horizontal padding", "Panel.__rich_measure__ does not subtract and re-add padding + 2 (the border) consistently")
    for spec in ("styled:Styled.__rich_measure__", "align:Align.__rich_measure__"):
        f = ctx.repo.fn(spec)
        calls = [c for c in walk_local(f.node) if isinstance(c, ast.Call) and norm(c.func) == "Measurement.get"]
        ok = len(calls) == 1 and len(calls[0].args) == 3 and norm(calls[0].args[2]) == "max_width"
        ctx.check(ok, f.fq, short(calls[0]) if calls else "?", f.where, "delegates to the child's measurement under the same cap", f"{f.qualname} does not measure its child through Measurement.get(console, child, max_width)")
    cm = ctx.repo.fn("constrain:Constrain.__rich_measure__")
    okc = True
    n_c = 0
    for facts, v in return_forms(cm):
        n_c += 1
        if not (isinstance(v, ast.Call) and norm(v.func) == "Measurement.get" and len(v.args) == 3):
            okc = False
            continue
        w = v.args[2]
        if facts.get("self.width is None") is True:
            okc = okc and norm(w) == "max_width"
        elif facts.get("self.width is None") is False:
            okc = okc and isinstance(w, ast.Call) and norm(w.func) == "min" and sorted(norm(z) for z in w.args) == ["max_width", "self.width"]
        else:
            okc = False
    ctx.check(okc and n_c >= 2, cm.fq, "min(self.width, max_width)", cm.where, "Constrain caps the measure like its render", "Constrain.__rich_measure__ does not cap at min(self.width, max_width) as its render does")
    tc = ctx.repo.fn("table:Table._measure_column")
    n = 0
    from ..yieldpaths import Unsupported, paths_of, resolve, show
    try:
        TP = [resolve(p_) for p_ in paths_of(tc.node)]
    except Unsupported as u:
        raise AnalysisError(f"Table._measure_column: statement outside the path normal form ({u})")
    seen_ret = set()
    for p_ in TP:
        rets = [e for e in p_ if e[0] == "return" and e[1] is not None]
        if len(rets) != 1 or rets[0][1] in seen_ret:
            continue
        seen_ret.add(rets[0][1])
        n += 1
        txt = rets[0][1]
        v = ast.parse(txt, mode="eval").body
        # walk the receiver chain of method calls: Measurement(..).with_maximum(max_width).clamp(..)
        capped = norm(v) == "Measurement(0, 0)"
        cur = v
        while isinstance(cur, ast.Call) and isinstance(cur.func, ast.Attribute):
            if cur.func.attr == "with_maximum" and len(cur.args) == 1 and norm(cur.args[0]) == "max_width":
                capped = True
            cur = cur.func.value
        ctx.check(capped, tc.fq, txt[:160], tc.where, "column measurement capped at the width offered to the column",
                  f"Table._measure_column returns `{txt[:160]}`, a measurement that is not capped with .with_maximum(max_width): when the table re-measures shrunken columns (fixed-width ones in particular) they spring back to their full width and the table overflows")
    ctx.floor(n, 3, "returns of Table._measure_column")


def r9_4(ctx):
    ctx.rule("R9.4", "text measure: for Text the minimum is the largest cell_len over text.split() (widest word) and the maximum the largest cell_len over the lines wrap() will produce, i.e. the pieces between the new lines Text.wrap splits on (text.split('\\n')) - str.splitlines() also breaks on U+2028, U+0085 and \\x1c-\\x1e, under-measures such a text and lets it wrap at its own reported maximum. The cell width is measured for every candidate, not for the candidate with most characters")
    f = ctx.repo.fn("text:Text.__rich_measure__")
    from ..astutil import inline as _inl94, single_defs as _sdf94
    sd94 = _sdf94(f.node)

    def full(e):
        return norm(_inl94(e, sd94))
    found = {}
    for x in walk_local(f.node):
        if isinstance(x, ast.Assign) and isinstance(x.value, ast.Call) and call_name(x.value) == "max" and len(x.value.args) == 1:
            # (max(a, b) with two arguments is a clamp / one step of a running maximum - read by the loop clause below)
            a = x.value.args[0]
            key = any(k.arg == "key" for k in x.value.keywords)
            src = None
            inner_ok = False
            if isinstance(a, (ast.GeneratorExp, ast.ListComp)) and len(a.generators) == 1 and not a.generators[0].ifs:
                it = full(a.generators[0].iter)
                tv = norm(a.generators[0].target)
                inner_ok = norm(a.elt) == f"cell_len({tv})" and not key
                src = it
            elif isinstance(a, ast.Call) and call_name(a) == "map" and len(a.args) == 2 and norm(a.args[0]) == "cell_len":
                inner_ok = not key
                src = full(a.args[1])
            else:
                src = full(a)
            found[norm(x.targets[0])] = (src, inner_ok, x)
    # a module-level helper computing the running maximum of cell_len over its parameter is the same thing as max(cell_len(x) ..)
    def widest_helper(call):
        if not (isinstance(call, ast.Call) and isinstance(call.func, ast.Name) and len(call.args) == 1 and not call.keywords):
            return False
        h = f.module.functions.get(call.func.id)
        if h is None or len(h.params) != 1:
            return False
        from ..astutil import helper_closed_return
        closed = helper_closed_return(h.node)
        p0 = h.params[0]
        if closed is not None and norm(closed) in (f"max((cell_len(x) for x in {p0}))",):
            return True
        loops_ = [x for x in h.node.body if isinstance(x, ast.For)]
        if len(loops_) != 1 or norm(loops_[0].iter) != p0 or not isinstance(loops_[0].target, ast.Name):
            return False
        lp_ = loops_[0]
        rets_ = [r for r in walk_local(h.node) if isinstance(r, ast.Return)]
        if len(rets_) != 1 or not isinstance(rets_[0].value, ast.Name):
            return False
        acc = rets_[0].value.id
        inits_ = [x for x in h.node.body if isinstance(x, ast.Assign) and norm(x.targets[0]) == acc and norm(x.value) == "0"]
        from ..astutil import inline as _inl, single_defs as _sdf
        sd_ = {k: v for k, v in _sdf(h.node).items() if k != acc}
        upd = False
        for b in lp_.body:
            # normalised clamp idiom: acc = max(acc, cell_len(item))
            if isinstance(b, ast.Assign) and norm(b.targets[0]) == acc:
                v = _inl(b.value, sd_)
                if isinstance(v, ast.Call) and norm(v.func) == "max" and sorted(norm(a_) for a_ in v.args) == sorted([acc, f"cell_len({lp_.target.id})"]):
                    upd = True
        return bool(inits_) and upd
    for x in walk_local(f.node):
        if isinstance(x, ast.Assign) and widest_helper(x.value):
            found[norm(x.targets[0])] = (full(x.value.args[0]), True, x)
    # the same running maximum written out in the method itself:  acc = 0; for p in SRC: acc = max(acc, cell_len(p)); var = acc
    for lp_ in [x for x in walk_local(f.node) if isinstance(x, ast.For) and isinstance(x.target, ast.Name)]:
        sdl = {}
        for b_ in lp_.body:
            if isinstance(b_, ast.Assign) and len(b_.targets) == 1 and isinstance(b_.targets[0], ast.Name):
                sdl[b_.targets[0].id] = b_.value
        for b in lp_.body:
            if isinstance(b, ast.Assign) and len(b.targets) == 1 and isinstance(b.targets[0], ast.Name):
                acc = b.targets[0].id
                v = _inl94(b.value, {k: vv for k, vv in sdl.items() if k != acc})
                if isinstance(v, ast.Call) and norm(v.func) == "max" and sorted(norm(a_) for a_ in v.args) == sorted([acc, f"cell_len({lp_.target.id})"]):
                    inits_ = [x for x in walk_local(f.node) if isinstance(x, ast.Assign) and norm(x.targets[0]) == acc and norm(x.value) == "0"]
                    if inits_:
                        srcs_ = [x.value for x in walk_local(f.node) if isinstance(x, ast.Assign) and norm(x.targets[0]) == norm(lp_.iter)] if isinstance(lp_.iter, ast.Name) else [lp_.iter]
                        src_txt = norm(srcs_[0]) if len(srcs_) == 1 else full(lp_.iter)
                        src_txt = norm(_inl94(ast.parse(src_txt, mode="eval").body, sd94))
                        for x in walk_local(f.node):
                            if isinstance(x, ast.Assign) and isinstance(x.value, ast.Name) and x.value.id == acc and isinstance(x.targets[0], ast.Name):
                                found.setdefault(x.targets[0].id, (src_txt, True, x))
                        found.setdefault(acc, (src_txt, True, b))
    rets = [r for r in walk_local(f.node) if isinstance(r, ast.Return) and isinstance(r.value, ast.Call) and norm(r.value.func) == "Measurement" and len(r.value.args) == 2 and all(isinstance(a, ast.Name) for a in r.value.args)]
    if not rets:
        raise AnalysisError("Text.__rich_measure__: final Measurement(min, max) of two names not found")
    mn, mx = (a.id for a in rets[-1].value.args)
    # premise: the separator Text.wrap splits paragraphs on
    wr = ctx.repo.fn("text:Text.wrap")
    sp_fn = ctx.repo.fn("text:Text.split")
    sp_defaults = sp_fn.node.args.defaults
    sp_default = sp_defaults[0].value if sp_defaults and isinstance(sp_defaults[0], ast.Constant) and len(sp_defaults) == len(sp_fn.node.args.args) - 1 else None
    seps = set()
    for c in walk_local(wr.node):
        if isinstance(c, ast.Call) and isinstance(c.func, ast.Attribute) and c.func.attr == "split" and norm(c.func.value) == "self":
            a0 = c.args[0] if c.args else next((k.value for k in c.keywords if k.arg == "separator"), None)
            seps.add(a0.value if isinstance(a0, ast.Constant) else (sp_default if a0 is None else norm(a0)))
    if seps != {"\n"}:
        raise AnalysisError(f"Text.wrap: paragraphs are split on {sorted(seps)!r}; R9.4 compares the measure with a wrap that splits on the new line only")
    for var, wants, what in ((mn, ("text.split()",), "widest word"), (mx, ("text.split('\\n')",), "widest line")):
        src, ok, node = found.get(var, (None, False, rets[-1]))
        if src is not None:
            src = src.replace("self.plain.", "text.")
        where = f"{f.module.relpath}:{node.lineno}"
        if what == "widest line" and src in ("text.splitlines()", "text.splitlines(False)"):
            ctx.violation(f.fq, short(node), where, f"the widest line is taken over str.splitlines(), which also breaks on U+2028, U+0085 and \\x1c-\\x1e while Text.wrap splits on '\\n' only: Text('aa\\u2028bb cc') reports a maximum of 5 for a 7-cell line and is wrapped when rendered at that maximum")
            continue
        if src is not None and ok and src not in wants:
            raise AnalysisError(f"Text.__rich_measure__: the {what} is measured over `{src}`; cannot tell whether those are the pieces wrap() works with")
        ctx.check(ok and src in wants, f.fq, short(node), where, f"{what} = max(cell_len(x) for x in {wants[0]})",
                  f"the {what} is computed as `{short(node)}`: it must be the maximum of cell_len over every element of {wants[0]}; picking the element with most characters first under-measures text mixing single- and double-width characters, so the text wraps at its own reported maximum")
    measured = {full(c.func.value) for c in walk_local(f.node) if isinstance(c, ast.Call) and isinstance(c.func, ast.Attribute) and c.func.attr in ("split", "splitlines")}
    ctx.check(measured == {"self.plain"}, f.fq, "text = self.plain", f.where, "measured string is the plain text", f"the measured string is {sorted(measured)}, not self.plain")


def r9_5(ctx):
    from .c01 import r1_1
    from .common import borrow
    borrow(ctx, r1_1, "R1.1", "R9.5", " [needed for 'rendering at the reported maximum never exceeds it': a container whose measure is capped at W must also hand its child at most W when rendering]")


def r9_6(ctx):
    from .common import memo_rule
    memo_rule(ctx, "R9.6", ["text", "measure", "padding", "panel", "constrain", "styled", "align", "containers"], 0)


def r9_7(ctx):
    from .c05 import r5_8
    from .common import borrow
    borrow(ctx, r5_8, "R5.8", "R9.7", " [text rendered at its reported maximum fits it only if truncate / align measure in cells]")


def r9_8(ctx):
    from .c07 import r7_8
    from .common import borrow
    borrow(ctx, r7_8, "R7.8", "R9.8", " [a table rendered at the width it reports never exceeds it: the padding target of the column widths is bounded by the available width]")


def r9_9(ctx):
    from .c01 import r1_4
    from .common import borrow
    borrow(ctx, r1_4, "R1.4", "R9.9", " [rendering at the reported minimum / maximum never exceeds it: Text.wrap truncates the lines of every paragraph to the width, wrapped or not (no_wrap)]")


def r9_10(ctx):
    from .c08 import r8_10
    from .common import borrow
    borrow(ctx, r8_10, "R8.10", "R9.10", " [Bar reports (width, width) clamped by the available width; rendering must clamp the same way]")


def r9_11(ctx):
    from .c08 import r8_17
    from .common import borrow
    borrow(ctx, r8_17, "R8.17", "R9.11", " [Panel.__rich_measure__ reports the title's cell length: it must be the length of what is drawn]")


RULES = [r9_1, r9_2, r9_3, r9_4, r9_5, r9_6, r9_7, r9_8, r9_9, r9_10, r9_11]
