"""Parse /repo/rich into an index of modules, classes and functions.

Nothing here imports or executes rich: the index is built from source text with ``ast``.
"""
from __future__ import annotations

import ast
import os
from typing import Dict, Iterator, List, Optional, Tuple

REPO_ROOT = os.environ.get("RICH_REPO", "/repo")
PKG = "rich"


class AnchorVanished(Exception):
    """A function / class / table a rule is about cannot be found: analysis failure (exit 2)."""


class AnalysisError(Exception):
    """The analyser met a construct it cannot interpret soundly (exit 2)."""


def norm(node: ast.AST) -> str:
    """Formatting-insensitive text of a node (used for finding keys and reports)."""
    try:
        return ast.unparse(node)
    except Exception:  # pragma: no cover
        return ast.dump(node)


def short(node: ast.AST, n: int = 100) -> str:
    s = " ".join(norm(node).split())
    return s if len(s) <= n else s[: n - 3] + "..."


class FuncInfo:
    def __init__(self, module: "Module", node, qualname: str, cls: Optional["ClassInfo"], parent: Optional["FuncInfo"]):
        self.module = module
        self.node = node
        self.qualname = qualname
        self.cls = cls
        self.parent = parent
        self.name = node.name

    @property
    def decorators(self) -> List[str]:
        out = []
        for d in self.node.decorator_list:
            if isinstance(d, ast.Call):
                d = d.func
            out.append(norm(d))
        return out

    @property
    def is_property(self) -> bool:
        return any(d == "property" or d.endswith(".setter") or d.endswith(".getter") for d in self.decorators)

    @property
    def is_setter(self) -> bool:
        return any(d.endswith(".setter") for d in self.decorators)

    @property
    def is_classmethod(self) -> bool:
        return "classmethod" in self.decorators

    @property
    def is_staticmethod(self) -> bool:
        return "staticmethod" in self.decorators

    @property
    def params(self) -> List[str]:
        a = self.node.args
        names = [x.arg for x in a.posonlyargs + a.args]
        if a.vararg:
            names.append(a.vararg.arg)
        names += [x.arg for x in a.kwonlyargs]
        if a.kwarg:
            names.append(a.kwarg.arg)
        return names

    @property
    def is_generator(self) -> bool:
        for n in walk_local(self.node):
            if isinstance(n, (ast.Yield, ast.YieldFrom)):
                return True
        return False

    @property
    def where(self) -> str:
        return f"{self.module.relpath}:{self.node.lineno}"

    @property
    def fq(self) -> str:
        return f"{self.module.short}:{self.qualname}"

    def __repr__(self) -> str:
        return f"<Func {self.fq}>"


class ClassInfo:
    def __init__(self, module: "Module", node: ast.ClassDef):
        self.module = module
        self.node = node
        self.name = node.name
        self.methods: Dict[str, List[FuncInfo]] = {}
        self.bases = [norm(b) for b in node.bases]

    def method(self, name: str, which: str = "first") -> Optional[FuncInfo]:
        lst = self.methods.get(name)
        if not lst:
            return None
        if which == "setter":
            for f in lst:
                if f.is_setter:
                    return f
            return None
        for f in lst:
            if not f.is_setter:
                return f
        return lst[0]

    @property
    def slots(self) -> Optional[List[str]]:
        for st in self.node.body:
            if isinstance(st, ast.Assign) and any(isinstance(t, ast.Name) and t.id == "__slots__" for t in st.targets):
                try:
                    return list(ast.literal_eval(st.value))
                except Exception:
                    return None
        return None

    def class_assign(self, name: str) -> Optional[ast.AST]:
        for st in self.node.body:
            if isinstance(st, ast.Assign):
                for t in st.targets:
                    if isinstance(t, ast.Name) and t.id == name:
                        return st.value
            if isinstance(st, ast.AnnAssign) and isinstance(st.target, ast.Name) and st.target.id == name:
                return st.value
        return None

    @property
    def fq(self) -> str:
        return f"{self.module.short}:{self.name}"


def walk_local(fn_node) -> Iterator[ast.AST]:
    """Walk a function body without descending into nested defs / lambdas / classes."""
    if isinstance(fn_node, (ast.FunctionDef, ast.AsyncFunctionDef)):
        stack = list(reversed(fn_node.body))
    else:
        stack = list(reversed(list(ast.iter_child_nodes(fn_node))))
    while stack:
        n = stack.pop()
        yield n
        if isinstance(n, (ast.FunctionDef, ast.AsyncFunctionDef, ast.ClassDef, ast.Lambda)):
            continue
        stack.extend(reversed(list(ast.iter_child_nodes(n))))


def walk_all(node) -> Iterator[ast.AST]:
    return ast.walk(node)


def normalize_tree(tree: ast.AST) -> ast.AST:
    """Behaviour-preserving normalisation applied to every module before indexing (so that rules see one shape for
    trivially different programs):  beta-reduction of *single-statement local closures called as a statement* -
    inside a function, `def h(a, b): <one simple statement>` followed by statement calls `h(x, y)` are replaced by that
    statement with the parameters substituted.  Applied only when it is obviously sound: positional/keyword arguments that
    are names, attributes, constants or pure calls of len()/str(); no defaults, *args, nonlocal, return value or recursion;
    every use of the closure's name is such a call.  The definition itself is kept (dead), positions point at the call."""
    import copy

    def simple_arg(a):
        if isinstance(a, (ast.Name, ast.Constant)):
            return True
        if isinstance(a, ast.Attribute):
            return simple_arg(a.value)
        if isinstance(a, ast.Call) and isinstance(a.func, ast.Name) and a.func.id in ("len", "str") and len(a.args) == 1 and not a.keywords:
            return simple_arg(a.args[0])
        return False

    for fn in [n for n in ast.walk(tree) if isinstance(n, (ast.FunctionDef, ast.AsyncFunctionDef))]:
        closures = {}
        for st in fn.body:
            if isinstance(st, ast.FunctionDef) and not st.decorator_list:
                body = st.body
                if body and isinstance(body[0], ast.Expr) and isinstance(body[0].value, ast.Constant) and isinstance(body[0].value.value, str):
                    body = body[1:]
                a = st.args
                if len(body) == 1 and isinstance(body[0], (ast.Expr, ast.Assign)) and not (a.defaults or a.vararg or a.kwarg or a.kwonlyargs or a.posonlyargs):
                    if not any(isinstance(x, (ast.Yield, ast.YieldFrom, ast.Await, ast.Lambda)) or (isinstance(x, ast.Name) and x.id == st.name) for x in ast.walk(body[0])):
                        # assignments in the closure body must not create closure-local names (they would become locals of fn)
                        if isinstance(body[0], ast.Assign) and any(isinstance(t, ast.Name) for t in body[0].targets):
                            continue
                        closures[st.name] = (st, body[0])
        if not closures:
            continue
        # every load of the closure name must be the callee of a statement call with simple arguments
        uses = {k: [] for k in closures}
        okc = {k: True for k in closures}
        stmt_calls = {}
        for parent in ast.walk(fn):
            for field, value in ast.iter_fields(parent):
                if isinstance(value, list):
                    for i, st in enumerate(value):
                        if isinstance(st, ast.Expr) and isinstance(st.value, ast.Call) and isinstance(st.value.func, ast.Name) and st.value.func.id in closures:
                            stmt_calls[id(st.value.func)] = (value, i, st)
        for x in ast.walk(fn):
            if isinstance(x, ast.Name) and x.id in closures and isinstance(x.ctx, ast.Load):
                if id(x) in stmt_calls:
                    uses[x.id].append(stmt_calls[id(x)])
                else:
                    okc[x.id] = False
        for name, (defn, body_stmt) in closures.items():
            if not okc[name] or not uses[name]:
                continue
            params = [p.arg for p in defn.args.args]
            plan = []
            for lst, i, st in uses[name]:
                call = st.value
                if any(isinstance(a_, ast.Starred) for a_ in call.args) or len(call.args) > len(params):
                    plan = None
                    break
                binding = dict(zip(params, call.args))
                for k in call.keywords:
                    if k.arg is None or k.arg not in params or k.arg in binding:
                        plan = None
                        break
                    binding[k.arg] = k.value
                if plan is None or set(binding) != set(params) or not all(simple_arg(v) for v in binding.values()):
                    plan = None
                    break
                plan.append((lst, st, binding))
            if not plan:
                continue
            for lst, st, binding in plan:

                class Sub(ast.NodeTransformer):
                    def visit_Name(self, node):
                        if node.id in binding and isinstance(node.ctx, ast.Load):
                            return ast.copy_location(copy.deepcopy(binding[node.id]), node)
                        return node
                new_st = Sub().visit(copy.deepcopy(body_stmt))
                for x in ast.walk(new_st):
                    if hasattr(x, "lineno"):
                        x.lineno = st.lineno
                        x.end_lineno = getattr(st, "end_lineno", st.lineno)
                        x.col_offset = st.col_offset
                        x.end_col_offset = getattr(st, "end_col_offset", st.col_offset)
                idx = next(j for j, y in enumerate(lst) if y is st)
                lst[idx] = new_st
    # clamp idioms:  `if a > b: a = b`  is  a = min(a, b);  `if a < b: a = b`  is  a = max(a, b)   (also >=, <= and the
    # mirrored tests `if b < a: a = b`).  builtin min/max return their first argument unless the second is strictly
    # smaller/larger, so for the totally ordered numbers these rules deal with the two forms assign equal values.
    class Clamp(ast.NodeTransformer):
        def visit_If(self, node):
            node = self.generic_visit(node)
            if node.orelse or len(node.body) != 1 or not isinstance(node.body[0], ast.Assign) or len(node.body[0].targets) != 1:
                return node
            asg = node.body[0]
            t = node.test
            if not (isinstance(asg.targets[0], ast.Name) and isinstance(t, ast.Compare) and len(t.ops) == 1):
                return node
            a = asg.targets[0].id
            b = asg.value

            def simple(e):
                return isinstance(e, (ast.Name, ast.Constant)) or (isinstance(e, ast.Attribute) and simple(e.value))
            if not simple(b):
                return node
            l, r, op = t.left, t.comparators[0], t.ops[0]
            kind = None
            if isinstance(l, ast.Name) and l.id == a and ast.dump(r) == ast.dump(b):
                kind = "min" if isinstance(op, (ast.Gt, ast.GtE)) else ("max" if isinstance(op, (ast.Lt, ast.LtE)) else None)
            elif isinstance(r, ast.Name) and r.id == a and ast.dump(l) == ast.dump(b):
                kind = "min" if isinstance(op, (ast.Lt, ast.LtE)) else ("max" if isinstance(op, (ast.Gt, ast.GtE)) else None)
            if kind is None:
                return node
            new = ast.Assign(targets=[ast.Name(id=a, ctx=ast.Store())], value=ast.Call(func=ast.Name(id=kind, ctx=ast.Load()), args=[ast.Name(id=a, ctx=ast.Load()), copy.deepcopy(b)], keywords=[]))
            return ast.copy_location(new, node)
    tree = Clamp().visit(tree)

    # iterator plumbing in front of `yield from`:
    #   if c: V = A / else: V = B ; yield from V      (V used nowhere else)   is   if c: yield from A / else: yield from B
    #   yield from chain(A, B, ..)                                              is   yield from A; yield from B; ..
    #   yield from chain.from_iterable(E for t in I if c)                       is   for t in I: if c: yield from E
    def yield_plumbing(body, fn_node):
        out = []
        i = 0
        while i < len(body):
            st = body[i]
            for fld in ("body", "orelse", "finalbody"):
                sub = getattr(st, fld, None)
                if isinstance(sub, list) and sub and isinstance(sub[0], ast.stmt) and not isinstance(st, (ast.FunctionDef, ast.ClassDef)):
                    setattr(st, fld, yield_plumbing(sub, fn_node))
            for hnd in getattr(st, "handlers", []) or []:
                hnd.body = yield_plumbing(hnd.body, fn_node)
            nxt = body[i + 1] if i + 1 < len(body) else None
            if (isinstance(st, ast.If) and st.orelse and isinstance(nxt, ast.Expr) and isinstance(nxt.value, ast.YieldFrom) and isinstance(nxt.value.value, ast.Name)):
                v = nxt.value.value.id

                def last_assign(blk):
                    return blk and isinstance(blk[-1], ast.Assign) and len(blk[-1].targets) == 1 and isinstance(blk[-1].targets[0], ast.Name) and blk[-1].targets[0].id == v
                uses = sum(1 for x in ast.walk(fn_node) if isinstance(x, ast.Name) and x.id == v and isinstance(x.ctx, ast.Load))
                if last_assign(st.body) and last_assign(st.orelse) and uses == 1:
                    for blk in (st.body, st.orelse):
                        a = blk[-1]
                        y = ast.copy_location(ast.Expr(value=ast.copy_location(ast.YieldFrom(value=a.value), a)), a)
                        blk[-1] = y
                    st.body = yield_plumbing(st.body, fn_node)
                    st.orelse = yield_plumbing(st.orelse, fn_node)
                    out.append(st)
                    i += 2
                    continue
            if isinstance(st, ast.Expr) and isinstance(st.value, ast.YieldFrom) and isinstance(st.value.value, ast.Call):
                c = st.value.value
                fn_ = norm(c.func)
                if fn_ in ("chain", "itertools.chain") and c.args and not c.keywords and not any(isinstance(a, ast.Starred) for a in c.args):
                    for a in c.args:
                        out.append(ast.copy_location(ast.Expr(value=ast.copy_location(ast.YieldFrom(value=a), st)), st))
                    i += 1
                    continue
                if fn_ in ("chain.from_iterable", "itertools.chain.from_iterable") and len(c.args) == 1 and isinstance(c.args[0], (ast.GeneratorExp, ast.ListComp)) and len(c.args[0].generators) == 1:
                    ge = c.args[0]
                    g0 = ge.generators[0]
                    inner = [ast.copy_location(ast.Expr(value=ast.copy_location(ast.YieldFrom(value=ge.elt), st)), st)]
                    for cond in reversed(g0.ifs):
                        inner = [ast.copy_location(ast.If(test=cond, body=inner, orelse=[]), st)]
                    loop = ast.copy_location(ast.For(target=g0.target, iter=g0.iter, body=yield_plumbing(inner, fn_node), orelse=[]), st)
                    out.append(loop)
                    i += 1
                    continue
            out.append(st)
            i += 1
        # a second pass splits what the first one produced (chain inside a sunk yield)
        return out
    for fn in [n for n in ast.walk(tree) if isinstance(n, (ast.FunctionDef, ast.AsyncFunctionDef))]:
        fn.body = yield_plumbing(yield_plumbing(fn.body, fn), fn)

    # `yield from (a, *b, c)` over a tuple / list display is `yield a; yield from b; yield c`
    def split_display(body):
        out = []
        for st in body:
            for fld in ("body", "orelse", "finalbody"):
                sub = getattr(st, fld, None)
                if isinstance(sub, list) and sub and isinstance(sub[0], ast.stmt):
                    setattr(st, fld, split_display(sub))
            for hnd in getattr(st, "handlers", []) or []:
                hnd.body = split_display(hnd.body)
            if isinstance(st, ast.Expr) and isinstance(st.value, ast.YieldFrom) and isinstance(st.value.value, (ast.Tuple, ast.List)) and st.value.value.elts:
                for e in st.value.value.elts:
                    if isinstance(e, ast.Starred):
                        new = ast.Expr(value=ast.YieldFrom(value=e.value))
                    else:
                        new = ast.Expr(value=ast.Yield(value=e))
                    out.append(ast.copy_location(new, st))
                    ast.copy_location(new.value, st)
                continue
            out.append(st)
        return out
    for fn in [n for n in ast.walk(tree) if isinstance(n, (ast.FunctionDef, ast.AsyncFunctionDef))]:
        fn.body = split_display(fn.body)

    # `L.acquire()` followed by `try: B finally: L.release()` is `with L: B`
    def lock_idiom(body):
        out = []
        i = 0
        while i < len(body):
            st = body[i]
            for fld in ("body", "orelse", "finalbody"):
                sub = getattr(st, fld, None)
                if isinstance(sub, list) and sub and isinstance(sub[0], ast.stmt):
                    setattr(st, fld, lock_idiom(sub))
            for hnd in getattr(st, "handlers", []) or []:
                hnd.body = lock_idiom(hnd.body)
            nxt = body[i + 1] if i + 1 < len(body) else None
            if (isinstance(st, ast.Expr) and isinstance(st.value, ast.Call) and isinstance(st.value.func, ast.Attribute) and st.value.func.attr == "acquire" and not st.value.args and not st.value.keywords
                    and isinstance(nxt, ast.Try) and not nxt.handlers and not nxt.orelse and len(nxt.finalbody) == 1 and isinstance(nxt.finalbody[0], ast.Expr)
                    and isinstance(nxt.finalbody[0].value, ast.Call) and isinstance(nxt.finalbody[0].value.func, ast.Attribute) and nxt.finalbody[0].value.func.attr == "release"
                    and ast.dump(nxt.finalbody[0].value.func.value) == ast.dump(st.value.func.value)):
                w = ast.With(items=[ast.withitem(context_expr=st.value.func.value, optional_vars=None)], body=lock_idiom(nxt.body))
                out.append(ast.copy_location(w, st))
                i += 2
                continue
            out.append(st)
            i += 1
        return out
    for fn in [n for n in ast.walk(tree) if isinstance(n, (ast.FunctionDef, ast.AsyncFunctionDef))]:
        fn.body = lock_idiom(fn.body)

    # `if a: if b: S` (no else on either, nothing else in the outer body) is `if a and b: S`
    class MergeIf(ast.NodeTransformer):
        def visit_If(self, node):
            self.generic_visit(node)
            if not node.orelse and len(node.body) == 1 and isinstance(node.body[0], ast.If) and not node.body[0].orelse:
                inner = node.body[0]
                vals = []
                for t in (node.test, inner.test):
                    vals += list(t.values) if isinstance(t, ast.BoolOp) and isinstance(t.op, ast.And) else [t]
                new = ast.If(test=ast.BoolOp(op=ast.And(), values=vals), body=inner.body, orelse=[])
                ast.copy_location(new.test, node.test)
                return ast.copy_location(new, node)
            return node
    if os.environ.get("SA_NO_MERGEIF") != "1":
        tree = MergeIf().visit(tree)

    # `x[:1] == "c"` is `x.startswith("c")`, `x[-1:] == "c"` is `x.endswith("c")` (one-character constant; both are total on str)
    class PrefixTest(ast.NodeTransformer):
        def visit_Compare(self, node):
            self.generic_visit(node)
            if len(node.ops) == 1 and isinstance(node.ops[0], (ast.Eq, ast.NotEq)) and isinstance(node.left, ast.Subscript) and isinstance(node.left.slice, ast.Slice) \
                    and isinstance(node.comparators[0], ast.Constant) and isinstance(node.comparators[0].value, str) and len(node.comparators[0].value) == 1 and node.left.slice.step is None:
                sl = node.left.slice
                lo, hi = sl.lower, sl.upper
                meth = None
                if (lo is None or (isinstance(lo, ast.Constant) and lo.value == 0)) and isinstance(hi, ast.Constant) and hi.value == 1:
                    meth = "startswith"
                elif hi is None and isinstance(lo, ast.UnaryOp) and isinstance(lo.op, ast.USub) and isinstance(lo.operand, ast.Constant) and lo.operand.value == 1:
                    meth = "endswith"
                if meth is not None:
                    call = ast.Call(func=ast.Attribute(value=node.left.value, attr=meth, ctx=ast.Load()), args=[node.comparators[0]], keywords=[])
                    new = call if isinstance(node.ops[0], ast.Eq) else ast.UnaryOp(op=ast.Not(), operand=call)
                    return ast.copy_location(new, node)
            return node
    tree = PrefixTest().visit(tree)

    # `for x in (A if c else B): S` is `if c: for x in A: S / else: for x in B: S`, and a loop over a one-element display
    # `for x in (e,): S` (no break / continue / else) is `x = e; S`
    import copy as _copy

    class LoopCases(ast.NodeTransformer):
        def visit_For(self, node):
            self.generic_visit(node)
            if isinstance(node.iter, ast.IfExp) and not node.orelse:
                a = _copy.deepcopy(node)
                b = _copy.deepcopy(node)
                a.iter, b.iter = node.iter.body, node.iter.orelse
                new = ast.If(test=node.iter.test, body=[self.visit_For(a) if True else a], orelse=[self.visit_For(b) if True else b])
                new.body = [x for y in new.body for x in (y if isinstance(y, list) else [y])]
                new.orelse = [x for y in new.orelse for x in (y if isinstance(y, list) else [y])]
                return ast.copy_location(new, node)
            if isinstance(node.iter, (ast.Tuple, ast.List)) and len(node.iter.elts) == 1 and not isinstance(node.iter.elts[0], ast.Starred) and not node.orelse \
                    and isinstance(node.target, ast.Name) and not any(isinstance(x, (ast.Break, ast.Continue)) for b_ in node.body for x in ast.walk(b_)):
                asg = ast.copy_location(ast.Assign(targets=[ast.Name(id=node.target.id, ctx=ast.Store())], value=node.iter.elts[0], lineno=node.lineno), node)
                return [asg] + node.body
            return node
    tree = LoopCases().visit(tree)
    if os.environ.get("SA_COPYPROP") == "1":  # experimental, off: too many rules are written against the temporaries of the pinned source
        _copy_propagate(tree)
    ast.fix_missing_locations(tree)
    return tree


def _copy_propagate(tree: ast.AST) -> None:
    """Trivial temporaries are the expression they name: inside a function, a local that is bound exactly once, by a plain
    assignment `x = <name or attribute chain>` whose root is `self`, a parameter or a module-level name that the function never
    rebinds, is replaced by that expression wherever it is read (the assignment itself stays, dead).  `total = self.total`,
    `max_width = options.max_width`, `theme_stack = self._theme_stack` then read as the attribute they stand for - introducing or
    removing such a temporary cannot change a verdict.  Bound methods (`append = out.append`) are NOT propagated here: the rules
    resolve those through alias_map where they need to."""
    import copy

    def chain_root(e):
        while isinstance(e, ast.Attribute):
            e = e.value
        return e if isinstance(e, ast.Name) else None

    for fn in [n for n in ast.walk(tree) if isinstance(n, (ast.FunctionDef, ast.AsyncFunctionDef))]:
        params = {a.arg for a in fn.args.args + fn.args.kwonlyargs + fn.args.posonlyargs}
        if fn.args.vararg:
            params.add(fn.args.vararg.arg)
        if fn.args.kwarg:
            params.add(fn.args.kwarg.arg)
        stores: Dict[str, int] = {}
        cands: Dict[str, ast.AST] = {}
        own = []
        stack = list(fn.body)
        while stack:
            x = stack.pop()
            own.append(x)
            for c in ast.iter_child_nodes(x):
                if isinstance(c, (ast.FunctionDef, ast.AsyncFunctionDef, ast.Lambda, ast.ClassDef)):
                    # names stored in nested scopes are their own; names they READ are handled below (not substituted)
                    continue
                stack.append(c)
        for x in own:
            if isinstance(x, ast.Name) and isinstance(x.ctx, (ast.Store, ast.Del)):
                stores[x.id] = stores.get(x.id, 0) + 1
            elif isinstance(x, (ast.Global, ast.Nonlocal)):
                for nme in x.names:
                    stores[nme] = stores.get(nme, 0) + 2
            elif isinstance(x, ast.ExceptHandler) and x.name:
                stores[x.name] = stores.get(x.name, 0) + 2
        for x in own:
            if isinstance(x, ast.Assign) and len(x.targets) == 1 and isinstance(x.targets[0], ast.Name) and isinstance(x.value, (ast.Attribute, ast.Name)):
                nm = x.targets[0].id
                r = chain_root(x.value)
                if r is None or nm in params or stores.get(nm, 0) != 1:
                    continue
                if r.id == nm or stores.get(r.id, 0) > 0 and r.id not in params:
                    continue  # the root is itself a (re)bound local: leave to the rules' own inlining
                if r.id in params and stores.get(r.id, 0) > 0:
                    continue  # parameter rebound later
                if isinstance(x.value, ast.Attribute):
                    # attribute chains only when no part of the chain is stored to in this function (x.a = .. after t = x.a)
                    txt = ast.unparse(x.value)
                    if any(isinstance(y, ast.Attribute) and isinstance(y.ctx, ast.Store) and ast.unparse(y) == txt for y in own):
                        continue
                    # a bound method / callable alias is left alone
                    used_as_callee = any(isinstance(y, ast.Call) and isinstance(y.func, ast.Name) and y.func.id == nm for y in own)
                    if used_as_callee:
                        continue
                cands[nm] = x.value
        if not cands:
            continue
        # names read inside nested scopes keep their name (a closure reads the variable, which may be fine, but we do not rewrite scopes)
        nested_reads = set()
        for x in ast.walk(fn):
            if isinstance(x, (ast.FunctionDef, ast.AsyncFunctionDef, ast.Lambda)) and x is not fn:
                for y in ast.walk(x):
                    if isinstance(y, ast.Name):
                        nested_reads.add(y.id)
        cands = {k: v for k, v in cands.items() if k not in nested_reads}
        if not cands:
            continue

        class P(ast.NodeTransformer):
            def visit_FunctionDef(self, node):
                return node if node is not fn else self.generic_visit(node)
            visit_AsyncFunctionDef = visit_FunctionDef
            visit_Lambda = lambda self, node: node  # noqa: E731
            visit_ClassDef = lambda self, node: node  # noqa: E731

            def visit_Name(self, node):
                if isinstance(node.ctx, ast.Load) and node.id in cands:
                    return ast.copy_location(copy.deepcopy(cands[node.id]), node)
                return node
        new_body = []
        for st in fn.body:
            new_body.append(P().visit(st))
        fn.body = new_body


_BASELINE = None


def _baseline_symbols():
    """functions the rules were written against (per module); anything else is a helper introduced later and is expanded
    at its call sites before indexing (sa/inliner.py)"""
    global _BASELINE
    if _BASELINE is None:
        import json
        try:
            _BASELINE = {k: set(v) for k, v in json.load(open(os.path.join(os.path.dirname(os.path.abspath(__file__)), "baseline_symbols.json"))).items()}
        except OSError:
            _BASELINE = {}
    return _BASELINE


class Module:
    def __init__(self, name: str, path: str, src: str, inline: bool = True):
        self.name = name  # 'rich.style'
        self.short = name.split(".", 1)[1] if "." in name else name  # 'style'
        self.path = path
        self.relpath = os.path.relpath(path, REPO_ROOT)
        self.src = src
        self.tree = ast.parse(src, filename=path)
        if os.environ.get("SA_NO_NORMALIZE") != "1":
            self.inlined = False
            if inline and os.environ.get("SA_NO_INLINE") != "1":
                from .inliner import inline_module
                self.tree = inline_module(self.tree, _baseline_symbols().get(self.relpath))
                self.inlined = bool(getattr(self.tree, "_sa_inlined", False))
            self.tree = normalize_tree(self.tree)
        self.functions: Dict[str, FuncInfo] = {}
        self.classes: Dict[str, ClassInfo] = {}
        self.imports: Dict[str, Tuple[str, Optional[str]]] = {}  # local -> (module, name|None)
        self.parent_of: Dict[ast.AST, ast.AST] = {}
        self._main_nodes: set = set()
        self._index()

    # -- indexing -------------------------------------------------------
    def _index(self) -> None:
        for parent in ast.walk(self.tree):
            for child in ast.iter_child_nodes(parent):
                self.parent_of[child] = parent
        self._index_body(self.tree.body, "", None, None)
        self._index_imports(self.tree)

    def _is_main_guard(self, st: ast.AST) -> bool:
        if not isinstance(st, ast.If):
            return False
        t = st.test
        return (
            isinstance(t, ast.Compare)
            and isinstance(t.left, ast.Name)
            and t.left.id == "__name__"
            and len(t.comparators) == 1
            and isinstance(t.comparators[0], ast.Constant)
            and t.comparators[0].value == "__main__"
        )

    def _index_body(self, body, prefix: str, cls: Optional[ClassInfo], parent: Optional[FuncInfo]) -> None:
        for st in body:
            if isinstance(st, (ast.FunctionDef, ast.AsyncFunctionDef)):
                qn = prefix + st.name
                fi = FuncInfo(self, st, qn, cls, parent)
                if cls is not None and parent is None:
                    cls.methods.setdefault(st.name, []).append(fi)
                    if qn in self.functions:  # property setter etc.
                        qn2 = qn + ".setter" if fi.is_setter else qn + f"@{st.lineno}"
                        self.functions[qn2] = fi
                    else:
                        self.functions[qn] = fi
                else:
                    if qn in self.functions:
                        self.functions[qn + f"@{st.lineno}"] = fi
                    else:
                        self.functions[qn] = fi
                self._index_body(st.body, qn + ".<locals>.", None, fi)
            elif isinstance(st, ast.ClassDef):
                ci = ClassInfo(self, st)
                if not prefix:
                    self.classes[st.name] = ci
                else:
                    self.classes[prefix + st.name] = ci
                self._index_body(st.body, prefix + st.name + ".", ci, None)
            elif isinstance(st, ast.If):
                if self._is_main_guard(st):
                    for n in ast.walk(st):
                        self._main_nodes.add(n)
                    continue
                self._index_body(st.body, prefix, cls, parent)
                self._index_body(st.orelse, prefix, cls, parent)
            elif isinstance(st, (ast.Try,)):
                self._index_body(st.body, prefix, cls, parent)
                for h in st.handlers:
                    self._index_body(h.body, prefix, cls, parent)
                self._index_body(st.orelse, prefix, cls, parent)
                self._index_body(st.finalbody, prefix, cls, parent)
            elif isinstance(st, (ast.With, ast.For, ast.While)):
                self._index_body(st.body, prefix, cls, parent)
                if hasattr(st, "orelse"):
                    self._index_body(st.orelse, prefix, cls, parent)

    def _index_imports(self, tree) -> None:
        for n in ast.walk(tree):
            if n in self._main_nodes:
                continue
            if isinstance(n, ast.ImportFrom):
                if n.level:
                    base = self.name.rsplit(".", n.level)[0] if n.level else ""
                    mod = base + ("." + n.module if n.module else "")
                else:
                    mod = n.module or ""
                for a in n.names:
                    local = a.asname or a.name
                    # `from . import box` imports a submodule
                    self.imports.setdefault(local, (mod, a.name))
            elif isinstance(n, ast.Import):
                for a in n.names:
                    local = a.asname or a.name.split(".")[0]
                    self.imports.setdefault(local, (a.name if a.asname else a.name.split(".")[0], None))

    def in_main_guard(self, node: ast.AST) -> bool:
        return node in self._main_nodes

    # -- lookup ---------------------------------------------------------
    def fn(self, qualname: str) -> FuncInfo:
        f = self.functions.get(qualname)
        if f is None:
            raise AnchorVanished(f"function {self.short}:{qualname} not found in {self.relpath}")
        return f

    def cls(self, name: str) -> ClassInfo:
        c = self.classes.get(name)
        if c is None:
            raise AnchorVanished(f"class {self.short}:{name} not found in {self.relpath}")
        return c

    def global_assign(self, name: str) -> ast.AST:
        """Value expression of the (last) module-level assignment to `name`."""
        found = None
        for st in self.tree.body:
            if isinstance(st, ast.Assign):
                for t in st.targets:
                    if isinstance(t, ast.Name) and t.id == name:
                        found = st.value
            elif isinstance(st, ast.AnnAssign) and isinstance(st.target, ast.Name) and st.target.id == name and st.value is not None:
                found = st.value
        if found is None:
            raise AnchorVanished(f"module-level name {self.short}:{name} not found in {self.relpath}")
        return found

    def module_const(self, name: str) -> Optional[ast.AST]:
        """value of a module-level name that is stored exactly once in the whole module (so it is a constant), else None"""
        if self.global_assign_count(name) != 1:
            return None
        try:
            return self.global_assign(name)
        except AnchorVanished:
            return None

    def global_assign_count(self, name: str) -> int:
        c = 0
        for n in ast.walk(self.tree):
            if n in self._main_nodes:
                continue
            if isinstance(n, (ast.Assign, ast.AnnAssign, ast.AugAssign)):
                tg = n.targets if isinstance(n, ast.Assign) else [n.target]
                for t in tg:
                    for nn in ast.walk(t):
                        if isinstance(nn, ast.Name) and nn.id == name and isinstance(nn.ctx, ast.Store):
                            c += 1
        return c

    def enclosing_function(self, node: ast.AST) -> Optional[FuncInfo]:
        cur = self.parent_of.get(node)
        while cur is not None:
            if isinstance(cur, (ast.FunctionDef, ast.AsyncFunctionDef)):
                for f in self.functions.values():
                    if f.node is cur:
                        return f
                return None
            cur = self.parent_of.get(cur)
        return None

    def loc(self, node: ast.AST) -> str:
        return f"{self.relpath}:{getattr(node, 'lineno', 0)}"


class Repo:
    def __init__(self, root: Optional[str] = None, overrides: Optional[Dict[str, str]] = None, inline: bool = True):
        """overrides: {'rich/style.py': source} analysed instead of the file on disk (in-memory
        variants for the sensitivity sweep; never written, never executed)."""
        self.root = root or REPO_ROOT
        overrides = overrides or {}
        self.overrides = overrides
        self.inline = inline
        self.pkgdir = os.path.join(self.root, PKG)
        if not os.path.isdir(self.pkgdir):
            raise AnchorVanished(f"package directory {self.pkgdir} not found")
        self.modules: Dict[str, Module] = {}
        self.parse_errors: List[str] = []
        for fn in sorted(os.listdir(self.pkgdir)):
            if not fn.endswith(".py"):
                continue
            path = os.path.join(self.pkgdir, fn)
            name = PKG if fn == "__init__.py" else PKG + "." + fn[:-3]
            rel = os.path.join(PKG, fn)
            if rel in overrides:
                src = overrides[rel]
            else:
                with open(path, encoding="utf-8") as f:
                    src = f.read()
            try:
                m = Module(name, path, src, inline=inline)
            except SyntaxError as e:
                raise AnalysisError(f"cannot parse {path}: {e}")
            m.relpath = os.path.relpath(path, self.root)
            self.modules[name] = m

    @property
    def inlined_any(self) -> bool:
        return any(getattr(m, "inlined", False) for m in self.modules.values())

    def plain_view(self) -> "Repo":
        """the same sources without procedure inlining (built once, on demand)"""
        if not hasattr(self, "_plain"):
            self._plain = Repo(self.root, self.overrides, inline=False)
        return self._plain

    def mod(self, short: str) -> Module:
        name = PKG if short in ("", "__init__") else PKG + "." + short
        m = self.modules.get(name)
        if m is None:
            raise AnchorVanished(f"module rich/{short}.py not found")
        return m

    def fn(self, spec: str) -> FuncInfo:
        """spec = 'style:Style.__add__'"""
        m, q = spec.split(":", 1)
        return self.mod(m).fn(q)

    def cls(self, spec: str) -> ClassInfo:
        m, q = spec.split(":", 1)
        return self.mod(m).cls(q)

    def all_functions(self) -> Iterator[FuncInfo]:
        for m in self.modules.values():
            seen = set()
            for f in m.functions.values():
                if id(f) in seen:
                    continue
                seen.add(id(f))
                if m.in_main_guard(f.node):
                    continue
                yield f

    def all_classes(self) -> Iterator[ClassInfo]:
        for m in self.modules.values():
            for c in m.classes.values():
                yield c

    def subclasses_of(self, base: str) -> List[ClassInfo]:
        """Transitive subclasses (by simple base-name matching inside the package)."""
        out: List[ClassInfo] = []
        names = {base}
        changed = True
        while changed:
            changed = False
            for c in self.all_classes():
                if c in out:
                    continue
                for b in c.bases:
                    b0 = b.split("[")[0].split(".")[-1]
                    if b0 in names:
                        out.append(c)
                        names.add(c.name)
                        changed = True
                        break
        return out

    def resolve_class(self, module: Module, name: str) -> Optional[ClassInfo]:
        """Resolve a simple class name as seen from `module`."""
        if name in module.classes:
            return module.classes[name]
        imp = module.imports.get(name)
        if imp and imp[0].startswith(PKG):
            target = self.modules.get(imp[0])
            if target is not None and imp[1] and imp[1] in target.classes:
                return target.classes[imp[1]]
            # re-exported (e.g. from . import X)
            sub = self.modules.get(imp[0] + "." + (imp[1] or ""))
            if sub is not None:
                return None
        return None

    def resolve_function(self, module: Module, name: str) -> Optional[FuncInfo]:
        if name in module.functions and module.functions[name].cls is None and module.functions[name].parent is None:
            return module.functions[name]
        imp = module.imports.get(name)
        if imp and imp[0].startswith(PKG):
            target = self.modules.get(imp[0])
            if target is not None and imp[1] and imp[1] in target.functions:
                f = target.functions[imp[1]]
                if f.cls is None:
                    return f
        return None
