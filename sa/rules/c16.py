"""C16 Pretty-printed data evaluates back to the data."""
from __future__ import annotations

import ast
import re
from typing import List, Optional

from .. import cfg as cfgmod
from ..astutil import kwarg, alias_map, call_name, expand_alias, fstring_parts
from ..index import AnalysisError, AnchorVanished, norm, short, walk_local

LEVEL = "other"
UNDECIDED = [
    "that the representation evaluates to an equal value for every input (only the brace templates, separators and abbreviation counts are decided)",
    "single-line-iff-it-fits and indentation consistency of the expansion loop (cell-width arithmetic over all widths)",
]
TRUSTED = ["CPython ast parser", "repr() of leaves round-trips for the built-in literals"]

PAIRS = {"(": ")", "[": "]", "{": "}"}


def _braces_entries(ctx):
    """(type text, factory function node, where) for every entry of pretty._BRACES."""
    m = ctx.repo.mod("pretty")
    d = m.global_assign("_BRACES")
    if not isinstance(d, ast.Dict):
        raise AnchorVanished("pretty._BRACES dict literal not found")
    out = []
    for k, v in zip(d.keys, d.values):
        if isinstance(v, ast.Lambda):
            out.append((norm(k), v, v.args.args[0].arg if v.args.args else None, v.body))
        elif isinstance(v, ast.Name) and v.id in m.functions:
            fn = m.functions[v.id]
            rets = [r for r in walk_local(fn.node) if isinstance(r, ast.Return)]
            out.append((norm(k), fn.node, fn.params[0] if fn.params else None, rets[0].value if rets else None))
        elif isinstance(v, ast.Call) and isinstance(v.func, ast.Name) and v.func.id in m.functions:
            # a factory:  F(open, close, empty) returning a nested getter that returns (those parameters)
            F = m.functions[v.func.id]
            from ..astutil import inline as _inl, single_defs as _sdf, substitute_call
            inner = [x for x in F.node.body if isinstance(x, ast.FunctionDef)]
            rets_F = [r for r in F.node.body if isinstance(r, ast.Return)]
            body = None
            if len(inner) == 1 and len(rets_F) == 1 and norm(rets_F[0].value) == inner[0].name:
                ir = [r for r in ast.walk(inner[0]) if isinstance(r, ast.Return)]
                if len(ir) == 1 and ir[0].value is not None:
                    closed = _inl(ir[0].value, _sdf(F.node))
                    body = substitute_call(F.node, v, closed)
            if body is None:
                raise AnalysisError(f"_BRACES[{norm(k)}] is built by `{norm(v)}`, a factory whose result cannot be read off its source")
            out.append((norm(k), v, None, body))
        else:
            raise AnalysisError(f"_BRACES[{norm(k)}] is neither a lambda nor a module function")
    return m, out


def _template_text(e) -> Optional[str]:
    """Constant skeleton of a str constant / f-string with fields replaced by \\0."""
    parts = fstring_parts(e)
    if parts is None:
        return None
    return "".join(p if isinstance(p, str) else "\0" for p in parts)


def r16_1(ctx):
    ctx.rule("R16.1", "brace templates: every _BRACES factory returns (open, close, empty) where no plain (non-f) string contains a replacement field naming the factory's parameter, the closing brackets mirror the opening ones, and the empty form is bracket-balanced on its own")
    m, entries = _braces_entries(ctx)
    ctx.floor(len(entries), 9, "_BRACES entries")
    for tname, node, param, ret in entries:
        where = f"{m.relpath}:{getattr(ret, 'lineno', getattr(node, 'lineno', 0))}"
        if not (isinstance(ret, ast.Tuple) and len(ret.elts) == 3):
            ctx.violation("pretty:_BRACES", f"{tname}: {short(ret) if ret is not None else None}", where, f"_BRACES[{tname}] does not return an (open, close, empty) triple")
            continue
        for i, el in enumerate(ret.elts):
            if isinstance(el, ast.Constant) and isinstance(el.value, str) and param:
                bad = re.search(r"\{\s*" + re.escape(param) + r"\b", el.value)
                ctx.check(bad is None, "pretty:_BRACES", f"{tname}[{i}] = {el.value!r}", where, f"{tname}: plain string has no unformatted field",
                          f"_BRACES[{tname}] element {i} is the plain string {el.value!r}, which contains the replacement field `{{{param}...}}` but is not an f-string: the literal text is shown instead of the value")
        o, c, e = (_template_text(x) for x in ret.elts)
        if o is None or c is None or e is None:
            raise AnalysisError(f"_BRACES[{tname}] elements are not string templates")
        opens = [ch for ch in o if ch in PAIRS]
        closes = [ch for ch in c if ch in PAIRS.values()]
        ok = [PAIRS[x] for x in reversed(opens)] == closes
        ctx.check(ok, "pretty:_BRACES", f"{tname}: {o!r} ... {c!r}", where, f"{tname}: closing brackets mirror the opening ones", f"_BRACES[{tname}]: close {c!r} does not mirror open {o!r}: the printed container is not a balanced expression")
        # empty form balanced
        st = []
        bal = True
        for ch in e:
            if ch in PAIRS:
                st.append(ch)
            elif ch in PAIRS.values():
                if not st or PAIRS[st.pop()] != ch:
                    bal = False
        ctx.check(bal and not st, "pretty:_BRACES", f"{tname}: empty {e!r}", where, f"{tname}: empty form balanced", f"_BRACES[{tname}]: empty form {e!r} is not bracket-balanced")
        # open and empty start with the same constructor name
        head_o = re.match(r"[A-Za-z_]*", o).group(0)
        head_e = re.match(r"[A-Za-z_]*", e).group(0)
        ctx.check(head_o == head_e or (head_o == "" and head_e in ("set",)), "pretty:_BRACES", f"{tname}: {head_o!r} vs {head_e!r}", where, f"{tname}: empty and non-empty forms name the same constructor",
                  f"_BRACES[{tname}]: non-empty form starts with {head_o!r} but the empty form with {head_e!r}: an empty container evaluates to a different type")


def r16_2(ctx):
    ctx.rule("R16.2", "cycle guard: every recursive _traverse call is dominated by the visited-id test and by push_visited of the container's id, and every normal path from the push to the function's exit passes pop_visited of that id (so only genuine cycles print '...')")
    m = ctx.repo.mod("pretty")
    f = m.functions.get("traverse.<locals>._traverse")
    if f is None:
        raise AnchorVanished("pretty.traverse.<locals>._traverse not found")
    outer = m.fn("traverse")
    aliases = alias_map(outer.node)
    g = cfgmod.build(f.node)

    def calls_to(nd, name):
        e = nd.stmt if nd.kind == "stmt" else nd.expr
        if e is None:
            return []
        return [c for c in ast.walk(e) if isinstance(c, ast.Call) and norm(expand_alias(c.func, aliases)) == name]

    # a set (add / remove) or, because containers are entered and left in strictly nested order, a stack (append / pop)
    pushes = [nd for nd in g.stmt_nodes() if nd.kind == "stmt" and (calls_to(nd, "visited_ids.add") or calls_to(nd, "visited_ids.append"))]
    pops = [nd for nd in g.stmt_nodes() if nd.kind == "stmt" and (calls_to(nd, "visited_ids.remove") or calls_to(nd, "visited_ids.discard") or [c for c in calls_to(nd, "visited_ids.pop") if not c.args])]
    recs = [nd for nd in g.stmt_nodes() if nd.kind in ("stmt", "test", "for") and calls_to(nd, "_traverse")]
    ctx.check(len(pushes) >= 1 and len(pops) >= 1, f.fq, "push_visited / pop_visited", f.where, "visited set is pushed and popped", "_traverse no longer pushes and pops the visited-id set: cycles recurse forever or shared objects print as '...'")
    if not pushes or not pops:
        return
    for p in pushes:
        arg = norm((calls_to(p, "visited_ids.add") or calls_to(p, "visited_ids.append"))[0].args[0])

        def pops_same(q):
            by_value = calls_to(q, "visited_ids.remove") or calls_to(q, "visited_ids.discard")
            if by_value:
                return norm(by_value[0].args[0]) == arg
            return True  # stack pop(): removes the most recent push, which under strict nesting is this id
        same_pops = {q.id for q in pops if pops_same(q)}
        w = g.must_pass(p.id, same_pops, {g.exit})
        ctx.check(w is None, f.fq, short(p.stmt), f"{m.relpath}:{p.lineno}", f"every normal path after push_visited({arg}) pops it again",
                  f"a path leaves _traverse after push_visited({arg}) without pop_visited({arg}): a container that merely occurs twice (e.g. the same empty tuple) is later reported as a cycle '...'", g.describe_path(w) if w else None)
        # the visited test dominates the push
        facts = g.branch_facts(p.id)
        ok = any(v is False and norm(t) == f"{arg} in visited_ids" for t, v in facts) or any(v is True and norm(t) == f"{arg} not in visited_ids" for t, v in facts)
        ctx.check(ok, f.fq, f"if {arg} in visited_ids", f"{m.relpath}:{p.lineno}", "push only after the id was found not to be on the current path", "push_visited is not guarded by the `in visited_ids` test")
    for r in recs:
        ok = all(g.dominated_by(r.id, {p.id}) for p in pushes)
        ctx.check(ok, f.fq, short(r.stmt) if r.kind == "stmt" else repr(r), f"{m.relpath}:{r.lineno}", "recursive descent happens with the container's id on the visited set",
                  "a recursive _traverse call is not dominated by push_visited: a self-referential container recurses without bound")
    ctx.floor(len(recs), 2, "recursive _traverse calls")
    # the cycle marker
    marker = any(isinstance(n, ast.Return) and "value_repr='...'" in norm(n) for n in walk_local(f.node))
    ctx.check(marker, f.fq, "return Node(value_repr='...')", f.where, "a revisited container yields the ellipsis marker", "a revisited container no longer yields the '...' marker node")


def r16_3(ctx):
    from ..astutil import inline, single_defs
    from ..yieldpaths import canon_test
    ctx.rule("R16.3", "abbreviation counts: the omitted-item count is num_items - N with the same N that bounds islice (wherever in traverse the islice is written) and num_items = len(obj); the omitted-character count is len(obj) - N with the same N that slices the string; both only when the size exceeds N")
    m = ctx.repo.mod("pretty")
    f = m.functions.get("traverse.<locals>._traverse")
    tr = m.functions.get("traverse.<locals>.to_repr")
    if tr is None and m.functions.get("traverse") is not None:
        # to_repr = partial(<module-level function>, max_string=max_string)
        for x in walk_local(m.functions["traverse"].node):
            if isinstance(x, ast.Assign) and norm(x.targets[0]) == "to_repr" and isinstance(x.value, ast.Call) and norm(x.value.func) in ("partial", "functools.partial") and x.value.args and isinstance(x.value.args[0], ast.Name):
                cand = m.functions.get(x.value.args[0].id)
                if cand is not None and all(k.arg == norm(k.value) for k in x.value.keywords):
                    tr = cand
    if f is None or tr is None:
        raise AnchorVanished("pretty.traverse inner functions not found")
    # islice calls anywhere inside traverse (its nested helpers included)
    outer = m.functions.get("traverse")
    islices = [c for c in ast.walk(outer.node) if isinstance(c, ast.Call) and call_name(c) == "islice"]
    ctx.floor(len(islices), 1, "islice sites")
    bounds = {norm(c.args[1]) for c in islices if len(c.args) == 2}
    ctx.check(len(bounds) == 1 and all(len(c.args) == 2 for c in islices), f.fq, f"islice bounds {sorted(bounds)}", f.where, f"every islice is bounded by `{sorted(bounds)}` (stop only, no start/step)",
              f"the children shown are limited by islice with bounds {sorted(bounds)} / extra start-step arguments: containers are cut at different lengths")
    fd = single_defs(f.node)
    found = False

    def enclosing_facts(fn, node, defs):
        """branch facts of every `if` whose true-branch encloses the node"""
        facts = {}
        cur, child = m.parent_of.get(node), node
        while cur is not None and cur is not fn.node:
            if isinstance(cur, ast.If) and any(child is b for b in cur.body):
                facts.update(dict(canon_test(inline(cur.test, defs), True)))
            cur, child = m.parent_of.get(cur), cur
        return facts
    for x in walk_local(f.node):
        if isinstance(x, ast.JoinedStr):
            parts = fstring_parts(x)
            fields = [p_ for p_ in parts if isinstance(p_, tuple)]
            lits = "".join(p_ for p_ in parts if isinstance(p_, str))
            if fields and "+" in lits:
                found = True
                facts = enclosing_facts(f, x, fd)
                expr = inline(fields[0][1], fd)
                exceeded = False
                if isinstance(expr, ast.IfExp):
                    # `0 if N is None else len(obj) - N` under the guard `<that> > 0`: the zero arm cannot be positive, so on the
                    # guarded path the count is the other arm and it being positive says the size exceeds N
                    arms = [expr.body, expr.orelse]
                    zero = [a for a in arms if isinstance(a, ast.Constant) and a.value == 0]
                    if len(zero) == 1 and (facts.get(f"({norm(expr)}) > 0") is True or facts.get(f"{norm(expr)} > 0") is True or facts.get(f"{norm(fields[0][1])} > 0") is True
                                           or facts.get(norm(expr)) is True or facts.get(f"({norm(expr)})") is True or facts.get(norm(fields[0][1])) is True):
                        expr = [a for a in arms if a is not zero[0]][0]
                        exceeded = True
                if exceeded and isinstance(expr, ast.Call) and norm(expr.func) == "max" and len(expr.args) == 2 and any(isinstance(a, ast.Constant) and a.value == 0 for a in expr.args):
                    # max(0, X) that is known positive is X
                    expr = [a for a in expr.args if not (isinstance(a, ast.Constant) and a.value == 0)][0]
                ok = isinstance(expr, ast.BinOp) and isinstance(expr.op, ast.Sub) and norm(expr.left) == "len(obj)" and {norm(expr.right)} == bounds
                ok = ok and (exceeded or facts.get(f"len(obj) > {norm(expr.right)}") is True or facts.get(f"{norm(expr.right)} < len(obj)") is True)
                ctx.check(ok, f.fq, short(x), f"{m.relpath}:{x.lineno}", f"omitted items = len(obj) - {sorted(bounds)} (the islice bound), only when exceeded",
                          f"the abbreviation marker reports `{norm(expr)}` omitted items, but the items shown are limited by islice(..., {sorted(bounds)}) of len(obj) items (or the marker is not guarded by len(obj) > that bound): the count does not match what was left out")
    ctx.check(found, f.fq, "abbreviation marker", f.where, "abbreviation marker present", "no '... +N' marker is appended when max_length cuts the container")
    # the cut and the marker answer to the same condition: the marker appears when `N is not None and len(obj) > N`; the islice that
    # does the cutting must then be in force for every N that is not None - a truthiness test (`if N:`) skips it for N == 0, all items
    # are shown AND reported as omitted
    for c in islices:
        if len(c.args) != 2:
            continue
        b = norm(c.args[1])
        facts = enclosing_facts(outer, c, {})
        where = f"{m.relpath}:{c.lineno}"
        if facts.get(f"{b} is not None") is True or facts.get(f"{b} is None") is False:
            ctx.ok(where, f"islice applies whenever `{b}` is not None", f.fq)
        elif facts.get(b) is True or facts.get(f"{b} > 0") is True:
            ctx.violation(f.fq, short(c), where, f"`{short(c)}` is applied only when `{b}` is truthy, while the '... +N' marker is written whenever `{b} is not None and len(obj) > {b}`: with {b}=0 every item is shown and all of them are reported as omitted ([1, 2, 3] prints as '[1, 2, 3, ... +3]')")
        elif not any(b in k for k in facts):
            ctx.ok(where, f"islice(.., {b}) is unconditional (None means no limit)", f.fq)
        else:
            raise AnalysisError(f"pretty.traverse: `{short(c)}` is guarded by {sorted(k for k in facts if b in k)}; cannot tell whether it is in force whenever the marker is written")
    # strings
    td = single_defs(tr.node)
    ok = False
    for x in walk_local(tr.node):
        if isinstance(x, ast.JoinedStr):
            facts = enclosing_facts(tr, x, td)
            if facts.get("len(obj) > max_string") is not True:
                continue
            parts = fstring_parts(x)
            fields = [norm(inline(p_[1], td)) for p_ in parts if isinstance(p_, tuple)]
            lits = "".join(p_ for p_ in parts if isinstance(p_, str))
            if sorted(fields) == sorted(["obj[:max_string]", "len(obj) - max_string"]) and "+" in lits:
                ok = True
    ctx.check(ok, tr.fq, "string abbreviation", tr.where, "omitted characters = len(obj) - max_string with obj[:max_string] shown", "the string abbreviation does not report len(obj) - max_string characters for the obj[:max_string] prefix it shows")


def _strip_key(em):
    """emissions without the `key: ` prefix of mapping items"""
    if len(em) >= 2 and em[0] == ("yield", "self.key_repr") and em[1] == ("yield", "': '"):
        return em[2:], True
    return em, False


def r16_4(ctx):
    from ..yieldpaths import Unsupported, emissions, paths_of, select, show
    ctx.rule("R16.4", "both serialisers of Node.children agree on the grammar (decided on the path normal form, so guard clauses / else branches / temporaries / conditional expressions are the same thing): Node.iter_tokens emits open, child0, ',', close for a one-element tuple and open, children separated by ', ' (none after the last), close otherwise, 'key: ' before mapping items; _Line.expand gives the single element of a tuple the suffix ',' and every other child its own separator")
    m = ctx.repo.mod("pretty")
    it = m.fn("Node.iter_tokens")
    ex = m.fn("_Line.expand")
    try:
        P = paths_of(it.node)
        PX = paths_of(ex.node)
    except Unsupported as u:
        raise AnalysisError(f"pretty: iter_tokens/expand use a statement the path normal form does not cover ({u}); the grammar clause cannot be decided")
    base = {"self.value_repr": False, "self.children is None": False, "self.children": True}
    one = dict(base, **{"self.is_tuple": True, "len(self.children) == 1": True})
    want_one = [("yield", "self.open_brace"), ("yieldfrom", "self.children[0].iter_tokens()"), ("yield", "','"), ("yield", "self.close_brace")]
    sel = select(P, one)
    ok = bool(sel)
    bad = None
    for p in sel:
        em, _ = _strip_key([e for e in emissions(p) if e[0] != "return"])
        if em != want_one:
            lps_ = [e for e in em if e[0] == "loop" and e[2] in ("self.children", "children")]
            if lps_ and any(ev[0] == "yield" and ev[1] == "','" for body_ in lps_[0][3] for ev in body_):
                raise AnalysisError("Node.iter_tokens: the one-element tuple is emitted by the general loop over the children (a per-child test inside the loop); this rule compares straight-line emissions and does not unroll the loop")
            ok, bad = False, p
    ctx.check(ok, it.fq, show(bad) if bad else "tuple of one", it.where, f"inline form of a 1-tuple is open, element, ',', close on all {len(sel)} paths",
              "Node.iter_tokens no longer adds the trailing comma for a one-element tuple: (1,) prints as (1), which evaluates to an int" + (f" [path: {show(bad)}]" if bad else ""))
    body_last = (("yieldfrom", "child.iter_tokens()"),)
    body_more = (("yieldfrom", "child.iter_tokens()"), ("yield", "', '"))
    n_multi = 0
    for scen in (dict(base, **{"self.is_tuple": False}), dict(base, **{"self.is_tuple": True, "len(self.children) == 1": False})):
        sel = select(P, scen)
        ok = bool(sel)
        bad = None
        for p in sel:
            n_multi += 1
            em, _ = _strip_key([e for e in emissions(p) if e[0] != "return"])
            good = len(em) == 3 and em[0] == ("yield", "self.open_brace") and em[2] == ("yield", "self.close_brace") and em[1][0] == "loop" and em[1][1] == "child" and em[1][2] == "self.children"
            if good:
                bodies = em[1][3]
                last = select(bodies, {"child.last": True})
                more = select(bodies, {"child.last": False})
                good = bool(last) and bool(more) and all(tuple(emissions(b)) == body_last for b in last) and all(tuple(emissions(b)) == body_more for b in more)
            if not good:
                ok, bad = False, p
        ctx.check(ok, it.fq, show(bad) if bad else "children loop", it.where, "children are emitted in order separated by ', ' (none after the last) between the braces",
                  "Node.iter_tokens does not emit every child in order separated by ', ' between the braces" + (f" [path: {show(bad)}]" if bad else ""))
    # mapping keys
    sel_k = select(P, {"self.key_repr": True})
    sel_n = select(P, {"self.key_repr": False})
    ok = bool(sel_k) and all(_strip_key(emissions(p))[1] for p in sel_k) and all(not _strip_key(emissions(p))[1] for p in sel_n)
    ctx.check(ok, it.fq, "key: value", it.where, "dict items print as key: value", "dict items are no longer emitted as `key: value` (exactly when the node has a key)")
    # empty container and atom
    sel_e = select(P, {"self.value_repr": False, "self.children is None": False, "self.children": False})
    ok = bool(sel_e) and all(_strip_key([e for e in emissions(p) if e[0] != "return"])[0] == [("yield", "self.empty")] for p in sel_e)
    ctx.check(ok, it.fq, "yield self.empty", it.where, "an empty container prints its `empty` form", "an empty container no longer prints as its `empty` form")
    sel_a = select(P, {"self.value_repr": True})
    ok = bool(sel_a) and all(_strip_key([e for e in emissions(p) if e[0] != "return"])[0] == [("yield", "self.value_repr")] for p in sel_a)
    ctx.check(ok, it.fq, "yield self.value_repr", it.where, "an atom prints its repr only", "a node with a value_repr no longer prints exactly that repr")

    # _Line.expand: the per-child suffix
    def suffix_of(ev):
        try:
            c = ast.parse(ev[1], mode="eval").body
        except SyntaxError:
            return None, None
        if isinstance(c, ast.Call) and norm(c.func) == "_Line":
            kw = {k.arg: norm(k.value) for k in c.keywords}
            return kw.get("node"), kw.get("suffix", "''")
        return None, None
    n_child = 0
    okx = bool(PX)
    badx = None
    if PX and not any(e[0] in ("yield", "yieldfrom") or (e[0] == "loop" and any(y[0] in ("yield", "yieldfrom") for b in e[3] for y in b)) for p in PX for e in p):
        raise AnalysisError("_Line.expand: the lines are not yielded one by one (a list is built and returned); the per-child suffix clause reads the generator form and is not decided here")
    from ..yieldpaths import consistent as _cons164
    T1 = {"self.node.is_tuple": True, "len(self.node.children) == 1": True, "node.is_tuple": True, "len(node.children) == 1": True}
    hoisted_away, scen_seen = set(), set()
    for p in PX:
        loops = [e for e in p if e[0] == "loop" and e[2] in ("self.node.children", "node.children")]
        if len(loops) != 1:
            # the one-tuple case written out before the loop: exactly one child line, for children[0], with the comma
            ys = [e for e in p if e[0] == "yield" and "node=" in e[1]]
            if not loops and _cons164(p, T1) and any(e[0] == "cond" and "is_tuple" in e[1] and e[2] for e in p) and len(ys) == 1:
                nd_, sx_ = suffix_of(ys[0])
                if nd_ in ("self.node.children[0]", "node.children[0]") and sx_ == "','":
                    n_child += 1
                    continue
            okx, badx = False, p
            continue
        var = loops[0][1]
        T = {"self.node.is_tuple": True, "len(self.node.children) == 1": True, "node.is_tuple": True, "len(node.children) == 1": True}
        for scen, want in ((T, "','"), ({"self.node.is_tuple": False, "node.is_tuple": False}, f"{var}.separator"), ({"len(self.node.children) == 1": False, "len(node.children) == 1": False}, f"{var}.separator")):
            if not _cons164(p, scen):
                # the case distinction was hoisted out of the loop: this path is the other case's loop
                hoisted_away.add(tuple(sorted(scen.items())))
                continue
            scen_seen.add(tuple(sorted(scen.items())))
            sel = select(loops[0][3], scen)
            if not sel:
                okx, badx = False, p
            for b in sel:
                ys = [e for e in b if e[0] == "yield"]
                n_child += 1
                if len(ys) != 1 or suffix_of(ys[0]) != (var, want):
                    okx, badx = False, p
    if hoisted_away - scen_seen:
        # a case that no path with a child loop takes must be the written-out one-tuple case; any other leaves that case without children
        t1_key = tuple(sorted(T1.items()))
        written_out = any(not [e for e in p if e[0] == "loop"] and _cons164(p, T1) for p in PX)
        okx = okx and all(k == t1_key and written_out for k in hoisted_away - scen_seen)
    ctx.check(okx, ex.fq, show(badx)[:300] if badx else "child suffix", ex.where, "expanded form: the single element of a tuple gets ',' and every other child its own separator",
              "_Line.expand no longer gives the single element of a tuple its trailing comma (or other children their separator)")
    ctx.floor(n_child + n_multi, 4, "grammar paths in iter_tokens / expand")


def r16_5(ctx):
    ctx.rule("R16.5", "measure = render for the fits-on-one-line decision: Node.check_length adds up cell_len over the very tokens Node.iter_tokens yields (the tokens that are printed), starting from the line's prefix length, and _Line.check_length passes whitespace + text + suffix")
    m = ctx.repo.mod("pretty")
    f = m.fn("Node.check_length")
    loops = [x for x in walk_local(f.node) if isinstance(x, ast.For)]
    uses_tokens = any(isinstance(c, ast.Call) and norm(c.func) == "self.iter_tokens" for c in walk_local(f.node))
    ctx.check(uses_tokens, f.fq, "self.iter_tokens()", f.where, "the length test walks the printed tokens",
              "Node.check_length no longer measures the tokens produced by iter_tokens(): a separately maintained length (e.g. a cached per-node width) can disagree with what is printed - such as the trailing comma of a one-element tuple - so a container stays on one line although it is wider than max_width")
    if uses_tokens:
        if len(loops) == 1 and norm(loops[0].iter) == "self.iter_tokens()":
            # the running total: an accumulator moved by cell_len(token) each round and tested inside the loop. With S = the sum so
            # far: counting up  acc = init + S, test acc > X;  counting down  acc = init - S, test acc < X.  Either way the test
            # must say  start_length + S > max_length  (linear forms over the parameters)
            from ..linear import lin as _lin, eq as _leq, _add as _ladd
            lp = loops[0]
            tok = norm(lp.target)
            steps = [b for b in lp.body if isinstance(b, ast.AugAssign) and isinstance(b.op, (ast.Add, ast.Sub)) and isinstance(b.target, ast.Name)]
            if len(steps) != 1:
                raise AnalysisError("Node.check_length: expected one accumulator update per token")
            stp = steps[0]
            acc = stp.target.id
            if norm(stp.value) != f"cell_len({tok})":
                ctx.violation(f.fq, short(stp), f"{m.relpath}:{stp.lineno}", f"`{short(stp)}` does not move the running length by cell_len of the token: the fits-on-one-line test measures something else than what is printed")
            else:
                inits = [x for x in f.node.body if isinstance(x, (ast.Assign, ast.AnnAssign)) and norm(x.targets[0] if isinstance(x, ast.Assign) else x.target) == acc and x.value is not None]
                tests = [t for b in lp.body for t in ast.walk(b) if isinstance(t, ast.Compare) and len(t.ops) == 1 and (norm(t.left) == acc or norm(t.comparators[0]) == acc)]
                if len(inits) != 1 or len(tests) != 1:
                    raise AnalysisError("Node.check_length: accumulator initialisation / threshold test not found in the expected roles")
                t = tests[0]
                other_side = t.comparators[0] if norm(t.left) == acc else t.left
                op = type(t.ops[0])
                if norm(t.left) != acc:
                    op = {ast.Gt: ast.Lt, ast.Lt: ast.Gt, ast.GtE: ast.LtE, ast.LtE: ast.GtE}.get(op, op)
                want = {"start_length": 1, "max_length": -1}
                up = isinstance(stp.op, ast.Add)
                diff = _ladd(_lin(inits[0].value), _lin(other_side), -1) if up else _ladd(_lin(other_side), _lin(inits[0].value), -1)
                strict = (op is ast.Gt) if up else (op is ast.Lt)
                loose = (op is ast.GtE) if up else (op is ast.LtE)
                if strict and _leq(diff, want):
                    ctx.ok(f.where, "every token's cell_len is added to the prefix length and compared with the limit", f.fq)
                elif loose and _leq(diff, _ladd(want, {"": 1}, -1)):
                    ctx.ok(f.where, "every token's cell_len is added to the prefix length and compared with the limit (>= limit + 1 form)", f.fq)
                elif (strict or loose):
                    ctx.violation(f.fq, short(t), f"{m.relpath}:{t.lineno}", f"the length test `{norm(t)}` with `{short(inits[0])}` does not say start_length + (cells so far) > max_length: the container is kept on one line that does not fit, or expanded although it fits")
                else:
                    raise AnalysisError(f"Node.check_length: threshold test `{norm(t)}` is not a comparison this rule reads")
        else:
            from ..astutil import inline as _inl, single_defs as _sdf
            rets = [r for r in walk_local(f.node) if isinstance(r, ast.Return) and r.value is not None]
            closed = norm(_inl(rets[-1].value, _sdf(f.node))) if rets else ""
            running = "accumulate(chain((start_length,), map(cell_len, self.iter_tokens())))"
            forms = (f"not any((length > max_length for length in islice({running}, 1, None)))", f"all((length <= max_length for length in islice({running}, 1, None)))")
            if closed not in forms:
                raise AnalysisError(f"Node.check_length: the accumulation `{closed[:160]}` over iter_tokens() is written in a form this rule does not interpret; the measure = render clause cannot be decided")
            ctx.ok(f.where, "running sum of cell_len over the printed tokens, seeded with start_length, compared with max_length", f.fq)
    g = m.fn("_Line.check_length")
    from ..astutil import inline as _inl165, single_defs as _sdf165
    from ..linear import lin as _lin165, eq as _leq165
    sd165 = _sdf165(g.node)
    calls165 = [c for c in walk_local(g.node) if isinstance(c, ast.Call) and isinstance(c.func, ast.Attribute) and c.func.attr == "check_length" and c.args]
    if len(calls165) != 1:
        raise AnalysisError("_Line.check_length: the call of Node.check_length was not found")
    a0 = _inl165(calls165[0].args[0], sd165)
    want165 = {"len(self.whitespace)": 1, "cell_len(self.text)": 1, "cell_len(self.suffix)": 1}
    got165 = _lin165(a0)
    if _leq165(got165, want165):
        ctx.ok(g.where, "indent, text and suffix are counted", g.fq)
    elif set(got165) <= set(want165) | {""} or any("len(self." in k for k in got165):
        ctx.violation(g.fq, short(calls165[0]), g.where, f"_Line.check_length starts the count at `{norm(a0)}`, not at whitespace (characters) + text (cells) + suffix (cells): the fits-on-one-line decision ignores part of the line or measures it in the wrong unit")
    else:
        raise AnalysisError(f"_Line.check_length: the start length `{norm(a0)}` is not read by this rule")


def r16_6(ctx):
    ctx.rule("R16.6", "a leaf's repr is computed from that very object: no mapping keyed by the traversed value hands out a repr inside pretty.traverse - equal keys of different types (1 == True == 1.0, 0 == False) would share one entry and the first one's repr would be printed for the others")
    m = ctx.repo.mod("pretty")
    outer = m.fn("traverse")
    bad = []
    fam = [outer] + [f for q, f in m.functions.items() if q.startswith("traverse.<locals>.")]
    for f in fam:
        params = set(f.params)
        for x in walk_local(f.node):
            # store  D[obj] = <something derived from repr/to_repr>   or lookup D.get(obj) / D[obj] used as a repr
            key = None
            if isinstance(x, ast.Subscript) and isinstance(x.value, ast.Name) and isinstance(x.slice, ast.Name) and x.slice.id in params and isinstance(x.ctx, ast.Store):
                par = m.parent_of.get(x)
                val = par.value if isinstance(par, ast.Assign) else None
                if val is not None and any(isinstance(c, ast.Call) and norm(c.func) in ("repr", "to_repr", "_to_repr") for c in ast.walk(val)):
                    key = x
            if key is not None:
                bad.append((f, key))
    for f, k in bad:
        st = k
        while not isinstance(st, ast.stmt):
            st = m.parent_of[st]
        ctx.violation(f.fq, short(st), f"{m.relpath}:{st.lineno}", f"`{short(st)}` memoises a repr under the traversed VALUE `{norm(k.slice)}`: values that compare equal but print differently (1, True, 1.0) get each other's repr, so the pretty output no longer evaluates back to the original object")
    ctx.check(not bad, outer.fq, "no repr cache keyed by value", outer.where, "reprs are not cached by value", "a repr cache keyed by the traversed value exists in traverse()")


def r16_7(ctx):
    from .c13 import r13_2
    from .common import borrow
    borrow(ctx, r13_2, "R13.2", "R16.7", " [premise of 'kept on one line only if that line fits': Node.check_length measures the one-line form with cell_len, so the width-table lookup behind it must select the right range for every code point]")


def r16_8(ctx):
    ctx.rule("R16.8", "expanding a line keeps what follows it: in _Line.expand the closing-brace line carries the suffix of the line being expanded (`self.suffix` - the separator, or the one-tuple comma, that the parent attached to this child), not a separator recomputed from the node alone; otherwise the comma of a one-element tuple is lost as soon as its element is expanded and `([1, 2],)` prints as an expression that evaluates to the list")
    from ..astutil import inline as _inl, single_defs as _sdf
    m = ctx.repo.mod("pretty")
    ex = m.fn("_Line.expand")
    sd = _sdf(ex.node)
    closes = []
    for x in walk_local(ex.node):
        if isinstance(x, ast.Call) and norm(x.func) == "_Line":
            t = kwarg(x, "text")
            if t is not None and norm(_inl(t, sd)) in ("node.close_brace", "self.node.close_brace"):
                closes.append(x)
    if not closes:
        raise AnalysisError("_Line.expand: no `_Line(text=<node>.close_brace, ...)` found - the closing line is built in a way this rule does not read")
    for c in closes:
        sx = kwarg(c, "suffix")
        where = f"{m.relpath}:{c.lineno}"
        if sx is None:
            ctx.violation(ex.fq, short(c), where, "the closing-brace line of an expanded container has no suffix: the separator after a nested container (and the comma of a one-element tuple) is dropped")
            continue
        v = norm(_inl(sx, sd))
        if v == "self.suffix":
            ctx.ok(where, "closing line carries self.suffix", ex.fq)
        elif "self.suffix" not in v:
            ctx.violation(ex.fq, short(c), where, f"the closing-brace line gets `{short(sx)}` instead of the expanded line's own suffix (self.suffix): when this node is the single element of a tuple the parent's ',' is lost on expansion - pretty_repr(([1, 2],), expand_all=True) evaluates to [1, 2], not to the tuple")
        else:
            raise AnalysisError(f"_Line.expand: closing-line suffix `{v}` mixes self.suffix with other terms; not decided")


def r16_9(ctx):
    from .common import units_check
    ctx.rule("R16.9", "the fits-the-width decisions of the pretty printer are made in terminal cells: in Node.render, Node.check_length and _Line.check_length a quantity compared with (or subtracted from) max_width / max_length is a cell measure (cell_len), never a character count len(..) - a container of double-width text would otherwise be kept on one line that is wider than max_width")
    m = ctx.repo.mod("pretty")
    for q, params in (("Node.render", ("max_width",)), ("Node.check_length", ("max_length", "start_length")), ("_Line.check_length", ("max_length",))):
        f = m.fn(q)
        have = [p_ for p_ in params if p_ in f.params]
        if not have:
            raise AnchorVanished(f"pretty.{q}: width parameter {params} not found")
        units_check(ctx, f, have, floor=0)


_MAPPING_TYPE_NAMES = {"dict": ("dict",), "defaultdict": ("dict",), "Counter": ("dict",), "OrderedDict": ("dict",), "os._Environ": ("os._Environ", "MutableMapping"), "ChainMap": ("ChainMap",), "MappingProxyType": ("MappingProxyType",)}


def r16_10(ctx):
    ctx.rule("R16.10", "every mapping type the printer knows is printed as key: value pairs: the test in traverse() that selects the items() form covers each key of _BRACES that is a mapping (dict, defaultdict, Counter, os._Environ) - either by isinstance against a tuple that contains dict (subclasses included) and os._Environ, or, when it compares the exact type, by a collection that lists every one of them; a mapping walked as a plain sequence prints its keys only (Counter({'a': 2}) -> Counter({'a'}))")
    m = ctx.repo.mod("pretty")
    braces = m.module_const("_BRACES")
    if not isinstance(braces, ast.Dict):
        raise AnalysisError("pretty._BRACES is not a dict literal")
    keys = [norm(k) for k in braces.keys]
    mapping_keys = [k for k in keys if k in _MAPPING_TYPE_NAMES]
    ctx.floor(len(mapping_keys), 2, "mapping types in _BRACES")
    f = m.fn("traverse")
    fam = [f] + [q for k, q in m.functions.items() if k.startswith("traverse.<locals>.")]
    tests = []
    for q in fam:
        for x in walk_local(q.node):
            if isinstance(x, ast.Call) and isinstance(x.func, ast.Attribute) and x.func.attr == "items" and not x.args:
                from ..astutil import inline as _inl1610, single_defs as _sdf1610
                sdq = _sdf1610(q.node)
                cur = m.parent_of.get(x)
                while cur is not None and cur is not q.node:
                    if isinstance(cur, (ast.If, ast.IfExp)):
                        arms = cur.body if isinstance(cur, ast.If) else [cur.body]
                        t_ = _inl1610(cur.test, sdq)
                        is_type_test = (isinstance(t_, ast.Call) and norm(t_.func) == "isinstance") or (isinstance(t_, ast.Compare) and len(t_.ops) == 1 and isinstance(t_.ops[0], ast.In) and "type" in norm(t_.left))
                        if is_type_test and any(x is c for b in arms for c in ast.walk(b)):
                            if (q, cur) not in tests:
                                tests.append((q, cur))
                            break
                    cur = m.parent_of.get(cur)
    if len(tests) != 1:
        raise AnalysisError(f"pretty.traverse: expected one `if <mapping test>:` selecting the items() form, found {len(tests)}")
    q, it = tests[0]
    from ..astutil import inline as _inl16, single_defs as _sdf16
    t = _inl16(it.test, _sdf16(q.node))
    where = f"{m.relpath}:{it.lineno}"

    def members(e):
        if isinstance(e, ast.Name):
            v = m.module_const(e.id)
            return members(v) if v is not None else None
        if isinstance(e, (ast.Tuple, ast.List, ast.Set)):
            return [norm(x) for x in e.elts]
        if isinstance(e, ast.Call) and norm(e.func) in ("frozenset", "set", "tuple") and len(e.args) == 1:
            return members(e.args[0])
        return None
    if isinstance(t, ast.Call) and norm(t.func) == "isinstance" and len(t.args) == 2:
        mem = members(t.args[1])
        if mem is None:
            raise AnalysisError(f"pretty.traverse: cannot read the types in `{short(t)}`")
        missing = [k for k in mapping_keys if not any(b in mem for b in _MAPPING_TYPE_NAMES[k]) and k not in mem]
        ctx.check(not missing, q.fq, short(t), where, "isinstance test covers every mapping type of _BRACES (dict subclasses through dict)",
                  f"`{short(t)}` does not cover {missing}: these mappings are traversed as sequences and print their keys only")
    elif isinstance(t, ast.Compare) and len(t.ops) == 1 and isinstance(t.ops[0], ast.In):
        mem = members(t.comparators[0])
        if mem is None:
            raise AnalysisError(f"pretty.traverse: cannot read the types in `{short(t)}`")
        missing = [k for k in mapping_keys if k not in mem]
        ctx.check(not missing, q.fq, short(t), where, "exact-type test lists every mapping type of _BRACES",
                  f"`{short(t)}` compares the exact type but does not list {missing}: Counter({{'a': 2, 'b': 1}}) is walked as a sequence and prints as Counter({{'a', 'b'}}), which evaluates back with the counts lost")
    else:
        raise AnalysisError(f"pretty.traverse: mapping test `{short(t)}` is neither isinstance(..) nor `type in <collection>`")


def r16_11(ctx):
    ctx.rule("R16.11", "children are listed in the container's own iteration order: in pretty.traverse the traversed object (or its items()) is iterated as it is - never through sorted() / reversed() - because on one line the result must equal repr(), which uses that order")
    m = ctx.repo.mod("pretty")
    f = m.fn("traverse")
    fam = [f] + [q for k, q in m.functions.items() if k.startswith("traverse.<locals>.")]
    n = 0
    for q in fam:
        params = set(q.params)
        for x in walk_local(q.node):
            if isinstance(x, ast.Call) and isinstance(x.func, ast.Name) and x.func.id in ("sorted", "reversed") and x.args:
                a = x.args[0]
                base = a.func.value if isinstance(a, ast.Call) and isinstance(a.func, ast.Attribute) and a.func.attr in ("items", "keys", "values") else a
                if isinstance(base, ast.Name) and base.id in params:
                    n += 1
                    ctx.violation(q.fq, short(x), f"{m.relpath}:{x.lineno}", f"`{short(x)}` re-orders the elements of the traversed container: {{8, 1}} is printed as {{1, 8}} while repr() gives {{8, 1}} - the one-line form no longer equals repr()")
    if not n:
        ctx.ok(f.where, "the traversed container is iterated in its own order", f.fq)


# attributes of a container interpolated into its brace template, and what their repr() is
_FIELD_REPR = {
    "typecode": ("evaluable", "a one-character str"),
    "maxlen": ("evaluable", "an int or None"),
    "default_factory": ("callable", "a class or function: repr() gives <class 'list'> / <function f at 0x..>, which is not an expression"),
}


def r16_12(ctx):
    ctx.rule("R16.12", "the text around the items is itself evaluable: a value interpolated into a brace template of _BRACES is written with repr() of something whose repr is an expression (array typecode). repr() of a callable is not: defaultdict(list, {1: [2]}) is printed as defaultdict(<class 'list'>, {1: [2]}), a SyntaxError when evaluated")
    m, entries = _braces_entries(ctx)
    n = 0
    for tname, node, param, ret in entries:
        if not (isinstance(ret, ast.Tuple) and len(ret.elts) == 3):
            continue
        where = f"{m.relpath}:{getattr(ret, 'lineno', getattr(node, 'lineno', 0))}"
        seen = {}
        for el in ret.elts:
            for fv in ast.walk(el):
                if not isinstance(fv, ast.FormattedValue):
                    continue
                n += 1
                v = fv.value
                if not (isinstance(v, ast.Attribute) and isinstance(v.value, ast.Name) and v.value.id == param):
                    raise AnalysisError(f"_BRACES[{tname}] interpolates `{norm(v)}`; this rule reads attributes of the container only")
                kind = _FIELD_REPR.get(v.attr)
                if kind is None:
                    raise AnalysisError(f"_BRACES[{tname}] interpolates `{norm(v)}`; the rule has no entry for what repr() of that attribute looks like")
                seen[v.attr] = (kind, fv.conversion)
        for attr, (kind, conv) in seen.items():
            if kind[0] == "evaluable" and conv == ord("r"):
                ctx.ok(where, f"{tname}: {attr!s} ({kind[1]}) written with repr()", "pretty:_BRACES")
            elif kind[0] == "evaluable":
                ctx.violation("pretty:_BRACES", f"{tname}: {{{param}.{attr}}}", where, f"_BRACES[{tname}] writes {attr} without repr(): a str typecode is printed bare and evaluates as a name")
            else:
                ctx.violation("pretty:_BRACES", f"{tname}: {{{param}.{attr}!r}}", where, f"_BRACES[{tname}] writes repr({attr}) into the output; {attr} is {kind[1]}. pretty_repr(defaultdict(list, {{1: [2]}})) == \"defaultdict(<class 'list'>, {{1: [2]}})\" does not evaluate (it mirrors the built-in repr of defaultdict)")
    ctx.floor(n, 1, "values interpolated into brace templates")


def r16_13(ctx):
    from .c13 import r13_1
    from .common import borrow
    borrow(ctx, r13_1, "R13.1", "R16.13", " [the fits-on-one-line decision measures repr strings with cell_len: the per-character shortcut must agree with the width table, or a string with combining marks is expanded although its repr fits]")


def r16_14(ctx):
    ctx.rule("R16.14", "every position in the output has its own node: the parent writes the separator state (`last`) and the key (`key_repr`) onto the Node its recursive call returns, so each value the recursive walk returns must be a Node built in that very call - a node handed out twice (looked up in a table of nodes already built, or a module-level constant for the '...' back-reference) carries the key and separator of its LAST position at every position: [a, a] prints '[[1, 2][1, 2]]' and {'x': a, 'y': a} prints the key 'y' twice")
    m = ctx.repo.mod("pretty")
    tr = m.functions.get("traverse.<locals>._traverse") or m.functions.get("_traverse")
    if tr is None:
        raise AnchorVanished("pretty: the recursive walk _traverse was not found")
    # the premise: results of the recursive call are written to
    own = tr.qualname.split(".")[-1]
    written = set()
    for x in walk_local(tr.node):
        if isinstance(x, ast.Assign):
            for t in x.targets:
                if isinstance(t, ast.Attribute) and t.attr in ("last", "key_repr", "is_tuple"):
                    written.add(t.attr)
    if not ({"last", "key_repr"} & written):
        ctx.note("the walk no longer writes separator state onto child nodes; R16.14 is then vacuous")
    defs = {}
    for x in walk_local(tr.node):
        if isinstance(x, (ast.Assign, ast.AnnAssign)) and x.value is not None:
            for t in (x.targets if isinstance(x, ast.Assign) else [x.target]):
                if isinstance(t, ast.Name):
                    defs.setdefault(t.id, []).append(x.value)

    def fresh(e, depth=0):
        if isinstance(e, ast.Call) and norm(e.func) in ("Node", "_Node"):
            return True
        if isinstance(e, ast.IfExp):
            return fresh(e.body, depth) and fresh(e.orelse, depth)
        if isinstance(e, ast.Name) and e.id in defs and depth < 3:
            return all(fresh(d, depth + 1) for d in defs[e.id])
        return False
    n = 0
    for r in walk_local(tr.node):
        if isinstance(r, ast.Return) and r.value is not None:
            n += 1
            ctx.check(fresh(r.value), tr.fq, short(r), f"{m.relpath}:{r.lineno}", "the returned node is built in this call",
                      f"`{short(r)}` hands out a node that was not built in this call (a table of nodes / a shared constant): the caller writes `last` and `key_repr` onto it, so every other position that got the same node shows the separator and key of the last one - a container that occurs twice prints without the comma between its occurrences, and the output does not evaluate")
    ctx.floor(n, 2, "returns of the recursive walk")


RULES = [r16_1, r16_2, r16_3, r16_4, r16_5, r16_6, r16_7, r16_8, r16_9, r16_10, r16_11, r16_12, r16_13, r16_14]
