"""Memoisation soundness: a value stored in a cache may depend only on what the cache key covers
(plus state that never changes after construction and never-written module constants).

Recognised caches:
  * functools.lru_cache on a function / method (key = all arguments; `self` by __eq__/__hash__ if
    the class defines them by value, else by identity);
  * a dict-like cache `C[K] = V` / `C.get(K)` where C is a class attribute, a module global, a
    default-argument object (all shared) or an instance attribute;
  * a lazily filled slot  `if self._s is None: ... self._s = V`  (key-less).
"""
from __future__ import annotations

import ast
from typing import Dict, List, Optional, Set, Tuple

from .astutil import default_args, is_attr_of
from .index import FuncInfo, norm, short, walk_local

BUILTINS = {
    "len", "range", "min", "max", "ord", "int", "sum", "abs", "str", "float", "round", "tuple", "list", "dict", "set",
    "sorted", "isinstance", "iter", "next", "zip", "enumerate", "all", "any", "repr", "bool", "hash", "chr", "divmod",
    "True", "False", "None", "print", "getattr", "hasattr", "map", "filter", "reversed", "type", "frozenset", "bytes",
    "open", "ValueError", "KeyError", "IndexError", "TypeError", "Exception", "StopIteration", "NotImplemented", "format", "id", "super", "object", "slice",
}
IMPURE_CALLS = {"time", "randint", "random", "monotonic", "perf_counter", "getenv", "now", "input", "open"}


class Problem:
    def __init__(self, fn: FuncInfo, node, construct: str, message: str):
        self.fn, self.node, self.construct, self.message = fn, node, construct, message


class Site:
    def __init__(self, fn, kind, desc, node):
        self.fn, self.kind, self.desc, self.node = fn, kind, desc, node


def _free_names(fn_node) -> Set[str]:
    bound = {a.arg for a in fn_node.args.args + fn_node.args.kwonlyargs + fn_node.args.posonlyargs}
    for n in ast.walk(fn_node):
        if isinstance(n, ast.Name) and isinstance(n.ctx, ast.Store):
            bound.add(n.id)
        elif isinstance(n, ast.ExceptHandler) and n.name:
            bound.add(n.name)  # `except E as name` binds name
        elif isinstance(n, (ast.FunctionDef, ast.ClassDef)) and n is not fn_node:
            bound.add(n.name)
    return {n.id for n in ast.walk(fn_node) if isinstance(n, ast.Name) and isinstance(n.ctx, ast.Load) and n.id not in bound}


def _self_attr_reads(node, selfname="self") -> Set[str]:
    return {n.attr for n in ast.walk(node) if isinstance(n, ast.Attribute) and isinstance(n.value, ast.Name) and n.value.id == selfname and isinstance(n.ctx, ast.Load)}


def dep_roots(fn: FuncInfo, expr: ast.AST, exclude_stmts: Set[int] = frozenset()) -> Set[str]:
    """Flow-insensitive backward closure of `expr` inside fn: roots are 'param:x', 'self.a', 'global:g', 'impure:f'."""
    params = set(fn.params)
    selfname = fn.params[0] if fn.cls is not None and fn.params and not fn.is_staticmethod else None
    # local definitions: name -> list of source expressions / nodes
    defs: Dict[str, List[ast.AST]] = {}
    localfuncs: Dict[str, ast.AST] = {}
    for n in walk_local(fn.node):
        if id(n) in exclude_stmts:
            continue
        if isinstance(n, ast.Assign):
            for t in n.targets:
                for x in ast.walk(t):
                    if isinstance(x, ast.Name):
                        defs.setdefault(x.id, []).append(n.value)
        elif isinstance(n, ast.AnnAssign) and n.value is not None and isinstance(n.target, ast.Name):
            defs.setdefault(n.target.id, []).append(n.value)
        elif isinstance(n, ast.AugAssign) and isinstance(n.target, ast.Name):
            defs.setdefault(n.target.id, []).append(n.value)
        elif isinstance(n, (ast.For, ast.comprehension)):
            for x in ast.walk(n.target):
                if isinstance(x, ast.Name):
                    defs.setdefault(x.id, []).append(n.iter)
        elif isinstance(n, ast.FunctionDef):
            localfuncs[n.name] = n
        elif isinstance(n, ast.NamedExpr):
            defs.setdefault(n.target.id, []).append(n.value)
        elif isinstance(n, ast.withitem) and n.optional_vars is not None:
            for x in ast.walk(n.optional_vars):
                if isinstance(x, ast.Name):
                    defs.setdefault(x.id, []).append(n.context_expr)
    # mutation through methods / subscript stores counts as a definition of the base name
    mutators = ("append", "extend", "insert", "add", "update", "setdefault", "appendleft")
    alias_base: Dict[str, str] = {}
    for nm, srcs in list(defs.items()):
        if len(srcs) >= 1:
            for v in srcs:
                if isinstance(v, ast.Attribute) and v.attr in mutators:
                    b = v.value
                    while isinstance(b, (ast.Subscript, ast.Attribute)):
                        b = b.value
                    if isinstance(b, ast.Name):
                        alias_base[nm] = b.id
    parent = fn.module.parent_of

    def control_tests(node) -> List[ast.AST]:
        out = []
        cur = parent.get(node)
        while cur is not None and cur is not fn.node:
            if isinstance(cur, (ast.If, ast.While)):
                out.append(cur.test)
            elif isinstance(cur, ast.For):
                out.append(cur.iter)
            cur = parent.get(cur)
        return out

    ctrl: Dict[str, List[ast.AST]] = {}
    for n in walk_local(fn.node):
        if id(n) in exclude_stmts:
            continue
        if isinstance(n, ast.Call):
            base = None
            if isinstance(n.func, ast.Attribute) and n.func.attr in mutators:
                b = n.func.value
                while isinstance(b, (ast.Subscript, ast.Attribute)):
                    b = b.value
                if isinstance(b, ast.Name):
                    base = b.id
            elif isinstance(n.func, ast.Name) and n.func.id in alias_base:
                base = alias_base[n.func.id]
            if base is not None:
                for a in n.args:
                    defs.setdefault(base, []).append(a)
                ctrl.setdefault(base, []).extend(control_tests(n))
        elif isinstance(n, (ast.Assign, ast.AugAssign, ast.AnnAssign)):
            tg = n.targets if isinstance(n, ast.Assign) else [n.target]
            for t in tg:
                for x in ast.walk(t):
                    if isinstance(x, ast.Name) and isinstance(x.ctx, ast.Store):
                        ctrl.setdefault(x.id, []).extend(control_tests(n))
                    if isinstance(x, ast.Subscript) and isinstance(x.ctx, ast.Store):
                        b = x.value
                        while isinstance(b, (ast.Subscript, ast.Attribute)):
                            b = b.value
                        if isinstance(b, ast.Name) and getattr(n, "value", None) is not None:
                            defs.setdefault(b.id, []).append(n.value)
                            ctrl.setdefault(b.id, []).extend(control_tests(n))
    for nm, tests in ctrl.items():
        if tests:
            defs.setdefault(nm, []).extend(tests)
    declared_global: Set[str] = set()
    for n in walk_local(fn.node):
        if isinstance(n, (ast.Global, ast.Nonlocal)):
            declared_global |= set(n.names)
    roots: Set[str] = set()
    seen: Set[str] = set()
    work: List[ast.AST] = [expr] + control_tests(expr)
    while work:
        e = work.pop()
        # comprehension targets are bound inside
        comp_bound = set()
        for n in ast.walk(e):
            if isinstance(n, ast.comprehension):
                for x in ast.walk(n.target):
                    if isinstance(x, ast.Name):
                        comp_bound.add(x.id)
        for n in ast.walk(e):
            if isinstance(n, ast.Attribute) and selfname and isinstance(n.value, ast.Name) and n.value.id == selfname and isinstance(n.ctx, ast.Load):
                roots.add(f"self.{n.attr}")
            if isinstance(n, ast.Call):
                cn = n.func.attr if isinstance(n.func, ast.Attribute) else (n.func.id if isinstance(n.func, ast.Name) else "")
                if cn in IMPURE_CALLS:
                    roots.add(f"impure:{cn}")
            if isinstance(n, ast.Name) and isinstance(n.ctx, ast.Load):
                nm = n.id
                if nm in comp_bound and nm not in defs:
                    continue
                if nm == selfname:
                    continue  # attribute reads handled above; bare self handled by caller
                if nm in seen:
                    continue
                seen.add(nm)
                if nm in localfuncs:
                    lf = localfuncs[nm]
                    for fnm in _free_names(lf):
                        work.append(ast.Name(id=fnm, ctx=ast.Load()))
                    if selfname:
                        for a in _self_attr_reads(lf, selfname):
                            roots.add(f"self.{a}")
                    for c in ast.walk(lf):
                        if isinstance(c, ast.Call):
                            cn = c.func.attr if isinstance(c.func, ast.Attribute) else (c.func.id if isinstance(c.func, ast.Name) else "")
                            if cn in IMPURE_CALLS:
                                roots.add(f"impure:{cn}")
                    continue
                if nm in declared_global:
                    roots.add(f"global:{nm}")
                    work.extend(defs.get(nm, []))
                    continue
                if nm in defs:
                    work.extend(defs[nm])
                    if nm in params:
                        roots.add(f"param:{nm}")
                elif nm in params:
                    roots.add(f"param:{nm}")
                elif nm in BUILTINS:
                    continue
                else:
                    roots.add(f"global:{nm}")
    return roots


def reassigned_attrs(repo, cls) -> Set[str]:
    """Attributes of `cls` stored outside construction (self.X = .. in non-__init__ methods,
    excluding lazily-filled cache slots themselves, reported separately)."""
    out: Set[str] = set()
    for name, lst in cls.methods.items():
        if name in ("__init__", "__new__", "__post_init__"):
            continue
        for f in lst:
            if not f.params:
                continue
            selfname = f.params[0]
            for n in walk_local(f.node):
                tg = []
                if isinstance(n, ast.Assign):
                    tg = n.targets
                elif isinstance(n, (ast.AugAssign, ast.AnnAssign)):
                    tg = [n.target]
                for t in tg:
                    for x in ast.walk(t):
                        if isinstance(x, ast.Attribute) and isinstance(x.ctx, ast.Store) and isinstance(x.value, ast.Name) and x.value.id == selfname:
                            out.add(x.attr)
    return out


def eq_fields(cls) -> Optional[Set[str]]:
    """Fields a class compares in __eq__ (None if identity semantics). NamedTuple: all fields."""
    if any(b.split(".")[-1] == "NamedTuple" for b in cls.bases):
        return {st.target.id for st in cls.node.body if isinstance(st, ast.AnnAssign) and isinstance(st.target, ast.Name)}
    m = cls.method("__eq__")
    if m is None:
        return None
    return {n.attr for n in ast.walk(m.node) if isinstance(n, ast.Attribute) and isinstance(n.value, ast.Name) and n.value.id == "self"}


def _global_is_constant(repo, module, name: str) -> bool:
    if name in module.functions or name in module.classes:
        return True
    imp = module.imports.get(name)
    if imp:
        if not imp[0].startswith("rich"):
            return True  # stdlib / third-party symbol
        tm = repo.modules.get(imp[0])
        if tm is None:
            return True
        if imp[1] is None or imp[1] in tm.functions or imp[1] in tm.classes:
            return True
        sub = repo.modules.get(imp[0] + "." + imp[1])
        if sub is not None:
            return True
        return _global_is_constant(repo, tm, imp[1])
    cnt = module.global_assign_count(name)
    if cnt != 1:
        return cnt == 0 and False
    # mutation through methods / subscript stores anywhere in its module
    for n in ast.walk(module.tree):
        if module.in_main_guard(n):
            continue
        if isinstance(n, ast.Call) and isinstance(n.func, ast.Attribute) and isinstance(n.func.value, ast.Name) and n.func.value.id == name:
            if n.func.attr in ("append", "extend", "insert", "pop", "clear", "update", "remove", "sort", "reverse", "setdefault", "add", "discard", "popitem"):
                return False
        if isinstance(n, ast.Subscript) and isinstance(n.ctx, (ast.Store, ast.Del)) and isinstance(n.value, ast.Name) and n.value.id == name:
            return False
        if isinstance(n, ast.Global) and name in n.names:
            return False
    return True


def _property_expansion(cls, attrs: Set[str]) -> Set[str]:
    """Expand property names to the underlying attributes they read (one level)."""
    out = set()
    for a in attrs:
        m = cls.method(a) if cls is not None else None
        if m is not None and m.is_property:
            out |= _self_attr_reads(m.node, m.params[0]) or {a}
        else:
            out.add(a)
    return out


def check_function(repo, fn: FuncInfo, descriptor_attrs: Optional[Dict[str, Set[str]]] = None) -> Tuple[List[Site], List[Problem]]:
    """Find the caches `fn` maintains and check each one."""
    sites: List[Site] = []
    problems: List[Problem] = []
    mod = fn.module
    cls = fn.cls
    selfname = fn.params[0] if cls is not None and fn.params and not fn.is_staticmethod and not fn.is_classmethod else None
    descriptor_attrs = descriptor_attrs or {}

    def self_ok_attrs() -> Tuple[str, Set[str]]:
        """(mode, attrs of self a cached value may depend on) for caches whose key includes self."""
        eqf = eq_fields(cls)
        if eqf is not None:
            return "value", eqf
        return "identity", set()

    def classify_roots(roots: Set[str], key_roots: Set[str], key_has_self: bool, site_desc: str, node, construct: str, slot: Optional[str] = None):
        re_attrs = reassigned_attrs(repo, cls) if cls is not None else set()
        for r in sorted(roots):
            if r.startswith("param:"):
                if r not in key_roots:
                    problems.append(Problem(fn, node, construct, f"{site_desc}: the cached value depends on parameter `{r[6:]}` which is not part of the cache key - a later call with a different `{r[6:]}` gets the stale value"))
            elif r.startswith("self."):
                a = r[5:]
                if slot is not None and a == slot:
                    continue
                expanded = set()
                if a in descriptor_attrs:
                    expanded = descriptor_attrs[a]
                else:
                    expanded = _property_expansion(cls, {a})
                for x in sorted(expanded):
                    if x == slot:
                        continue
                    if key_has_self == "value":
                        eqf = eq_fields(cls) or set()
                        if x not in eqf and x in re_attrs:
                            problems.append(Problem(fn, node, construct, f"{site_desc}: cached value depends on self.{x}, which is not compared by __eq__ (the cache key) and is reassigned after construction"))
                    elif key_has_self in ("identity", "slot") or key_has_self is True:
                        if x in re_attrs:
                            problems.append(Problem(fn, node, construct, f"{site_desc}: cached value depends on self.{x}, which is reassigned after construction while the key only identifies the object"))
                    else:
                        problems.append(Problem(fn, node, construct, f"{site_desc}: the cache is shared between instances but the cached value depends on self.{x}, which the key does not cover - another instance gets this instance's result"))
            elif r.startswith("global:"):
                g = r[7:]
                if not _global_is_constant(repo, mod, g):
                    problems.append(Problem(fn, node, construct, f"{site_desc}: cached value depends on mutable module state `{g}`"))
            elif r.startswith("impure:"):
                problems.append(Problem(fn, node, construct, f"{site_desc}: cached value depends on impure call `{r[7:]}()`"))

    # (1) lru_cache
    if any("lru_cache" in d for d in fn.decorators):
        rets = [r.value for r in walk_local(fn.node) if isinstance(r, ast.Return) and r.value is not None]
        roots: Set[str] = set()
        for rv in rets:
            roots |= dep_roots(fn, rv)
        # conditions guarding returns also matter: include all tests
        for n in walk_local(fn.node):
            if isinstance(n, (ast.If, ast.While, ast.IfExp)):
                roots |= dep_roots(fn, n.test)
        key_roots = {f"param:{p}" for p in fn.params}
        mode = self_ok_attrs()[0] if selfname else False
        sites.append(Site(fn, "lru_cache", f"lru_cache on {fn.fq}", fn.node))
        classify_roots(roots, key_roots, mode if selfname else True, f"lru_cache on {fn.qualname}", fn.node, f"@lru_cache {fn.qualname}")

    # (2) dict caches
    defaults = default_args(fn.node)
    local_assigned = {}
    for n in walk_local(fn.node):
        if isinstance(n, ast.Assign) and len(n.targets) == 1 and isinstance(n.targets[0], ast.Name):
            local_assigned.setdefault(n.targets[0].id, []).append(n.value)
        elif isinstance(n, ast.AnnAssign) and isinstance(n.target, ast.Name) and n.value is not None:
            local_assigned.setdefault(n.target.id, []).append(n.value)

    def cache_kind(expr) -> Optional[str]:
        """'shared' / 'instance' / None(local or unknown) for the container expression."""
        if isinstance(expr, ast.Name):
            nm = expr.id
            if nm in defaults and isinstance(defaults[nm], (ast.Call, ast.Dict)):
                return "shared"
            if nm in local_assigned and len(local_assigned[nm]) == 1:
                v = local_assigned[nm][0]
                if isinstance(v, (ast.Dict, ast.Call)) and not isinstance(v, ast.Attribute):
                    if isinstance(v, ast.Dict) or (isinstance(v, ast.Call) and norm(v.func) in ("dict", "OrderedDict", "LRUCache", "defaultdict")):
                        return None  # fresh per call
                return cache_kind(v)
            if nm in fn.params:
                return None
            # a variable of an enclosing function is created afresh for each call of that function
            outer = fn.parent
            while outer is not None:
                if nm in outer.params or any(isinstance(x, ast.Name) and x.id == nm and isinstance(x.ctx, ast.Store) for x in walk_local(outer.node)):
                    return None
                outer = outer.parent
            if nm not in local_assigned:
                try:
                    mod.global_assign(nm)
                    return "shared"
                except Exception:
                    return None
            return None
        if isinstance(expr, ast.Attribute) and isinstance(expr.value, ast.Name):
            if selfname and expr.value.id == selfname:
                # class attribute or instance attribute?
                if cls is not None and cls.class_assign(expr.attr) is not None:
                    init = cls.method("__init__")
                    inst = init is not None and any(is_attr_of(t, init.params[0], expr.attr) for n in walk_local(init.node) if isinstance(n, (ast.Assign, ast.AnnAssign)) for t in (n.targets if isinstance(n, ast.Assign) else [n.target]))
                    return "instance" if inst else "shared"
                return "instance"
            if cls is not None and expr.value.id in (cls.name, "cls") and cls.class_assign(expr.attr) is not None:
                return "shared"
        return None

    from .astutil import alias_map as _alias_map
    _aliases = _alias_map(fn.node)  # bound-method aliases: get_cached = cache.get
    stores = []
    local_stores = []
    for n in walk_local(fn.node):
        if not isinstance(n, ast.Assign):
            continue
        subs = [t for t in n.targets if isinstance(t, ast.Subscript) and not isinstance(t.slice, ast.Slice)]
        if len(subs) != 1 or not all(isinstance(t, (ast.Subscript, ast.Name)) for t in n.targets):
            continue
        tgt = subs[0]
        kind = cache_kind(tgt.value)
        if kind:
            stores.append((n, tgt.value, tgt.slice, n.value, kind))
        elif isinstance(tgt.value, ast.Name) and tgt.value.id in local_assigned and len(local_assigned[tgt.value.id]) == 1:
            v0 = local_assigned[tgt.value.id][0]
            if isinstance(v0, ast.Dict) and not v0.keys or (isinstance(v0, ast.Call) and norm(v0.func) in ("dict", "OrderedDict", "LRUCache") and not v0.args and not v0.keywords):
                local_stores.append((n, tgt.value, tgt.slice, n.value))
    # (2b) a dict created afresh in this call but filled and consulted inside a loop: a memo over the loop's iterations.
    # Every term of the cached value that varies with the loop (a loop variable or an attribute chain on one) must be a term of the key.
    parent_of = mod.parent_of
    for n, cont, key, val in local_stores:
        loops = []
        cur = parent_of.get(n)
        while cur is not None and cur is not fn.node:
            if isinstance(cur, (ast.For, ast.While)):
                loops.append(cur)
            cur = parent_of.get(cur)
        if not loops:
            continue
        reads = [x for x in walk_local(fn.node) if (
            (isinstance(x, ast.Call) and isinstance(x.func, ast.Attribute) and x.func.attr == "get" and norm(x.func.value) == norm(cont)) or
            (isinstance(x, ast.Call) and isinstance(x.func, ast.Name) and x.func.id in _aliases and norm(_aliases[x.func.id]) == norm(cont) + ".get") or
            (isinstance(x, ast.Subscript) and isinstance(x.ctx, ast.Load) and norm(x.value) == norm(cont)) or
            (isinstance(x, ast.Compare) and any(isinstance(o, (ast.In, ast.NotIn)) for o in x.ops) and norm(x.comparators[0]) == norm(cont)))]
        if not reads:
            continue
        # a memo, not just a table filled in a loop: the store happens on a MISS - it is control-dependent on a test of
        # a value read from the container (x = c.get(k) ... if x is None) or of a membership test (k not in c) / KeyError handler
        read_names = set()
        for rd in reads:
            par_ = parent_of.get(rd)
            if isinstance(par_, ast.Assign):
                for t_ in par_.targets:
                    if isinstance(t_, ast.Name):
                        read_names.add(t_.id)
        on_miss = False
        cur = parent_of.get(n)
        while cur is not None and cur is not fn.node:
            if isinstance(cur, ast.If):
                tnames = {y.id for y in ast.walk(cur.test) if isinstance(y, ast.Name)}
                if tnames & read_names or any(rd is y for rd in reads for y in ast.walk(cur.test)):
                    on_miss = True
            if isinstance(cur, ast.ExceptHandler) and cur.type is not None and "KeyError" in norm(cur.type):
                on_miss = True
            cur = parent_of.get(cur)
        if not on_miss:
            continue
        loop_vars: Set[str] = set()      # targets of the enclosing for-loops: what varies per iteration
        temp_defs: Dict[str, List[ast.AST]] = {}   # names assigned inside the loops: expanded through their definitions
        for lp in loops:
            if isinstance(lp, ast.For):
                loop_vars |= {x.id for x in ast.walk(lp.target) if isinstance(x, ast.Name)}
            for x in ast.walk(lp):
                if isinstance(x, (ast.Assign, ast.AnnAssign)) and getattr(x, "value", None) is not None:
                    for t in (x.targets if isinstance(x, ast.Assign) else [x.target]):
                        if isinstance(t, ast.Name):
                            temp_defs.setdefault(t.id, []).append(x.value)
                        elif isinstance(t, (ast.Tuple, ast.List)):
                            for y in t.elts:
                                if isinstance(y, ast.Name):
                                    temp_defs.setdefault(y.id, []).append(x.value)
                elif isinstance(x, ast.AugAssign) and isinstance(x.target, ast.Name):
                    temp_defs.setdefault(x.target.id, []).append(x.value)
                elif isinstance(x, ast.For) and x is not lp:
                    loop_vars |= {y.id for y in ast.walk(x.target) if isinstance(y, ast.Name)}
        loop_vars.discard(norm(cont))
        cont_name = norm(cont)

        def reads_cache(e) -> bool:
            return any(isinstance(y, ast.Name) and y.id == cont_name for y in ast.walk(e))
        from .astutil import inline as _inl, single_defs as _sdf
        sd = {k_: v_ for k_, v_ in _sdf(fn.node).items() if k_ != cont_name}
        kx, vx = _inl(key, sd), _inl(val, sd)

        def terms(e, depth=0, seen=None):
            seen = seen if seen is not None else set()
            out = set()

            def rec(x):
                if isinstance(x, ast.Attribute):
                    b = x
                    while isinstance(b, ast.Attribute):
                        b = b.value
                    if isinstance(b, ast.Name) and b.id in loop_vars:
                        out.add(norm(x))
                        return
                if isinstance(x, ast.Name) and isinstance(x.ctx, ast.Load):
                    if x.id in loop_vars:
                        out.add(x.id)
                        return
                    if x.id in temp_defs and x.id not in seen and depth < 4:
                        seen.add(x.id)
                        for d_ in temp_defs[x.id]:
                            if not reads_cache(d_):
                                out.update(terms(d_, depth + 1, seen))
                        return
                for c_ in ast.iter_child_nodes(x):
                    if isinstance(x, ast.Call) and c_ is x.func and isinstance(c_, ast.Attribute):
                        rec(c_.value)
                    else:
                        rec(c_)
            rec(e)
            return out
        kt, vt = terms(kx), terms(vx)
        desc = f"per-call cache `{norm(cont)}` filled inside a loop of {fn.qualname}"
        sites.append(Site(fn, "dict:local", desc, n))
        missing = sorted(t for t in vt if t not in kt and not any(t.startswith(k_ + ".") for k_ in kt if "." not in k_))
        if missing:
            problems.append(Problem(fn, n, short(n), f"{desc}: the cached value is computed from {missing}, which change from one iteration to the next but are not part of the key `{norm(key)}` - a later iteration with the same key gets the value made for an earlier one"))
        for rd in reads:
            rk = rd.args[0] if isinstance(rd, ast.Call) else (rd.slice if isinstance(rd, ast.Subscript) else rd.left)
            if norm(_inl(rk, sd)) != norm(kx):
                problems.append(Problem(fn, rd, short(rd), f"{desc}: looked up under `{norm(rk)}` but stored under `{norm(key)}`"))
    for n, cont, key, val, kind in stores:
        # only treat as a memo cache if the same container is also read in this function under a key
        reads = [x for x in walk_local(fn.node) if (
            (isinstance(x, ast.Call) and isinstance(x.func, ast.Attribute) and x.func.attr == "get" and norm(x.func.value) == norm(cont)) or
            (isinstance(x, ast.Call) and isinstance(x.func, ast.Name) and x.func.id in _aliases and norm(_aliases[x.func.id]) == norm(cont) + ".get") or
            (isinstance(x, ast.Subscript) and isinstance(x.ctx, ast.Load) and norm(x.value) == norm(cont)) or
            (isinstance(x, ast.Compare) and any(isinstance(o, (ast.In, ast.NotIn)) for o in x.ops) and norm(x.comparators[0]) == norm(cont)))]
        if not reads:
            continue
        excl = {id(n)}
        vroots = dep_roots(fn, val, excl)
        kroots = dep_roots(fn, key, excl)
        if selfname and any(isinstance(x, ast.Name) and x.id == selfname for x in ast.walk(key)):
            kroots.add("param:" + selfname)
        key_has_self = ("param:" + selfname) in kroots if selfname else False
        desc = f"{kind} cache `{norm(cont)}` in {fn.qualname}"
        sites.append(Site(fn, "dict:" + kind, desc, n))
        # a key that is a LOSSY function of a variable (x & mask, x % n, x // n, x >> k, x[:k], len(x), hash(x), x.lower() ...)
        # identifies a class of inputs; if the cached value is computed from the variable itself, every other member of
        # the class reads a value made for a different input
        from .astutil import inline as _inl2, single_defs as _sdf2
        sd2 = {k_: v_ for k_, v_ in _sdf2(fn.node).items()}
        kx2 = _inl2(key, sd2)
        # the value as stored: for `size = cache[slot] = f(x)` the value is f(x)
        vx2 = _inl2(val, {k_: v_ for k_, v_ in sd2.items() if not any(isinstance(y, ast.Subscript) and norm(y.value) == norm(cont) for y in ast.walk(v_))})
        lossy = []
        for y in ast.walk(kx2):
            if isinstance(y, ast.BinOp) and isinstance(y.op, (ast.BitAnd, ast.Mod, ast.FloorDiv, ast.RShift)):
                lossy.append(y)
            elif isinstance(y, ast.Subscript) and isinstance(y.slice, ast.Slice):
                lossy.append(y)
            elif isinstance(y, ast.Call) and ((isinstance(y.func, ast.Name) and y.func.id in ("len", "hash", "id", "abs", "round", "int")) or (isinstance(y.func, ast.Attribute) and y.func.attr in ("lower", "upper", "casefold", "strip", "lstrip", "rstrip"))):
                lossy.append(y)
        for L in lossy:
            lnames = {z.id for z in ast.walk(L) if isinstance(z, ast.Name) and isinstance(z.ctx, ast.Load)} - {"len", "hash", "id", "abs", "round", "int"}
            ltxt = norm(L)
            # occurrences of those names in the value outside a copy of L
            vtxt_nodes = [z for z in ast.walk(vx2) if isinstance(z, ast.Name) and z.id in lnames]
            if not vtxt_nodes:
                continue
            inside = set()
            for z in ast.walk(vx2):
                if norm(z) == ltxt:
                    inside |= {id(w) for w in ast.walk(z)}
            free = [z for z in vtxt_nodes if id(z) not in inside]
            # the full variable may also be part of the key elsewhere (a tuple key (x & m, x) is exact)
            exact = any(isinstance(z, ast.Name) and z.id in lnames and not any(id(z) in {id(w) for w in ast.walk(L2)} for L2 in lossy) for z in ast.walk(kx2))
            if free and not exact:
                problems.append(Problem(fn, n, short(n), f"{desc}: the key `{norm(kx2)}` keeps only `{ltxt}` of `{sorted(lnames)[0]}`, but the cached value is computed from `{sorted(lnames)[0]}` itself - all inputs that agree on `{ltxt}` share one entry and get the value of whichever came first"))
                break
        mode = ("identity" if kind == "instance" or key_has_self else False) if selfname else True
        classify_roots(vroots, kroots, mode, desc, n, short(n))
        for rd in reads:
            rk = rd.args[0] if isinstance(rd, ast.Call) else (rd.slice if isinstance(rd, ast.Subscript) else rd.left)
            if norm(rk) != norm(key):
                problems.append(Problem(fn, rd, short(rd), f"{desc}: looked up under `{norm(rk)}` but stored under `{norm(key)}`"))

    # (3) lazily filled slots:  if self._s is None [or self._s[0] != key_param ...]: ... self._s = V | (key_param, V)
    if selfname:
        def _is_none_test(t):
            return isinstance(t, ast.Compare) and len(t.ops) == 1 and isinstance(t.ops[0], ast.Is) and is_attr_of(t.left, selfname) \
                and isinstance(t.comparators[0], ast.Constant) and t.comparators[0].value is None

        for n in walk_local(fn.node):
            if not isinstance(n, ast.If):
                continue
            tests = n.test.values if isinstance(n.test, ast.BoolOp) and isinstance(n.test.op, ast.Or) else [n.test]
            if not tests or not _is_none_test(tests[0]):
                continue
            slot = tests[0].left.attr
            key_params: Dict[int, str] = {}  # tuple position -> parameter compared with self._slot[pos]
            for t in tests[1:]:
                if isinstance(t, ast.Compare) and len(t.ops) == 1 and isinstance(t.ops[0], ast.NotEq) and isinstance(t.left, ast.Subscript) \
                        and is_attr_of(t.left.value, selfname, slot) and isinstance(t.left.slice, ast.Constant) and isinstance(t.comparators[0], ast.Name):
                    key_params[t.left.slice.value] = t.comparators[0].id
            for b in n.body:
                for x in ast.walk(b):
                    if isinstance(x, ast.Assign) and any(is_attr_of(t, selfname, slot) for t in x.targets):
                        desc = f"lazy slot self.{slot} in {fn.qualname}"
                        sites.append(Site(fn, "slot", desc, x))
                        val = x.value
                        kroots: Set[str] = set()
                        if key_params:
                            if not (isinstance(val, ast.Tuple) and all(pos < len(val.elts) and isinstance(val.elts[pos], ast.Name) and val.elts[pos].id == p for pos, p in key_params.items())):
                                problems.append(Problem(fn, x, short(x), f"{desc}: the guard compares self.{slot}[i] with {sorted(key_params.values())} but the stored tuple does not carry those parameters at those positions"))
                                continue
                            kroots = {f"param:{p}" for p in key_params.values()}
                            rest = [e for i, e in enumerate(val.elts) if i not in key_params]
                            roots = set()
                            for e in rest:
                                roots |= dep_roots(fn, e, {id(x)})
                        else:
                            roots = dep_roots(fn, val, {id(x)})
                        classify_roots(roots, kroots, "slot", desc, x, short(x), slot=slot)
        # guard-return form:  if self._s is not None: return self._s  ...  self._s = V   (V returned afterwards)
        for n in walk_local(fn.node):
            if not (isinstance(n, ast.If) and not n.orelse and n.body and isinstance(n.body[-1], ast.Return)):
                continue
            t = n.test
            if not (isinstance(t, ast.Compare) and len(t.ops) == 1 and isinstance(t.ops[0], ast.IsNot) and is_attr_of(t.left, selfname) and isinstance(t.comparators[0], ast.Constant) and t.comparators[0].value is None):
                continue
            slot = t.left.attr
            if not (n.body[-1].value is not None and is_attr_of(n.body[-1].value, selfname, slot)):
                continue
            for x in walk_local(fn.node):
                if isinstance(x, ast.Assign) and any(is_attr_of(tt, selfname, slot) for tt in x.targets) and x.lineno > n.lineno and not (isinstance(x.value, ast.Constant) and x.value.value is None):
                    desc = f"lazy slot self.{slot} in {fn.qualname}"
                    sites.append(Site(fn, "slot", desc, x))
                    classify_roots(dep_roots(fn, x.value, {id(x)}), set(), "slot", desc, x, short(x), slot=slot)
    return sites, problems


def classify_slot_mode():  # documentation helper
    return "slot"
