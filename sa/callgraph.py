"""Resolved call graph (class-hierarchy style for protocol dispatch) and lock analysis."""
from __future__ import annotations

import ast
from typing import Dict, FrozenSet, Iterable, List, Optional, Set, Tuple

from .astutil import alias_map, chain, expand_alias
from .index import ClassInfo, FuncInfo, Repo, norm, walk_local
from .resolve import Types

PROTOCOL_METHODS = {"__rich_console__", "__rich__", "__rich_measure__", "process_renderables", "render", "__call__", "highlight"}
DISPATCH_ALL = {"__rich_console__", "__rich__", "__rich_measure__"}


class Edge:
    __slots__ = ("caller", "callee", "node", "kind")

    def __init__(self, caller: FuncInfo, callee: FuncInfo, node: ast.AST, kind: str):
        self.caller, self.callee, self.node, self.kind = caller, callee, node, kind

    def __repr__(self):
        return f"{self.caller.fq} -[{self.kind}@{getattr(self.node, 'lineno', 0)}]-> {self.callee.fq}"


class CallGraph:
    def __init__(self, repo: Repo, types: Optional[Types] = None, modules: Optional[Iterable[str]] = None):
        self.repo = repo
        self.types = types or Types(repo)
        self.out: Dict[str, List[Edge]] = {}
        self.inc: Dict[str, List[Edge]] = {}
        self.unresolved: Dict[str, List[Tuple[ast.AST, str]]] = {}
        self.funcs: Dict[str, FuncInfo] = {}
        self.n_calls = 0
        self.n_resolved = 0
        self._proto: Dict[str, List[FuncInfo]] = {}
        for f in repo.all_functions():
            self.funcs[f.fq] = f
            if f.cls is not None and f.name in DISPATCH_ALL:
                self._proto.setdefault(f.name, []).append(f)
        only = set(modules) if modules else None
        for f in list(self.funcs.values()):
            if only is not None and f.module.short not in only:
                continue
            self._scan(f)

    # ------------------------------------------------------------------
    def _add(self, caller, callee, node, kind):
        e = Edge(caller, callee, node, kind)
        self.out.setdefault(caller.fq, []).append(e)
        self.inc.setdefault(callee.fq, []).append(e)

    def _overrides(self, m: FuncInfo) -> List[FuncInfo]:
        if m.cls is None:
            return []
        out = []
        for sub in self.repo.subclasses_of(m.cls.name):
            mm = sub.method(m.name)
            if mm is not None and mm is not m:
                out.append(mm)
        return out

    def _scan(self, f: FuncInfo) -> None:
        T = self.types
        env = T.local_types(f)
        aliases = alias_map(f.node)
        mod = f.module
        for n in walk_local(f.node):
            if isinstance(n, (ast.With, ast.AsyncWith)):
                for it in n.items:
                    c = T.infer(f, it.context_expr, env)
                    if c is not None:
                        for nm, kind in (("__enter__", "with-enter"), ("__exit__", "with-exit")):
                            m = T.find_method(c, nm)
                            if m is not None:
                                self._add(f, m, n, kind)
            if isinstance(n, ast.Attribute) and isinstance(n.ctx, ast.Load):
                par = mod.parent_of.get(n)
                if isinstance(par, ast.Call) and par.func is n:
                    pass
                else:
                    c = T.infer(f, n.value, env)
                    if c is not None:
                        m = T.find_method(c, n.attr)
                        if m is not None and m.is_property:
                            self._add(f, m, n, "property")
                            for o in self._overrides(m):
                                self._add(f, o, n, "property")
            if isinstance(n, ast.Attribute) and isinstance(n.ctx, ast.Store):
                c = T.infer(f, n.value, env)
                if c is not None:
                    m = T.find_method(c, n.attr, "setter")
                    if m is not None:
                        self._add(f, m, n, "property-set")
            if not isinstance(n, ast.Call):
                continue
            self.n_calls += 1
            targets = self.resolve_call(f, n, env, aliases)
            if targets:
                self.n_resolved += 1
                for callee, kind in targets:
                    self._add(f, callee, n, kind)
            else:
                self.unresolved.setdefault(f.fq, []).append((n, norm(n.func)))

    def resolve_call(self, f: FuncInfo, call: ast.Call, env=None, aliases=None) -> List[Tuple[FuncInfo, str]]:
        T = self.types
        env = env if env is not None else T.local_types(f)
        aliases = aliases if aliases is not None else alias_map(f.node)
        mod = f.module
        fn = call.func
        if isinstance(fn, ast.Name) and fn.id in aliases:
            fn = expand_alias(fn, aliases)
        out: List[Tuple[FuncInfo, str]] = []
        if isinstance(fn, ast.Name):
            name = fn.id
            # nested local function
            q = f.qualname + ".<locals>." + name
            if q in mod.functions:
                return [(mod.functions[q], "call")]
            cur = f.parent
            while cur is not None:
                q = cur.qualname + ".<locals>." + name
                if q in mod.functions:
                    return [(mod.functions[q], "call")]
                cur = cur.parent
            c = T.cls(name, mod) if (name in mod.classes or name in mod.imports) else None
            if c is not None:
                for nm in ("__init__", "__post_init__"):
                    m = T.find_method(c, nm)
                    if m is not None:
                        out.append((m, "ctor"))
                return out or []
            g = self.repo.resolve_function(mod, name)
            if g is not None:
                return [(g, "call")]
            return []
        if isinstance(fn, ast.Attribute):
            mname = fn.attr
            base = fn.value
            # super().m()
            if isinstance(base, ast.Call) and isinstance(base.func, ast.Name) and base.func.id == "super" and f.cls is not None:
                for k in T.mro(f.cls)[1:]:
                    m = k.method(mname)
                    if m is not None:
                        return [(m, "call")]
                return []
            c = T.infer(f, base, env)
            if c is None and isinstance(base, ast.Name):
                t = env.get(base.id, "")
                if t.startswith("type:"):
                    c = T.cls(t[5:], mod)
                elif base.id in mod.classes or (base.id in mod.imports and T.cls(base.id, mod) is not None):
                    c = T.cls(base.id, mod)
            if c is not None:
                m = T.find_method(c, mname)
                if m is not None:
                    out.append((m, "call"))
                    for o in self._overrides(m):
                        out.append((o, "dispatch"))
                    # Thread.start() -> run in a new thread
                    return out
                if mname == "start" and self.is_thread(c):
                    r = T.find_method(c, "run")
                    if r is not None:
                        return [(r, "thread")]
                return []
            # module alias: errors.X(...)
            if isinstance(base, ast.Name) and base.id in mod.imports:
                imp = mod.imports[base.id]
                target = self.repo.modules.get(imp[0] + "." + imp[1]) if imp[1] else self.repo.modules.get(imp[0])
                if target is not None:
                    if mname in target.functions and target.functions[mname].cls is None:
                        return [(target.functions[mname], "call")]
                    if mname in target.classes:
                        m = T.find_method(target.classes[mname], "__init__")
                        return [(m, "ctor")] if m is not None else []
            if mname in DISPATCH_ALL:
                return [(m, "dispatch") for m in self._proto.get(mname, [])]
        return []

    def is_thread(self, c: ClassInfo) -> bool:
        for k in self.types.mro(c):
            if any(b.split(".")[-1] == "Thread" for b in k.bases):
                return True
        return False

    def callees(self, fq: str, kinds: Optional[Set[str]] = None) -> List[Edge]:
        return [e for e in self.out.get(fq, []) if kinds is None or e.kind in kinds]

    def reachable(self, roots: Iterable[str], skip_kinds: Set[str] = frozenset({"thread"})) -> Set[str]:
        seen = set(roots)
        stack = list(roots)
        while stack:
            a = stack.pop()
            for e in self.out.get(a, []):
                if e.kind in skip_kinds:
                    continue
                if e.callee.fq not in seen:
                    seen.add(e.callee.fq)
                    stack.append(e.callee.fq)
        return seen


LockId = Tuple[str, str]  # (class name, attribute)


class Locks:
    def __init__(self, cg: CallGraph):
        self.cg = cg
        self.repo = cg.repo
        self.types = cg.types
        self.lock_ids: Dict[LockId, str] = {}
        self._find_locks()
        self._lex: Dict[int, Dict[int, FrozenSet[LockId]]] = {}
        self._withs: Dict[int, List[Tuple[ast.With, List[LockId], FrozenSet[LockId]]]] = {}
        self._must: Optional[Dict[str, FrozenSet[LockId]]] = None
        self._may: Optional[Dict[str, FrozenSet[LockId]]] = None
        self._acq: Optional[Dict[str, FrozenSet[LockId]]] = None

    def _find_locks(self):
        for c in self.repo.all_classes():
            for lst in c.methods.values():
                for f in lst:
                    if not f.params:
                        continue
                    for n in walk_local(f.node):
                        if isinstance(n, (ast.Assign, ast.AnnAssign)):
                            tg = n.targets[0] if isinstance(n, ast.Assign) else n.target
                            v = n.value
                            if isinstance(tg, ast.Attribute) and isinstance(tg.value, ast.Name) and tg.value.id == f.params[0] and isinstance(v, ast.Call):
                                cn = norm(v.func).split(".")[-1]
                                if cn in ("RLock", "Lock"):
                                    self.lock_ids[(c.name, tg.attr)] = cn

    def lock_of(self, f: FuncInfo, expr) -> Optional[LockId]:
        if not isinstance(expr, ast.Attribute):
            # local alias `lock = self._lock`
            if isinstance(expr, ast.Name):
                al = alias_map(f.node)
                if expr.id in al:
                    return self.lock_of(f, al[expr.id])
            return None
        c = self.types.infer(f, expr.value)
        if c is None:
            return None
        for k in self.types.mro(c):
            if (k.name, expr.attr) in self.lock_ids:
                return (k.name, expr.attr)
        return None

    def lexical(self, f: FuncInfo) -> Dict[int, FrozenSet[LockId]]:
        """id(ast node) -> locks lexically held at that node inside f."""
        if id(f) in self._lex:
            return self._lex[id(f)]
        held: Dict[int, FrozenSet[LockId]] = {}
        withs: List[Tuple[ast.With, List[LockId], FrozenSet[LockId]]] = []

        def visit(node, cur: FrozenSet[LockId]):
            held[id(node)] = cur
            if isinstance(node, (ast.FunctionDef, ast.AsyncFunctionDef, ast.Lambda, ast.ClassDef)) and node is not f.node:
                return
            if isinstance(node, (ast.With, ast.AsyncWith)):
                acquired = []
                inner = cur
                for it in node.items:
                    held[id(it)] = inner
                    for x in ast.walk(it.context_expr):
                        held[id(x)] = inner
                    l = self.lock_of(f, it.context_expr)
                    if l is not None:
                        acquired.append(l)
                        withs.append((node, [l], inner))
                        inner = inner | {l}
                for b in node.body:
                    visit(b, inner)
                return
            for ch in ast.iter_child_nodes(node):
                visit(ch, cur)

        for st in f.node.body:
            visit(st, frozenset())
        self._lex[id(f)] = held
        self._withs[id(f)] = withs
        return held

    def lock_withs(self, f: FuncInfo):
        self.lexical(f)
        return self._withs[id(f)]

    def held_lex(self, f: FuncInfo, node) -> FrozenSet[LockId]:
        return self.lexical(f).get(id(node), frozenset())

    SAME_THREAD = {"call", "dispatch", "with-enter", "with-exit", "property", "property-set", "ctor"}

    def must_held_on_entry(self, exclude_ctor_callers: bool = True) -> Dict[str, FrozenSet[LockId]]:
        if self._must is not None:
            return self._must
        ALL = frozenset(self.lock_ids)
        H: Dict[str, FrozenSet[LockId]] = {}

        def is_api(f: FuncInfo) -> bool:
            """callable from outside the package with nothing held: a public function / method (or a protocol dunder) that is not
            nested in another function and does not belong to a private class - whatever its callers INSIDE the package hold"""
            if f.parent is not None:
                return False
            if f.cls is not None and f.cls.name.startswith("_"):
                return False
            nm = f.name
            return not nm.startswith("_") or (nm.startswith("__") and nm.endswith("__") and nm not in ("__init__", "__post_init__"))
        api = {fq for fq, f in self.cg.funcs.items() if is_api(f)}
        for fq, f in self.cg.funcs.items():
            inc = [e for e in self.cg.inc.get(fq, []) if e.kind in self.SAME_THREAD and not (exclude_ctor_callers and e.caller.name in ("__init__", "__post_init__"))]
            H[fq] = ALL if inc and fq not in api else frozenset()
        changed = True
        while changed:
            changed = False
            for fq, f in self.cg.funcs.items():
                if fq in api:
                    continue
                inc = [e for e in self.cg.inc.get(fq, []) if e.kind in self.SAME_THREAD and not (exclude_ctor_callers and e.caller.name in ("__init__", "__post_init__"))]
                if not inc:
                    continue
                new = None
                for e in inc:
                    s = H.get(e.caller.fq, frozenset()) | self.held_lex(e.caller, e.node)
                    new = s if new is None else (new & s)
                if new != H[fq]:
                    H[fq] = new
                    changed = True
        self._must = H
        return H

    def may_held_on_entry(self) -> Dict[str, FrozenSet[LockId]]:
        if self._may is not None:
            return self._may
        H: Dict[str, FrozenSet[LockId]] = {fq: frozenset() for fq in self.cg.funcs}
        changed = True
        while changed:
            changed = False
            for fq in self.cg.funcs:
                new = H[fq]
                for e in self.cg.inc.get(fq, []):
                    if e.kind not in self.SAME_THREAD:
                        continue
                    new = new | H.get(e.caller.fq, frozenset()) | self.held_lex(e.caller, e.node)
                if new != H[fq]:
                    H[fq] = new
                    changed = True
        self._may = H
        return H

    def acquires(self) -> Dict[str, FrozenSet[LockId]]:
        if self._acq is not None:
            return self._acq
        A: Dict[str, FrozenSet[LockId]] = {}
        for fq, f in self.cg.funcs.items():
            A[fq] = frozenset(l for _w, ls, _h in self.lock_withs(f) for l in ls)
        changed = True
        while changed:
            changed = False
            for fq in self.cg.funcs:
                new = A[fq]
                for e in self.cg.out.get(fq, []):
                    if e.kind in self.SAME_THREAD:
                        new = new | A.get(e.callee.fq, frozenset())
                if new != A[fq]:
                    A[fq] = new
                    changed = True
        self._acq = A
        return A

    def order_edges(self) -> Dict[Tuple[LockId, LockId], List[str]]:
        """held -> acquired edges with a witness description each."""
        may = self.may_held_on_entry()
        acq = self.acquires()
        edges: Dict[Tuple[LockId, LockId], List[str]] = {}
        for fq, f in self.cg.funcs.items():
            for w, ls, held_before in self.lock_withs(f):
                for l in ls:
                    for h in (may[fq] | held_before):
                        if h != l:
                            edges.setdefault((h, l), []).append(f"{f.fq} ({f.module.relpath}:{w.lineno}) takes {l[0]}.{l[1]} while {h[0]}.{h[1]} may be held")
            for e in self.cg.out.get(fq, []):
                if e.kind not in self.SAME_THREAD:
                    continue
                held = may[fq] | self.held_lex(f, e.node)
                if not held:
                    continue
                for l in acq.get(e.callee.fq, frozenset()):
                    for h in held:
                        if h != l:
                            edges.setdefault((h, l), []).append(f"{f.fq} ({f.module.relpath}:{getattr(e.node, 'lineno', 0)}) calls {e.callee.fq} (acquires {l[0]}.{l[1]}) while {h[0]}.{h[1]} may be held")
        return edges
