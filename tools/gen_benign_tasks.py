#!/venv/bin/python
"""gen_benign_tasks.py <round-dir> <first-n> <count>: task files for a round of behaviour-preserving-refactoring sub-agents.
Each file holds the generic instructions, two properties (text only), one-line summaries of the refactorings already in
/verif/benign and a FOCUS list of library functions (names from the library, nothing of the checker).  Maintenance tool."""
import json
import os
import sys

out, first, count = sys.argv[1], int(sys.argv[2]), int(sys.argv[3])
os.makedirs(out, exist_ok=True)
props = [json.loads(l) for l in open("/verif/properties.jsonl")]
notes = json.load(open("/verif/benign/notes.json"))
done = {}
for n in notes:
    done.setdefault(n["property"], []).append(f"[{n.get('kind','')[:80]}] {n.get('summary','')[:220]}".replace("\n", " "))
FOCUS = {
    "C01": "ProgressBar.__rich_console__ (progress_bar.py), Columns.__rich_console__ (columns.py), Lines.justify (containers.py), Text.truncate / Text.align (text.py), Bar.__rich_console__, Table._calculate_column_widths (the reduction stage)",
    "C02": "divide_line / words (_wrap.py), Lines.justify (containers.py), Text.wrap, Text.pad_left / pad / pad_right, chop_cells (cells.py), Text.pad_right",
    "C03": "Console._render_buffer, Segment.remove_color / strip_styles (segment.py), Color.downgrade / get_ansi_codes (color.py), Style._make_ansi_codes, Style.without_color",
    "C04": "markup._parse, markup.render (the tag stack handling), markup.escape, Style.normalize",
    "C05": "Text.__getitem__, Text.append / append_text, Text.stylize, Text.pad / pad_left, Text.right_crop, strip_control_codes (control.py), Text.with_indent_guides",
    "C06": "Style.__add__, Style.__eq__ / __hash__, Style.normalize, Style.parse, Style.__str__, Style.update_link / copy / without_color, Color.parse (color.py; the rgb() branch and how the colour is named)",
    "C07": "Table._calculate_column_widths, Table._measure_column, Table._render (the separator / leading rows and the per-cell options), Table._collapse_widths, ratio_distribute / ratio_reduce (_ratio.py), ratio_distribute (the per-slot minimum), Table._render (where new lines are emitted)",
    "C08": "ProgressBar.__rich_console__ and _render_pulse, Panel.__rich_console__, Padding.__rich_console__, Align.__rich_console__, Segment.adjust_line_length / set_shape",
    "C09": "Pretty.__rich_measure__ (pretty.py), Text.__rich_measure__, Table.__rich_measure__, Measurement.get (measure.py), Padding / Panel / Constrain __rich_measure__, Bar.__rich_measure__ / __rich_console__",
    "C10": "Live.start / stop / update / refresh / process_renderables (live.py), Progress.start / stop / update (progress.py), Console.print / Console.log (console.py, the part before rendering), FileProxy.write / flush (file_proxy.py), LiveRender, Live.stop / Progress.stop (the final new line)",
    "C11": "Console._check_buffer / _render_buffer / end_capture / capture, Live.stop / start (the refresh-thread handling), Progress.stop, _RefreshThread, Live.refresh / Progress.refresh",
    "C12": "Progress.update / advance / reset / add_task / track, Task.percentage / speed / time_remaining / finished, _TrackThread",
    "C13": "cells._get_codepoint_cell_size (the table search), get_character_cell_size, cell_len, set_cell_size, chop_cells, Segment.split_lines / split_and_crop_lines / adjust_line_length",
    "C14": "AnsiDecoder.decode_line (the SGR parameter parsing), Color.parse, Style.parse, Columns.__rich_console__ (column count search), Table._calculate_column_widths, Pretty.__rich_measure__, Text.__rich_measure__, AnsiDecoder.decode_line (extended colours)",
    "C15": "Console.export_text / export_html / save_text, Console._check_buffer / _render_buffer, Console.capture / end_capture, Segment.simplify / filter_control, Console.save_html / save_text, Segment.apply_style / strip_links",
    "C16": "pretty.traverse (incl. the mapping / sequence branches and to_repr), Node.iter_tokens / check_length / render, _Line.expand / check_length, the _BRACES table, traverse (the max_length / islice handling)",
    "C17": "Syntax.__rich_console__ (the line splitting / range slicing / numbering part), Syntax.highlight (tokens_to_spans), Traceback.extract (the walk_tb loop), Traceback._render_stack, Syntax.__rich_console__ (the indent-guides pass), Traceback._guess_lexer",
    "C18": "Palette.match (palette.py, the distance function), Color.downgrade, Color.get_ansi_codes, Color.from_ansi / from_rgb / parse",
    "C19": "AnsiDecoder.decode / decode_line, _ansi_tokenize, FileProxy.write / flush, Live._enable_redirect_io / Progress._enable_redirect_io and their _disable counterparts, AnsiDecoder.decode_line (carriage returns, empty SGR), re_ansi",
    "C20": "Theme.from_file / read / config (theme.py), ThemeStack.push_theme / pop_theme, Console.get_style / push_theme / pop_theme / use_theme, ThemeContext",
}
HEAD = """You are helping to evaluate a verification tool for the Python library `rich` (willmcgugan/rich, version 9.10). The tool decides a set of semantic properties of the library from its source. Your job is the NEGATIVE control: for each of the two properties below, produce {COUNT} different BEHAVIOUR-PRESERVING REFACTORINGS ({TOTAL} in total) of the code that the property is anchored in. A good tool must stay silent on every one of them.

Requirements for every refactoring:
 * It changes the code that implements the property's mechanism (the anchor files / functions), not comments, docstrings or unrelated code. 5-40 changed lines; a maintainer could plausibly commit it as a clean-up, a readability change or a micro-optimisation.
 * Behaviour is IDENTICAL for EVERY input, history and schedule - not just for the tests. Same return values, same emitted segments, same exceptions, same locking. No new public API, no changed signatures of public functions. If in doubt, do not use it. At most one of them may be a trivial rename / reorder of independent statements; the others must restructure control flow or data flow (guard clauses vs nesting, helper extraction with parameters, loop <-> comprehension, introducing or removing temporaries, merging or splitting branches, equivalent arithmetic, equivalent stdlib idioms, while <-> for, early return vs else, conditional expression <-> if statement, moving an invariant computation).
 * The package still imports and the existing test suite gives EXACTLY the same result as the clean tree: `cd <worktree> && /venv/bin/python -m pytest -q -p no:cacheprovider --timeout=900 tests 2>&1 | tail -3` prints `11 failed, 430 passed, 1 skipped` with the same 11 failing tests.
 * You must convince yourself of equivalence: write a differential script that imports the patched and the clean package (e.g. run the same randomised workload under both trees in two subprocesses and compare the printed results; cwd decides which `rich` is imported when the script starts with `import os, sys; sys.path.insert(0, os.getcwd())`) and compares at least several hundred inputs aimed at the changed code, including boundary inputs (empty, zero, negative, wide characters, nested). Keep the script out of the patch.

You work ONLY in your own scratch git worktree (given below; a checkout of the library; `rich/` is the package, `tests/` the tests) and write output ONLY to <outdir>/<PROPERTY_ID>/ . Never read, list or touch /repo, /verif or any other directory. Python: /venv/bin/python.

For property P and number n (n = {NUMS}): make the edit, run the tests, run your differential check, save `git diff` to <outdir>/P/n.patch.diff, then `git checkout -- .`. Verify every saved patch with `git apply --check` on the clean worktree and leave the worktree clean. Finally write <outdir>/notes_<agent id>.json = a JSON list with one entry per refactoring: {{"property": "Cxx", "n": <n>, "kind": "<what sort of restructuring>", "summary": "<file, function, what was rewritten into what>", "why_equivalent": "<the argument, and what the differential run covered>"}}. Reply with a short summary.

"""
HEAD = HEAD.replace("{COUNT}", ["", "ONE", "TWO", "THREE", "FOUR"][count]).replace("{TOTAL}", str(2 * count)).replace("{NUMS}", ",".join(str(first + i) for i in range(count))).replace("{{", "{").replace("}}", "}")
for k in range(10):
    a, b = props[k], props[(k + int(os.environ.get('BENIGN_SHIFT', '5'))) % 10 + 10]
    txt = HEAD + f"Your worktree: /tmp/wt/R{k + 1:02d}\nYour output directory (outdir): {out}\nYour agent id: {k + 1:02d}\n\n"
    txt += "IMPORTANT - variety: earlier rounds already produced the refactorings listed under 'ALREADY DONE' for each property. Do NOT repeat those. This round, at least two of your refactorings per property must restructure functions named under FOCUS (the code that changed most recently); choose substantial restructurings of their control flow / data flow (guard clauses vs nesting, helper extraction with parameters, loop <-> comprehension, temporaries, merging or splitting branches, equivalent arithmetic, equivalent stdlib idioms) that keep behaviour identical for EVERY input.\n"
    for p in (a, b):
        an = p["anchors"]
        txt += f"\n=== PROPERTY {p['id']}: {p['title']}\nSTATEMENT: {p['statement']}\nQUANTIFIER: {p['quantifier']['text']}\nANCHORS: files={an['files']}; mechanism={json.dumps(an['mechanism'])}\nFOCUS: {FOCUS[p['id']]}\nALREADY DONE (do not repeat):\n"
        for s in done.get(p["id"], []):
            txt += f"- {s}\n"
    open(f"{out}/full_{k + 1:02d}.txt", "w").write(txt)
    for p in (a, b):
        os.makedirs(f"{out}/{p['id']}", exist_ok=True)
print("wrote 10 task files to", out)
