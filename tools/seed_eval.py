#!/venv/bin/python
"""Evaluate seeded changes: for each /tmp/seed_out/<Cxx>/<X>.patch.diff
 - scratch worktree of /repo HEAD under /tmp/wt_eval (removed afterwards)
 - demo passes clean, fails patched; baseline tests: the 430 stable tests still pass patched
 - run every property check (RICH_REPO=<worktree>, no evidence written) and record which fire
Writes /verif/seeded/<Cxx>-<X>/{patch.diff,demo.py,meta.json}  (maintenance tool, not a check)."""
import json
import os
import shutil
import subprocess
import sys

VERIF = "/verif"
OUT = "/tmp/seed_out"
WT = os.environ.get("SEED_WT", "/tmp/wt_eval")
PY = "/venv/bin/python"
BASE = json.load(open("/root/.vp/BASELINE.json"))["stable_pass"]


def sh(cmd, cwd=None, timeout=900, env=None):
    e = dict(os.environ)
    if env:
        e.update(env)
    p = subprocess.run(cmd, shell=True, cwd=cwd, capture_output=True, text=True, timeout=timeout, env=e)
    return p.returncode, p.stdout + p.stderr


def run_tests(wt):
    rc, out = sh(f"{PY} -m pytest -q -p no:cacheprovider --timeout=900 tests --junitxml={WT}_junit.xml", cwd=wt)
    import xml.etree.ElementTree as ET
    passed = set()
    try:
        for tc in ET.parse(f"{WT}_junit.xml").getroot().iter("testcase"):
            if not list(tc):
                passed.add(f"{tc.get('classname').split('.')[-1]}::{tc.get('name')}")
    except Exception as ex:
        return None, str(ex)
    missing = [t for t in BASE if t.split('.', 1)[-1] not in passed]
    return missing, out[-300:]


def run_checks(wt, props):
    res = {}
    for p in props:
        rc, out = sh(f"{PY} -m sa.check {p}", cwd=VERIF, env={"RICH_REPO": wt, "SA_NO_EVIDENCE": "1"}, timeout=300)
        lines = [l.strip() for l in out.splitlines() if (l.strip().startswith("R") and " in " in l and " instances - " not in l) or l.startswith("ANALYSIS-ERROR")]
        res[p] = {"exit": rc, "findings": lines[:6]}
    return res


def main(argv):
    props_all = [l.split('"id": "')[1][:3] for l in open(f"{VERIF}/properties.jsonl")]
    claimed = [c["property_id"] for c in json.load(open(f"{VERIF}/MANIFEST.json"))["checks"]]
    outs = [OUT, OUT + "2"]
    if argv and argv[0].startswith("--dir="):
        outs = [argv[0].split("=", 1)[1]]
        argv = argv[1:]
    todo = []
    for o in outs:
        if os.path.isdir(o):
            for pid in sorted(os.listdir(o)):
                if not argv or pid in argv:
                    todo.append((o, pid))
    summary = []
    for o, pid in todo:
        d = os.path.join(o, pid)
        if not os.path.isdir(d):
            continue
        notes = {}
        try:
            notes = json.load(open(os.path.join(d, "notes.json")))
        except Exception:
            pass
        for X in ("A", "B", "C", "D", "E", "F", "G", "H", "I", "J", "K", "L", "M", "N", "O", "P"):
            patch = os.path.join(d, f"{X}.patch.diff")
            alt = os.path.join(VERIF, "seeded", f"{pid}-{X}", "patch.diff")
            demo = os.path.join(d, f"{X}_demo.py")
            if not os.path.exists(patch) or not os.path.exists(demo):
                continue
            sid = f"{pid}-{X}"
            if os.path.exists(alt) and os.path.exists(os.path.join(VERIF, "seeded", sid, "REBASED")):
                patch = alt
            sh(f"git -C /repo worktree remove --force {WT}")
            shutil.rmtree(WT, ignore_errors=True)
            rc, out = sh(f"git -C /repo worktree add -q --detach {WT} HEAD")
            if rc:
                print(sid, "worktree failed", out)
                continue
            meta = {"id": sid, "property": pid, "notes": notes.get(X, {})}
            rc_clean, out_clean = sh(f"{PY} {demo}", cwd=WT, timeout=300)
            rc, out = sh(f"git apply {patch}", cwd=WT)
            if rc:
                meta["status"] = "patch does not apply to current HEAD (needs rebase)"
                meta["apply_error"] = out[-300:]
                print(sid, "APPLY FAILED")
                summary.append((sid, "apply-failed", "", ""))
                _save(sid, patch, demo, meta)
                continue
            rc_pat, out_pat = sh(f"{PY} {demo}", cwd=WT, timeout=300)
            missing, tail = run_tests(WT)
            checks = run_checks(WT, claimed)
            fired = {p: r for p, r in checks.items() if r["exit"] == 1}
            errs = {p: r for p, r in checks.items() if r["exit"] == 2}
            meta.update({
                "demo_clean_exit": rc_clean, "demo_patched_exit": rc_pat,
                "demo_patched_tail": out_pat[-400:],
                "baseline_tests_missing_with_patch": missing,
                "confirmed": rc_clean == 0 and rc_pat != 0 and missing == [],
                "checks_fired": {p: r["findings"] for p, r in fired.items()},
                "checks_analysis_error": {p: r["findings"] for p, r in errs.items()},
                "detected_by_own_property_check": pid in fired,
                "ran": f"git worktree of /repo HEAD; python {X}_demo.py clean/patched; pytest tests (junit vs 430 stable); RICH_REPO=<wt> python -m sa.check <all claimed>",
            })
            _save(sid, patch, demo, meta)
            status = "OK" if meta["confirmed"] else f"UNCONFIRMED(clean={rc_clean},patched={rc_pat},missing={len(missing) if missing is not None else '?'})"
            print(sid, status, "fired:", sorted(fired), "errors:", sorted(errs))
            summary.append((sid, status, sorted(fired), sorted(errs)))
            sh(f"git -C /repo worktree remove --force {WT}")
            shutil.rmtree(WT, ignore_errors=True)
    sh(f"git -C /repo worktree remove --force {WT}")
    shutil.rmtree(WT, ignore_errors=True)
    print(json.dumps(summary, indent=1))


def _save(sid, patch, demo, meta):
    dst = os.path.join(VERIF, "seeded", sid)
    os.makedirs(dst, exist_ok=True)
    if os.path.abspath(patch) != os.path.abspath(os.path.join(dst, "patch.diff")):
        shutil.copy(patch, os.path.join(dst, "patch.diff"))
    shutil.copy(demo, os.path.join(dst, "demo.py"))
    json.dump(meta, open(os.path.join(dst, "meta.json"), "w"), indent=1)


if __name__ == "__main__":
    main(sys.argv[1:])
