"""Path normal form of (generator) functions.

A function body is turned into the set of its control-flow paths; every path is a tuple of events

    ("cond", <canonical test text>, True|False)      a branch taken
    ("yield", <expr text>) / ("yieldfrom", <expr text>)
    ("do", <call text>)                               an expression statement (effect)
    ("set", <target text>, <value text>)              a store to an attribute / subscript / multiply-bound name
    ("loop", <target text>, <iter text>, frozenset(<body paths>))
    ("return", <expr text or None>) / ("raise", <text>) / ("break",) / ("continue",)

The form is insensitive to how the branching is written: `if c: A else: B`, `if c: A; return` + B, `if not c: ... `,
`if c: continue` inside loops, nested vs. combined `and` tests and single-assignment temporaries all produce the same
path set.  Rules state their obligation over this set instead of over the syntax tree.
Unsupported statements (try, while, with, match) raise Unsupported: the caller reports "cannot decide".
"""
from __future__ import annotations

import ast
from typing import Dict, FrozenSet, List, Optional, Tuple

from .astutil import inline, single_defs
from .index import norm


class Unsupported(Exception):
    pass


Event = tuple
Path = Tuple[Event, ...]


def canon_test(t: ast.AST, truth: bool) -> List[Tuple[str, bool]]:
    """List of (atom text, truth) facts equivalent to `t is truth` where that is a conjunction; otherwise one composite fact."""
    if isinstance(t, ast.UnaryOp) and isinstance(t.op, ast.Not):
        return canon_test(t.operand, not truth)
    if isinstance(t, ast.BoolOp):
        if isinstance(t.op, ast.And) and truth:
            out = []
            for v in t.values:
                out += canon_test(v, True)
            return out
        if isinstance(t.op, ast.Or) and not truth:
            out = []
            for v in t.values:
                out += canon_test(v, False)
            return out
        return [(_canon_text(t), truth)]
    if isinstance(t, ast.Compare) and len(t.ops) == 1:
        op = t.ops[0]
        # parity / emptiness idioms are truthiness tests:  x % 2 == 1, x % 2 != 0, len(x) > 0, len(x) != 0, x != ''
        l, r = t.left, t.comparators[0]
        if isinstance(r, ast.Constant) and not isinstance(r.value, bool):
            mod2 = isinstance(l, ast.BinOp) and isinstance(l.op, ast.Mod) and isinstance(l.right, ast.Constant) and l.right.value == 2
            is_len = isinstance(l, ast.Call) and norm(l.func) == "len" and len(l.args) == 1
            if mod2 and isinstance(op, ast.Eq) and r.value == 1 or (mod2 or is_len) and isinstance(op, ast.NotEq) and r.value == 0 or is_len and isinstance(op, ast.Gt) and r.value == 0:
                return canon_test(l.args[0] if is_len else l, truth)
            if (mod2 or is_len) and isinstance(op, ast.Eq) and r.value == 0:
                return canon_test(l.args[0] if is_len else l, not truth)
            if isinstance(op, ast.NotEq) and r.value == "":
                return canon_test(l, truth)
            if isinstance(op, ast.Eq) and r.value == "":
                return canon_test(l, not truth)
        flip = {ast.IsNot: ast.Is, ast.NotEq: ast.Eq, ast.NotIn: ast.In}
        for neg, pos in flip.items():
            if isinstance(op, neg):
                t2 = ast.Compare(left=t.left, ops=[pos()], comparators=t.comparators)
                return [(norm(t2), not truth)]
        # a >= b  ==  not a < b ; a <= b == not a > b   (total orders on the ints / floats these rules meet)
        if isinstance(op, ast.GtE):
            return [(norm(ast.Compare(left=t.left, ops=[ast.Lt()], comparators=t.comparators)), not truth)]
        if isinstance(op, ast.LtE):
            return [(norm(ast.Compare(left=t.left, ops=[ast.Gt()], comparators=t.comparators)), not truth)]
    return [(_canon_text(t), truth)]


def _canon_text(t: ast.AST) -> str:
    return norm(t)


class Enumerator:
    def __init__(self, fn_node, inline_temps: bool = True, max_paths: int = 4000):
        self.fn = fn_node
        self.defs: Dict[str, ast.AST] = single_defs(fn_node) if inline_temps else {}
        # only pure temporaries are inlined (no calls with effects we would duplicate or lose)
        self.defs = {k: v for k, v in self.defs.items() if not any(isinstance(x, (ast.Yield, ast.YieldFrom, ast.Await, ast.NamedExpr)) for x in ast.walk(v))}
        # names whose object is mutated in place later (x.append(..), x[i] = ..) are real variables, not temporaries
        mutated = set()
        for x in ast.walk(fn_node):
            if isinstance(x, ast.Call) and isinstance(x.func, ast.Attribute) and isinstance(x.func.value, ast.Name) and x.func.attr in ("append", "extend", "insert", "pop", "remove", "clear", "update", "add", "discard", "sort", "reverse", "setdefault", "popleft", "appendleft"):
                mutated.add(x.func.value.id)
            if isinstance(x, (ast.Subscript, ast.Attribute)) and isinstance(x.ctx, (ast.Store, ast.Del)) and isinstance(x.value, ast.Name):
                mutated.add(x.value.id)
        self.defs = {k: v for k, v in self.defs.items() if not (k in mutated and isinstance(v, (ast.List, ast.Dict, ast.Set, ast.ListComp, ast.DictComp, ast.SetComp, ast.Call)))}
        self.inlined = set()
        self.max_paths = max_paths

    def tx(self, e: Optional[ast.AST]) -> Optional[str]:
        if e is None:
            return None
        return norm(inline(e, self.defs))

    def forks(self, e: Optional[ast.AST], limit: int = 3) -> List[Tuple[List[Event], Optional[str]]]:
        """Conditional expressions inside an emitted expression become branch facts: `f(a if c else b)` is the two
        paths c: f(a) / not c: f(b) - the same normal form as an if statement around the emission."""
        import copy
        if e is None:
            return [([], None)]
        e = inline(e, self.defs)
        out: List[Tuple[List[Event], Optional[str]]] = []

        def first_ifexp(node):
            # outermost, leftmost conditional expression that is not inside a lambda / comprehension
            stack = [node]
            while stack:
                x = stack.pop(0)
                if isinstance(x, ast.IfExp):
                    return x
                if isinstance(x, (ast.Lambda, ast.ListComp, ast.SetComp, ast.DictComp, ast.GeneratorExp)):
                    continue
                stack = list(ast.iter_child_nodes(x)) + stack
            return None

        def rec(node, facts, depth):
            ie = first_ifexp(node) if depth < limit else None
            if ie is None:
                out.append((facts, norm(node)))
                return
            for truth, pick in ((True, ie.body), (False, ie.orelse)):

                class R(ast.NodeTransformer):
                    def visit_IfExp(self, n):
                        if n is target[0]:
                            return copy.deepcopy(pick)
                        return self.generic_visit(n)
                node2 = copy.deepcopy(node)
                # locate the corresponding IfExp in the copy (same position in a walk)
                idx = [i for i, x in enumerate(ast.walk(node)) if x is ie][0]
                target = [list(ast.walk(node2))[idx]]
                node3 = R().visit(node2)
                rec(node3, facts + [("cond", a, v) for a, v in canon_test(ie.test, truth)], depth + 1)
        rec(e, [], 0)
        return out

    def run(self) -> FrozenSet[Path]:
        body = list(self.fn.body)
        if body and isinstance(body[0], ast.Expr) and isinstance(body[0].value, ast.Constant) and isinstance(body[0].value.value, str):
            body = body[1:]
        out = set()
        for ev, _term in self.block(body):
            out.add(tuple(ev))
        return frozenset(out)

    # returns list of (events, terminator) ; terminator in None|"return"|"break"|"continue"|"raise"
    def block(self, stmts) -> List[Tuple[List[Event], Optional[str]]]:
        paths: List[Tuple[List[Event], Optional[str]]] = [([], None)]
        for st in stmts:
            new: List[Tuple[List[Event], Optional[str]]] = []
            live = [(ev, t) for ev, t in paths if t is None]
            done = [(ev, t) for ev, t in paths if t is not None]
            if not live:
                break
            for ev, _ in live:
                for ev2, t2 in self.stmt(st):
                    new.append((ev + ev2, t2))
            paths = done + new
            if len(paths) > self.max_paths:
                raise Unsupported(f"more than {self.max_paths} paths")
        return paths

    def stmt(self, st) -> List[Tuple[List[Event], Optional[str]]]:
        if isinstance(st, ast.Expr):
            v = st.value
            if isinstance(v, ast.Yield):
                return [(facts + [("yield", t)], None) for facts, t in self.forks(v.value)]
            if isinstance(v, ast.YieldFrom):
                return [(facts + [("yieldfrom", t)], None) for facts, t in self.forks(v.value)]
            if isinstance(v, ast.Constant):
                return [([], None)]
            return [(facts + [("do", t)], None) for facts, t in self.forks(v)]
        if isinstance(st, (ast.Assign, ast.AnnAssign)):
            targets = st.targets if isinstance(st, ast.Assign) else [st.target]
            if st.value is None:
                return [([], None)]
            ys = [x for x in ast.walk(st.value) if isinstance(x, (ast.Yield, ast.YieldFrom))]
            if ys:
                raise Unsupported("yield inside an assignment")
            # a, b = x, y  (same arity, plain names, no name of the left side read on the right) is two assignments
            if len(targets) == 1 and isinstance(targets[0], ast.Tuple) and isinstance(st.value, ast.Tuple) and len(targets[0].elts) == len(st.value.elts) \
                    and all(isinstance(e, ast.Name) for e in targets[0].elts):
                lhs = {e.id for e in targets[0].elts}
                if not any(isinstance(n, ast.Name) and n.id in lhs for n in ast.walk(st.value)):
                    evs = []
                    for t_, v_ in zip(targets[0].elts, st.value.elts):
                        if t_.id in self.defs:
                            continue
                        evs.append(("set", t_.id, self.tx(v_)))
                    return [(evs, None)]
            live = []
            for t in targets:
                if isinstance(t, ast.Name) and t.id in self.defs:
                    continue  # inlined temporary
                if isinstance(t, ast.Tuple) and all(isinstance(e, ast.Name) and e.id in self.defs for e in t.elts):
                    continue  # every unpacked name has its own closed form
                live.append(norm(t))
            if not live:
                return [([], None)]
            # a conditional expression on the right-hand side is a branch: x = a if c else b
            return [(facts + [("set", t, txt) for t in live], None) for facts, txt in self.forks(st.value)]
        if isinstance(st, ast.AugAssign):
            # x op= v  is  x = x op (v): expressed as an ordinary expression so that path-local resolution can substitute x
            e = ast.BinOp(left=ast.Name(id="__SELF__", ctx=ast.Load()), op=st.op, right=inline(st.value, self.defs))
            txt = norm(e).replace("__SELF__", norm(st.target))
            return [([("set", norm(st.target), txt)], None)]
        if isinstance(st, ast.Return):
            return [(facts + [("return", t)], "return") for facts, t in self.forks(st.value)]
        if isinstance(st, ast.Raise):
            return [([("raise", self.tx(st.exc) if st.exc is not None else "")], "raise")]
        if isinstance(st, ast.Break):
            return [([("break",)], "break")]
        if isinstance(st, ast.Continue):
            return [([], "continue")]
        if isinstance(st, ast.Pass):
            return [([], None)]
        if isinstance(st, ast.If):
            out = []
            test = inline(st.test, self.defs)
            for truth, body in ((True, st.body), (False, st.orelse)):
                facts = [("cond", a, v) for a, v in canon_test(test, truth)]
                for ev, t in self.block(body):
                    out.append((facts + ev, t))
            return out
        if isinstance(st, ast.For):
            body_paths = set()
            for ev, t in self.block(st.body):
                if t == "continue":
                    t = None
                if t == "break":
                    body_paths.add(tuple(ev))  # ("break",) event already recorded
                elif t in ("return", "raise"):
                    raise Unsupported("return/raise inside a for loop")
                else:
                    body_paths.add(tuple(ev))
            ev = [("loop", norm(st.target), self.tx(st.iter), frozenset(body_paths))]
            if st.orelse:
                raise Unsupported("for-else")
            return [(ev, None)]
        if isinstance(st, ast.While) and not st.orelse:
            # one symbolic round, like a for loop: target '' and the (un-inlined) test in the place of the iterable
            body_paths = set()
            for ev, t in self.block(st.body):
                if t == "continue":
                    t = None
                if t in ("return", "raise"):
                    raise Unsupported("return/raise inside a while loop")
                body_paths.add(tuple(ev))
            return [([("loop", "", "while " + norm(st.test), frozenset(body_paths))], None)]
        if isinstance(st, ast.With):
            head = [("with", self.tx(i.context_expr)) for i in st.items]
            return [(head + ev, t) for ev, t in self.block(st.body)]
        if isinstance(st, ast.Try) and not st.handlers and not st.orelse:
            out = []
            for ev, t in self.block(st.body):
                for ev2, t2 in self.block(st.finalbody):
                    out.append((ev + [("finally",)] + ev2, t2 if t2 is not None else t))
            return out
        if isinstance(st, (ast.Import, ast.ImportFrom, ast.Global, ast.Nonlocal, ast.FunctionDef, ast.ClassDef)):
            return [([], None)]
        if isinstance(st, ast.Assert):
            return [([], None)]
        raise Unsupported(type(st).__name__)


def paths_of(fn_node, **kw) -> FrozenSet[Path]:
    return Enumerator(fn_node, **kw).run()


def conds(path: Path) -> Dict[str, bool]:
    return {e[1]: e[2] for e in path if e[0] == "cond"}


def emissions(path: Path) -> List[Event]:
    """events of a path without the branch facts"""
    return [e for e in path if e[0] != "cond"]


def show(path: Path) -> str:
    out = []
    for e in path:
        if e[0] == "cond":
            out.append(("" if e[2] else "not ") + e[1])
        elif e[0] == "loop":
            out.append(f"for {e[1]} in {e[2]}: {{" + " | ".join(show(p) for p in sorted(e[3], key=repr)) + "}")
        else:
            out.append(" ".join(str(x) for x in e))
    return "; ".join(out)


# ---------------------------------------------------------------------------
# scenarios: three-valued evaluation of a path's branch facts under a partial assignment of atoms

def _eval3(e: ast.AST, scen: Dict[str, bool]):
    """True / False / None (unknown) value of test expression e under the partial assignment `scen` (atom text -> bool)."""
    k = norm(e)
    if k in scen:
        return scen[k]
    if isinstance(e, ast.UnaryOp) and isinstance(e.op, ast.Not):
        v = _eval3(e.operand, scen)
        return None if v is None else (not v)
    if isinstance(e, ast.BoolOp):
        vals = [_eval3(v, scen) for v in e.values]
        if isinstance(e.op, ast.And):
            if any(v is False for v in vals):
                return False
            return True if all(v is True for v in vals) else None
        if any(v is True for v in vals):
            return True
        return False if all(v is False for v in vals) else None
    if isinstance(e, ast.Compare) and len(e.ops) == 1:
        for (atom, truth) in canon_test(e, True):
            if atom in scen and atom != k:
                return scen[atom] == truth
    return None


def consistent(path: Path, scen: Dict[str, bool]) -> bool:
    """no branch fact of the path contradicts the scenario"""
    for ev in path:
        if ev[0] == "cond":
            try:
                v = _eval3(ast.parse(ev[1], mode="eval").body, scen)
            except SyntaxError:
                v = None
            if v is not None and v != ev[2]:
                return False
    return True


def select(paths, scen: Dict[str, bool]) -> List[Path]:
    return [p for p in paths if consistent(p, scen)]


# ---------------------------------------------------------------------------
# path-local values: substitute the latest value stored to a plain name into later events of the same path, and fold
# step-by-step list construction (x = [a]; x.extend(b); x.append(c)) into one list display

def resolve(path: Path, keep=()) -> Path:
    import copy
    env: Dict[str, ast.AST] = {}
    out: List[Event] = []

    class S(ast.NodeTransformer):
        def visit_Name(self, node):
            if isinstance(node.ctx, ast.Load) and node.id in env:
                return copy.deepcopy(env[node.id])
            return node

        def visit_Lambda(self, node):
            return node

    def parse(text):
        try:
            return ast.parse(text, mode="eval").body
        except (SyntaxError, ValueError, TypeError):
            return None

    def sub(text):
        if text is None:
            return None
        e = parse(text)
        if e is None:
            return text
        return norm(S().visit(e))

    for ev in path:
        k = ev[0]
        if k == "set":
            tgt = ev[1]
            e = parse(ev[2]) if ev[2] is not None else None
            if e is None:
                env.pop(tgt, None)
                out.append(ev)
                continue
            val = S().visit(e)
            if tgt.isidentifier() and tgt not in keep:
                env[tgt] = val
            else:
                for name in [n.id for n in ast.walk(parse(tgt) or ast.Constant(value=0)) if isinstance(n, ast.Name) and isinstance(n.ctx, ast.Store)]:
                    env.pop(name, None)
            out.append(("set", tgt, norm(val)))
        elif k == "do":
            e = parse(ev[1])
            folded = False
            if isinstance(e, ast.Call) and isinstance(e.func, ast.Attribute) and isinstance(e.func.value, ast.Name) and e.func.value.id in env and isinstance(env[e.func.value.id], ast.List) and len(e.args) == 1 and not e.keywords:
                lst = env[e.func.value.id]
                a = S().visit(copy.deepcopy(e.args[0]))
                if e.func.attr == "append":
                    lst.elts.append(a)
                    folded = True
                elif e.func.attr == "extend":
                    if isinstance(a, (ast.List, ast.Tuple)):
                        lst.elts.extend(a.elts)
                    else:
                        lst.elts.append(ast.Starred(value=a, ctx=ast.Load()))
                    folded = True
            # dict building:  d = dict(A) / A.copy() / {**A} / {} ; d.update(B)   is   {**A, **B}
            if not folded and isinstance(e, ast.Call) and isinstance(e.func, ast.Attribute) and e.func.attr == "update" and isinstance(e.func.value, ast.Name) and e.func.value.id in env and len(e.args) == 1 and not e.keywords:
                cur = env[e.func.value.id]
                base = None
                if isinstance(cur, ast.Dict) and all(k_ is None for k_ in cur.keys):
                    base = cur
                elif isinstance(cur, ast.Call) and norm(cur.func) == "dict" and len(cur.args) == 1 and not cur.keywords:
                    base = ast.Dict(keys=[None], values=[cur.args[0]])
                elif isinstance(cur, ast.Call) and isinstance(cur.func, ast.Attribute) and cur.func.attr == "copy" and not cur.args:
                    base = ast.Dict(keys=[None], values=[cur.func.value])
                if base is not None:
                    a = S().visit(copy.deepcopy(e.args[0]))
                    base.keys.append(None)
                    base.values.append(a)
                    env[e.func.value.id] = base
                    folded = True
            if not folded:
                out.append(("do", sub(ev[1])))
        elif k in ("yield", "yieldfrom", "return", "raise", "with"):
            out.append((k, sub(ev[1])) if len(ev) > 1 else ev)
        elif k == "cond":
            out.append(("cond", sub(ev[1]), ev[2]))
        elif k == "loop":
            # names stored inside the loop are unknown afterwards
            for body in ev[3]:
                for e2 in body:
                    if e2[0] == "set":
                        env.pop(e2[1], None)
            env.pop(ev[1], None)
            out.append(("loop", ev[1], sub(ev[2]), ev[3]))
        else:
            out.append(ev)
    return tuple(out)


def feasible(path: Path) -> bool:
    """False when a (resolved) branch fact of the path is a closed comparison of constants that contradicts the branch taken -
    `None is not None` taken as true after `x = None`, `0 > 0`, ... - or when the same fact is taken both ways"""
    seen: Dict[str, bool] = {}
    for ev in path:
        if ev[0] != "cond":
            continue
        if seen.get(ev[1], ev[2]) != ev[2]:
            return False
        seen[ev[1]] = ev[2]
        try:
            t = ast.parse(ev[1], mode="eval").body
        except SyntaxError:
            continue
        for atom, tv in canon_test(t, ev[2]):
            try:
                a = ast.parse(atom, mode="eval").body
            except SyntaxError:
                continue
            if isinstance(a, ast.Compare) and len(a.ops) == 1 and isinstance(a.left, ast.Constant) and isinstance(a.comparators[0], ast.Constant):
                l, r = a.left.value, a.comparators[0].value
                op = a.ops[0]
                try:
                    val = {ast.Is: l is r, ast.IsNot: l is not r, ast.Eq: l == r, ast.NotEq: l != r}.get(type(op))
                    if val is None and isinstance(l, (int, float)) and isinstance(r, (int, float)):
                        val = {ast.Lt: l < r, ast.LtE: l <= r, ast.Gt: l > r, ast.GtE: l >= r}.get(type(op))
                except Exception:
                    val = None
                if val is not None and val != tv:
                    return False
            if isinstance(a, ast.Constant) and isinstance(a.value, (bool, type(None), int, str)) and bool(a.value) != tv:
                return False
    return True
