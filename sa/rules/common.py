"""Rules shared by several properties."""
from __future__ import annotations

import ast
from typing import Dict, Iterable, Set

from .. import memo
from ..index import norm, walk_local


def descriptor_attrs(repo, cls) -> Dict[str, Set[str]]:
    """class-level `name = Desc(..)` where Desc defines __get__(self, obj, ..): name -> attrs of obj it reads."""
    out: Dict[str, Set[str]] = {}
    if cls is None:
        return out
    for st in cls.node.body:
        if isinstance(st, ast.Assign) and len(st.targets) == 1 and isinstance(st.targets[0], ast.Name) and isinstance(st.value, ast.Call) and isinstance(st.value.func, ast.Name):
            d = cls.module.classes.get(st.value.func.id)
            if d is None:
                continue
            g = d.method("__get__")
            if g is None or len(g.params) < 2:
                continue
            obj = g.params[1]
            out[st.targets[0].id] = {n.attr for n in ast.walk(g.node) if isinstance(n, ast.Attribute) and isinstance(n.value, ast.Name) and n.value.id == obj}
    return out


def memo_rule(ctx, rule_id: str, modules: Iterable[str], floor: int, only=None):
    ctx.rule(rule_id, "memoisation soundness: every cached value (lru_cache, dict cache, lazily filled slot) depends only on what its cache key covers, on fields never reassigned after construction and on never-written module constants; lookups and stores use the same key")
    nsites = 0
    for ms in modules:
        mod = ctx.repo.mod(ms)
        seen = set()
        for fn in mod.functions.values():
            if id(fn) in seen or mod.in_main_guard(fn.node):
                continue
            seen.add(id(fn))
            if only is not None and fn.qualname not in only:
                continue
            sites, problems = memo.check_function(ctx.repo, fn, descriptor_attrs(ctx.repo, fn.cls))
            bad_nodes = {id(p.node) for p in problems}
            for s in sites:
                nsites += 1
                if id(s.node) not in bad_nodes:
                    ctx.ok(f"{mod.relpath}:{s.node.lineno}", f"{s.desc}: value depends only on its key / immutable state", fn.fq)
            for p in problems:
                ctx.violation(fn.fq, p.construct, f"{mod.relpath}:{p.node.lineno}", p.message)
    ctx.floor(nsites, floor, "cache sites")


def get_cg(ctx):
    """Call graph + lock analysis for the current repo (built once per run)."""
    from ..callgraph import CallGraph, Locks

    repo = ctx.repo
    if not hasattr(repo, "_cg"):
        repo._cg = CallGraph(repo)
        repo._locks = Locks(repo._cg)
    ctx.extra["call_sites_total"] = repo._cg.n_calls
    ctx.extra["call_sites_resolved"] = repo._cg.n_resolved
    ctx.extra["lock_identities"] = sorted(f"{a}.{b}" for a, b in repo._locks.lock_ids)
    return repo._cg, repo._locks


def must_held(ctx, f, node):
    """Locks certainly held when `node` of function `f` executes (lexical + held-on-entry)."""
    cg, locks = get_cg(ctx)
    return locks.held_lex(f, node) | locks.must_held_on_entry().get(f.fq, frozenset())


def fmt_locks(s):
    return "{" + ", ".join(sorted(f"{a}.{b}" for a, b in s)) + "}"


def borrow(ctx, rule_fn, old_id: str, new_id: str, suffix: str = ""):
    """Run a rule of another property under a new id (the clause is shared by both properties)."""
    rule_fn(ctx)
    if old_id in ctx.rules_applied:
        ctx.rules_applied[new_id] = ctx.rules_applied.pop(old_id) + suffix
        ctx.rule_counts[new_id] = ctx.rule_counts.pop(old_id, 0)
    for o in ctx.obligations:
        if o["rule"] == old_id:
            o["rule"] = new_id
    for v in ctx.violations:
        if v.rule == old_id:
            v.rule = new_id
    ctx.errors = [e.replace(f"rule={old_id} ", f"rule={new_id} ") for e in ctx.errors]


def mypy_crosscheck(ctx):
    """Thorough tier: compare the resolver's call edges with mypy's receiver types (fail-soft)."""
    import json
    import os
    import subprocess
    import sys

    ctx.rule("XCHECK", "call-resolution cross-check against mypy (library, types only): every method-call site in the lock-relevant modules where both resolvers know the receiver must agree, and no call that mypy resolves to a lock-acquiring rich method may be missing from the call graph")
    try:
        p = subprocess.run([sys.executable, "-m", "sa.mypy_xcheck"], cwd=os.path.dirname(os.path.dirname(os.path.dirname(os.path.abspath(__file__)))),
                           capture_output=True, text=True, timeout=300)
        d = json.loads(p.stdout.strip().splitlines()[-1])
    except Exception as e:
        ctx.note(f"mypy cross-check skipped: {e!r}")
        return
    if not d.get("available"):
        ctx.note(f"mypy cross-check skipped: {d.get('error')}")
        return
    ctx.extra["mypy_crosscheck"] = {k: (v if not isinstance(v, list) else len(v)) for k, v in d.items()}
    for x in d["disagree"]:
        ctx.error(f"resolver disagrees with mypy at {x}")
    for x in d["unresolved_lock_relevant"]:
        ctx.error(f"lock-relevant call not in the call graph: {x}")
    if not d["disagree"] and not d["unresolved_lock_relevant"]:
        ctx.ok("rich/", f"{d['agree']} of {d['sites']} method-call sites resolved by both agree; {d['mypy_only']} resolved only by mypy, none of them lock-relevant; {d['ours_only']} only by the resolver")
