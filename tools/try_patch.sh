#!/bin/bash
# usage: try_patch.sh <patch> <prop> [tier]   -- applies patch to /repo, runs check, reverts
set -u
patch=$1; prop=$2; tier=${3:-quick}
cd /repo || exit 9
if ! git diff --quiet; then echo "REPO DIRTY"; exit 9; fi
git apply "$patch" || { echo "APPLY FAILED"; exit 9; }
cd /verif && /venv/bin/python -m sa.check "$prop" --tier "$tier" 2>&1 | grep -v "^  R[0-9.\-]*: [0-9]* instances" | head -${LINES_MAX:-25}
rc=${PIPESTATUS[0]}
cd /repo && git checkout -- . && git status --short | head -3
echo "exit=$rc"
