#!/venv/bin/python
"""gen_seed_tasks.py <round-dir> <letter1> <letter2> : write the task files for a round of defect-seeding sub-agents.

Each task file holds only: the generic instructions, the text of two properties (title, statement, quantifier, anchors)
and one-line summaries of the changes already in /verif/seeded (so that new ones differ).  Nothing of the checker is included.
Maintenance tool, never used by a check."""
import glob
import json
import os
import sys

out, l1, l2 = sys.argv[1], sys.argv[2], sys.argv[3]
os.makedirs(out, exist_ok=True)
props = [json.loads(l) for l in open("/verif/properties.jsonl")]
done = {}
for d in sorted(glob.glob("/verif/seeded/*/meta.json")):
    m = json.load(open(d))
    s = (m.get("notes") or {}).get("summary") or ""
    done.setdefault(m["property"], []).append(s[:260].replace("\n", " "))
HEAD = """You are helping to evaluate a verification tool for the Python library `rich` (willmcgugan/rich, version 9.10). Your job is to SEED DEFECTS: for each of the two properties below, produce TWO different realistic code changes (so four in total) that BREAK the property, i.e. after the change there is some input / history / schedule for which the property's statement is false.

Requirements for every change:
 * It is the kind of mistake a maintainer could plausibly make or a plausible "improvement" gone wrong (an off-by-one, a wrong variable, a dropped guard, a reordering, an optimisation or fast path that is not quite equivalent, a helper that forgets a case, a cache with the wrong key, a unit mix-up chars vs cells ...). Keep it small: 1-15 changed lines.
 * The package still imports and the existing test suite gives EXACTLY the same result as the clean tree: `cd <worktree> && /venv/bin/python -m pytest -q -p no:cacheprovider --timeout=900 tests 2>&1 | tail -3` prints `11 failed, 430 passed, 1 skipped` with the same 11 failing tests. If a test notices your change, pick another change.
 * It needs something specific to manifest (not every input fails), and you must DEMONSTRATE it: write a small standalone script <X>_demo.py that checks the property's statement on a set of inputs including the triggering one, exits 0 on the clean tree and exits 1 (printing what failed) with your patch applied. The script must start with `import os, sys; sys.path.insert(0, os.getcwd())` and be run with cwd = the checkout, because otherwise `import rich` resolves to the installed copy in /repo.
 * Do NOT repeat the ideas listed under 'ALREADY DONE' for the property; touch different functions / different clauses of the property where you can. Prefer changes in code that the ALREADY DONE list has not touched at all (other anchor files, helper functions, sibling implementations, less obvious clauses of the statement).

You work ONLY in your own scratch git worktree {wt} (a checkout of the library; `rich/` is the package, `tests/` the tests) and write output ONLY to {out}/<PROPERTY_ID>/ . Never touch /repo or any other directory. Python: /venv/bin/python.

For property P and change letter X in ({l1}, {l2}): make the edit, run the tests, run your demo on the patched tree (must exit 1), save `git diff` to {out}/P/X.patch.diff, `git checkout -- .`, run the demo on the clean tree (must exit 0), save the demo as {out}/P/X_demo.py . Finally write {out}/P/notes.json = {{"{l1}": {{"summary":..., "needs_to_manifest":..., "tests_passed":430, "tests_failed":11, "demo_fails_with_patch":true, "demo_passes_clean":true}}, "{l2}": {{...}}}}. Verify every saved patch with `git apply --check` on the clean worktree and leave the worktree clean. If, while exploring, you find an input for which the CLEAN tree already violates the property, mention it in your reply (input + observed behaviour). Reply with a short summary of the four changes.
"""
pairs = [(i, (i + 7) % 20 if False else None) for i in range(20)]
order = list(range(20))
# pair property k with property k+10 (different pairing than earlier rounds)
PAIRING = os.environ.get("SEED_PAIRING", "plus10")
for n in range(10):
    a, b = (props[n], props[n + 10]) if PAIRING == "plus10" else (props[n], props[19 - n])
    wt = f"/tmp/wt/S{n + 1:02d}"
    txt = HEAD.format(wt=wt, out=out, l1=l1, l2=l2)
    for p in (a, b):
        txt += f"\n=== PROPERTY {p['id']}: {p['title']}\nSTATEMENT: {p['statement']}\nQUANTIFIER: {p['quantifier']['text']}\n"
        an = p["anchors"]
        txt += f"ANCHORS: files={an['files']}; mechanism={json.dumps(an['mechanism'])}\nALREADY DONE (do not repeat):\n"
        for s in done.get(p["id"], []):
            txt += f"- {s}\n"
    open(f"{out}/full_{n + 1:02d}.txt", "w").write(txt)
    os.makedirs(f"{out}/{a['id']}", exist_ok=True)
    os.makedirs(f"{out}/{b['id']}", exist_ok=True)
print("wrote 10 task files to", out)
