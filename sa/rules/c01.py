"""C01 Rendered output never exceeds the available width (budget threading and frame arithmetic)."""
from __future__ import annotations

import ast
from typing import List, Optional

from .. import cfg as cfgmod
from ..astutil import call_name, kwarg
from ..index import AnalysisError, AnchorVanished, norm, short, walk_local
from ..linear import show
from ..linewidth import Emit, WidthEnv

LEVEL = "other"
UNDECIDED = [
    "text wrapping fits the budget (divide_line / chop_cells arithmetic)",
    "table column solving fits the budget (_calculate_column_widths, _collapse_widths, ratio_*): Table's update(width=table_width) is recorded as undecided",
    "Align / Columns / Rule / Bar emission arithmetic; structural-minimum reasoning",
]
TRUSTED = ["CPython ast parser", "C09 R9.1: Measurement.get(c, r, X).maximum <= X", "Console.render_lines crops/pads to the options' max_width (R1.2 + C13)"]

CONTAINERS = [
    "constrain:Constrain.__rich_console__",
    "styled:Styled.__rich_console__",
    "padding:Padding.__rich_console__",
    "panel:Panel.__rich_console__",
    "align:Align.__rich_console__",
    "tree:Tree.__rich_console__",
]

# accepted idioms: one symbol, one reason
RENDER_EXCEPTIONS = {
    ("panel:Panel.__rich_console__", "console.render(title_text)"): "the title text is aligned/truncated to width - 4 (<= W - 4) by title_text.align() before it is rendered; checked as part of the Panel line-width algebra (R1.3)",
}


def r1_1(ctx):
    ctx.rule("R1.1", "budget threading: every console.render / console.render_lines call in a container's __rich_console__ receives either the container's own options unchanged or options.update(width=E) with E <= options.max_width in the abstract domain `<= W + c` (min/max/subtraction of non-negatives, Measurement.get(..., X).maximum <= X)")
    n = 0
    from .common import splice_generator_helpers
    for spec in CONTAINERS:
        f = splice_generator_helpers(ctx.repo.fn(spec))
        optp = f.params[2] if len(f.params) > 2 else "options"
        env = WidthEnv(f, optp)
        for c in walk_local(f.node):
            if not (isinstance(c, ast.Call) and isinstance(c.func, ast.Attribute) and c.func.attr in ("render", "render_lines") and norm(c.func.value) == "console"):
                continue
            where = f"{f.module.relpath}:{c.lineno}"
            key = (spec, norm(c))
            if key in RENDER_EXCEPTIONS:
                ctx.note(f"exception {spec} {where}: {RENDER_EXCEPTIONS[key]}")
                continue
            n += 1
            opts = c.args[1] if len(c.args) > 1 else kwarg(c, "options")
            if opts is None:
                ctx.violation(f.fq, short(c), where, f"`{short(c)}` renders a child without passing any options: the child gets the whole console width instead of this container's budget")
                continue
            ow = env.options_width(opts, env.nid(c))
            if ow is None:
                ctx.violation(f.fq, short(c), where, f"cannot relate the options `{norm(opts)}` passed to the child to this container's own options")
                continue
            form, ub, desc = ow
            ctx.check(ub is not None and ub <= 0, f.fq, short(c), where, f"child budget `{desc}` <= options.max_width" + (f" {ub:+d}" if ub else ""),
                      f"the child is rendered with width `{desc}`, which is not bounded by options.max_width (bound: {'unknown' if ub is None else 'W%+d' % ub}): a child may produce lines wider than the width this container was given")
    ctx.floor(n, 6, "child render calls in containers")
    ctx.note("Table.__rich_console__/_render: options.update(width=table_width / column width) is the output of the numeric column solver - undecided, not checked")
    # implicit renders: `yield self.renderable` passes the same options (Console.render recursion)
    cr = ctx.repo.fn("console:Console.render")
    # structural: the options object given to renderable.__rich_console__ is the one every recursive self.render receives,
    # and it is `options or self.options` (the caller's budget when one was passed)
    rc_calls = [c for c in walk_local(cr.node) if isinstance(c, ast.Call) and isinstance(c.func, ast.Attribute) and c.func.attr == "__rich_console__" and len(c.args) == 2]
    rec_calls = [c for c in walk_local(cr.node) if isinstance(c, ast.Call) and norm(c.func) == "self.render"]
    opt_names = {norm(c.args[1]) for c in rc_calls} | {norm(c.args[1]) if len(c.args) >= 2 else "<missing>" for c in rec_calls}
    ok = bool(rc_calls) and bool(rec_calls) and len(opt_names) == 1 and all(isinstance(c.args[1], ast.Name) for c in rc_calls)
    if ok:
        oname = next(iter(opt_names))
        defs = [x.value for x in walk_local(cr.node) if isinstance(x, ast.Assign) and len(x.targets) == 1 and norm(x.targets[0]) == oname]
        ok = len(defs) == 1 and (norm(defs[0]) in ("options or self.options", "self.options if options is None else options", "options if options is not None else self.options", "options if options else self.options"))
    ctx.check(ok, cr.fq, "recursion passes the caller's options", cr.where, "renderables yielded by a renderable are rendered with the same options (options or self.options)", "Console.render does not pass the same options (the caller's, else the console's) to __rich_console__ and to every recursive render of yielded renderables")
    ok = False
    oname = next(iter(opt_names)) if len(opt_names) == 1 else "_options"
    for x in walk_local(cr.node):
        if isinstance(x, ast.If) and norm(x.test) in (f"{oname}.max_width < 1", f"{oname}.max_width <= 0", f"1 > {oname}.max_width", f"not {oname}.max_width > 0") and any(isinstance(b, ast.Return) for b in x.body):
            ok = True
    ctx.check(ok, cr.fq, "if _options.max_width < 1: return", cr.where, "nothing is rendered below one cell", "Console.render no longer refuses widths < 1")
    # ConsoleOptions.update(width=) sets both min and max
    up = ctx.repo.fn("console:ConsoleOptions.update")
    ok = False
    for x in walk_local(up.node):
        if isinstance(x, ast.If) and norm(x.test) in ("width is not None", "width != None"):
            for st in x.body:
                if isinstance(st, ast.Assign) and norm(st.value) == "width" and any(isinstance(t, ast.Attribute) and t.attr == "max_width" for t in st.targets):
                    ok = True
    ctx.check(ok, up.fq, "update(width=)", up.where, "update(width=w) sets max_width = w", "ConsoleOptions.update(width=w) no longer sets max_width to w")

def r1_2(ctx):
    ctx.rule("R1.2", "crop to what was handed down: Console.render_lines crops/pads every line to max_width of the very options object it renders the child with")
    f = ctx.repo.fn("console:Console.render_lines")
    g = cfgmod.build(f.node)
    rd = g.reaching_defs(weak=False)
    rcall = [c for c in walk_local(f.node) if isinstance(c, ast.Call) and norm(c.func) == "self.render"]
    scall = [c for c in walk_local(f.node) if isinstance(c, ast.Call) and norm(c.func).endswith("split_and_crop_lines")]
    ok = len(rcall) == 1 and len(scall) == 1 and len(rcall[0].args) >= 2 and len(scall[0].args) >= 2
    if ok:
        ropt = rcall[0].args[1]
        ln = scall[0].args[1]
        ok = isinstance(ropt, ast.Name) and norm(ln) == f"{ropt.id}.max_width"
        if ok:
            # same reaching definition of the options name at both sites
            def defs_at(call):
                st = call
                while not isinstance(st, ast.stmt):
                    st = f.module.parent_of[st]
                out = set()
                for nid in g.nodes_of(st):
                    out |= rd.get(nid, {}).get(ropt.id, set())
                return out
            ok = defs_at(rcall[0]) == defs_at(scall[0])
    ctx.check(ok, f.fq, "split_and_crop_lines(_rendered, render_options.max_width)", f.where, "lines are cropped to the max_width of the options used to render them",
              "render_lines crops to a width other than max_width of the options it rendered the child with (e.g. the console width): an over-wide child line is not cut to the budget its parent handed down")
    if scall:
        # the rendered stream is what gets split
        a0 = scall[0].args[0]
        okr = isinstance(a0, ast.Name) and any(isinstance(n, ast.Assign) and norm(n.targets[0]) == a0.id and n.value in rcall for n in walk_local(f.node))
        ctx.check(okr, f.fq, "split of the rendered stream", f.where, "the stream split into lines is the child's render", "render_lines does not split the child's own rendered stream")
        pd = kwarg(scall[0], "pad")
        ctx.check(pd is not None and norm(pd) == "pad", f.fq, "pad=pad", f.where, "padding follows the caller's flag", "render_lines ignores its pad argument")


def r1_3(ctx):
    ctx.rule("R1.3", "frame arithmetic: the common line width w of Padding and Panel (R8.3) is itself <= options.max_width in the `<= W + c` domain; Constrain hands down min(width, max_width); Tree subtracts its guide prefix")
    for spec in ("padding:Padding.__rich_console__", "panel:Panel.__rich_console__"):
        from .common import splice_generator_helpers
        f = splice_generator_helpers(ctx.repo.fn(spec))
        env = WidthEnv(f)
        em = Emit(env).run()
        if em.problems or not em.lines:
            ctx.violation(f.fq, "; ".join(m for _l, m in em.problems) or "no lines", f.where, f"{f.qualname}: emitted line widths could not be established ({[m for _l, m in em.problems][:2]})")
            continue
        for w, desc, ln in em.lines:
            ub = env.ub_form(w)
            ctx.check(ub is not None and ub <= 0, f.fq, f"line `{desc}`: {show(w)}", f"{f.module.relpath}:{ln}", f"line width {show(w)} <= options.max_width" + (f" {ub:+d}" if ub else ""),
                      f"{f.qualname} emits lines of `{show(w)}` cells, which is not bounded by the available width (bound: {'unknown' if ub is None else 'W%+d' % ub}): the frame can be wider than the space it was given")


def r1_4(ctx):
    ctx.rule("R1.4", "text fits its budget structurally: Text.__rich_console__ wraps to options.max_width, and wrap() truncates the lines of every paragraph to that width before collecting them (the arithmetic of where to break is C02/C13 territory)")
    f = ctx.repo.fn("text:Text.__rich_console__")
    calls = [c for c in walk_local(f.node) if isinstance(c, ast.Call) and norm(c.func) == "self.wrap"]
    ok = len(calls) == 1 and len(calls[0].args) >= 2 and norm(calls[0].args[1]) == "options.max_width"
    ctx.check(ok, f.fq, short(calls[0]) if calls else "?", f.where, "Text wraps itself to options.max_width", "Text.__rich_console__ does not wrap to options.max_width")
    from .c02 import r2_2
    from .common import borrow
    borrow(ctx, r2_2, "R2.2", "R1.4b", " [every wrapped line is truncated to the width]")


def r1_5(ctx):
    from .c08 import r8_10
    from .common import borrow
    borrow(ctx, r8_10, "R8.10", "R1.5", " [bars stay within their width: both edges use the same rounding]")


def r1_6(ctx):
    from .c05 import r5_8
    from .common import borrow
    borrow(ctx, r5_8, "R5.8", "R1.6", " [cropped / padded text fits the width it was given only if it is measured in cells]")


def r1_7(ctx):
    from .c08 import r8_12
    from .common import borrow
    borrow(ctx, r8_12, "R8.12", "R1.7", " [a progress bar never exceeds its width only if its fill is computed from the clamped completed value]")


def r1_8(ctx):
    from .c13 import r13_7
    from .common import borrow
    borrow(ctx, r13_7, "R13.7", "R1.8", " [a line is cropped to W cells only if the crop is computed in cells: a quantity in cells never indexes a string]")


def r1_9(ctx):
    from .c13 import r13_2
    from .common import borrow
    borrow(ctx, r13_2, "R13.2", "R1.9", " [every width this property speaks about comes out of the width-table lookup]")


def r1_10(ctx):
    from .c07 import r7_15
    r7_15(ctx, "R1.10", " [C01: the one place where a table's columns are cut down to the available width]")


def r1_11(ctx):
    from .c08 import r8_17
    from .common import borrow
    borrow(ctx, r8_17, "R8.17", "R1.11", " [a title wider than it was measured makes the top border exceed the available width]")


def r1_12(ctx):
    ctx.rule("R1.12", "an explicit print width never exceeds the terminal: the `width` that Console.print puts into its render options is None or min(.., self.width) - the same options render the live frame that the render hook adds to every print, and a frame is made of control segments that split_and_crop_lines does not crop: print(width=60) on a 40-column terminal would draw 60-cell frame lines that wrap on screen")
    from ..astutil import inline as _inl, single_defs as _sdf
    f = ctx.repo.fn("console:Console.print")
    m = f.module
    sd = _sdf(f.node)
    ups = [c for c in walk_local(f.node) if isinstance(c, ast.Call) and isinstance(c.func, ast.Attribute) and c.func.attr == "update" and norm(c.func.value).endswith("options") and any(k.arg == "width" for k in c.keywords)]
    if not ups:
        raise AnalysisError("Console.print: no options.update(width=..) found; the explicit-width clause is written differently and not decided")

    def alts(e):
        if isinstance(e, ast.IfExp):
            return alts(e.body) + alts(e.orelse)
        if isinstance(e, ast.BoolOp) and isinstance(e.op, (ast.And, ast.Or)):
            return [a for v in e.values for a in alts(v)]
        return [e]
    for c in ups:
        w = _inl(next(k.value for k in c.keywords if k.arg == "width"), sd)
        bad = []
        unknown = []
        for a in alts(w):
            if isinstance(a, ast.Constant) and a.value is None:
                continue
            if isinstance(a, ast.Call) and norm(a.func) == "min" and any(norm(x) == "self.width" for x in a.args):
                continue
            if norm(a) == "self.width":
                continue
            if isinstance(a, ast.Name) and a.id in f.params:
                bad.append(a)
            else:
                unknown.append(a)
        if unknown and not bad:
            raise AnalysisError(f"Console.print: cannot bound the render width `{norm(w)}` by the terminal width")
        ctx.check(not bad, f.fq, short(c), f"{m.relpath}:{c.lineno}", "explicit width capped by the terminal width",
                  f"`{short(c)}`: the caller's `{norm(bad[0]) if bad else ''}` reaches the render options without min(.., self.width): everything rendered by this print - including the live frame appended by the render hook, whose control segments are never cropped - is laid out wider than the terminal")


def r1_13(ctx):
    from .c13 import r13_5
    from .common import borrow
    borrow(ctx, r13_5, "R13.5", "R1.13", " [every line a console writes was cropped to the width by Segment.adjust_line_length: the crop must end the line, and pad / crop amounts are measured against the requested length]")


RULES = [r1_1, r1_2, r1_3, r1_4, r1_5, r1_6, r1_7, r1_8, r1_9, r1_10, r1_11, r1_12, r1_13]
