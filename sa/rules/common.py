"""Rules shared by several properties."""
from __future__ import annotations

import ast
from typing import Dict, Iterable, Set

from .. import memo
from ..index import norm, walk_local


def descriptor_attrs(repo, cls) -> Dict[str, Set[str]]:
    """class-level `name = Desc(..)` where Desc defines __get__(self, obj, ..): name -> attrs of obj it reads."""
    out: Dict[str, Set[str]] = {}
    if cls is None:
        return out
    for st in cls.node.body:
        if isinstance(st, ast.Assign) and len(st.targets) == 1 and isinstance(st.targets[0], ast.Name) and isinstance(st.value, ast.Call) and isinstance(st.value.func, ast.Name):
            d = cls.module.classes.get(st.value.func.id)
            if d is None:
                continue
            g = d.method("__get__")
            if g is None or len(g.params) < 2:
                continue
            obj = g.params[1]
            out[st.targets[0].id] = {n.attr for n in ast.walk(g.node) if isinstance(n, ast.Attribute) and isinstance(n.value, ast.Name) and n.value.id == obj}
    return out


def memo_rule(ctx, rule_id: str, modules: Iterable[str], floor: int, only=None):
    ctx.rule(rule_id, "memoisation soundness: every cached value (lru_cache, dict cache, lazily filled slot) depends only on what its cache key covers, on fields never reassigned after construction and on never-written module constants; lookups and stores use the same key")
    nsites = 0
    for ms in modules:
        mod = ctx.repo.mod(ms)
        seen = set()
        for fn in mod.functions.values():
            if id(fn) in seen or mod.in_main_guard(fn.node):
                continue
            seen.add(id(fn))
            if only is not None and fn.qualname not in only:
                continue
            sites, problems = memo.check_function(ctx.repo, fn, descriptor_attrs(ctx.repo, fn.cls))
            bad_nodes = {id(p.node) for p in problems}
            for s in sites:
                nsites += 1
                if id(s.node) not in bad_nodes:
                    ctx.ok(f"{mod.relpath}:{s.node.lineno}", f"{s.desc}: value depends only on its key / immutable state", fn.fq)
            for p in problems:
                ctx.violation(fn.fq, p.construct, f"{mod.relpath}:{p.node.lineno}", p.message)
    ctx.floor(nsites, floor, "cache sites")
