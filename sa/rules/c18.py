"""C18 Colour down-conversion stays in gamut, is idempotent and picks the nearest entry."""
from __future__ import annotations

import ast
import os
from typing import Dict, List

from ..absint import Const, EnumV, IntIv, Interp, Opaque, Rec, StrOf, Tup, as_iv, is_none, NONE
from ..astutil import kwarg, call_name, const_int, literal
from ..index import AnalysisError, AnchorVanished, norm, short, walk_local
from ..linear import lin

LEVEL = "proof"
UNDECIDED = [
    "that the palette tables hold the colours real terminals use",
    "that the weighted-RGB metric itself is the intended one (only that match() is the argmin of the distance closure over all entries is decided)",
]
TRUSTED = [
    "CPython ast parser",
    "colorsys.rgb_to_hls maps [0,1]^3 into [0,1]^3",
    "round() is monotone and integer-valued; builtin min(iterable, key=) returns an argmin",
    "interval arithmetic of the checker's abstract interpreter (sa/absint.py)",
]
ASSUMPTIONS = [
    "Colour values satisfy the constructor invariants: STANDARD/WINDOWS number in [0,15], EIGHT_BIT number in [0,255], TRUECOLOR components in [0,255], DEFAULT has neither (established by Color.parse / from_ansi / from_triplet for documented arguments)",
]

TYPES = ["DEFAULT", "STANDARD", "EIGHT_BIT", "TRUECOLOR", "WINDOWS"]
SYSTEMS = ["STANDARD", "EIGHT_BIT", "TRUECOLOR", "WINDOWS"]


def _interp(ctx) -> Interp:
    return Interp(ctx.repo, ctx.repo.mod("color"))


def _color(it: Interp, tname: str) -> Rec:
    order, _ = it.records["Color"]
    torder, _ = it.records["ColorTriplet"]
    tv = EnumV("ColorType", tname, it.enums["ColorType"][tname])
    number = NONE
    triplet = NONE
    if tname in ("STANDARD", "WINDOWS"):
        number = IntIv(0, 15, "self.number")
    elif tname == "EIGHT_BIT":
        number = IntIv(0, 255, "self.number")
    elif tname == "TRUECOLOR":
        triplet = Rec("ColorTriplet", {k: IntIv(0, 255, f"self.triplet.{k}") for k in torder}, torder, "self.triplet")
    return Rec("Color", {"name": Opaque("name"), "type": tv, "number": number, "triplet": triplet}, order, "self")


def _representable(col, system: str) -> str:
    """'' if the abstract colour is representable in `system`, else the reason."""
    if not isinstance(col, Rec) or col.cls != "Color":
        return f"result {col!r} is not a Color"
    t = col.fields.get("type")
    if not isinstance(t, EnumV):
        return f"result type {t!r} not a constant ColorType"
    if t.name == "DEFAULT":
        return ""
    num = col.fields.get("number")
    if system in ("STANDARD", "WINDOWS"):
        if t.name != system:
            return f"result has type {t.name}, not {system}"
        iv = as_iv(num)
        if iv is None or not iv[2]:
            return f"result number {num!r} is not an integer"
        if iv[0] < 0 or iv[1] > 15:
            return f"result number {num!r} outside the 16 indices [0,15]"
        return ""
    if system == "EIGHT_BIT":
        if t.name == "TRUECOLOR":
            return "result is still a truecolor"
        iv = as_iv(num)
        if iv is None or not iv[2]:
            return f"result number {num!r} is not an integer"
        hi = 15 if t.name in ("STANDARD", "WINDOWS") else 255
        if iv[0] < 0 or iv[1] > hi:
            return f"result number {num!r} outside [0,{hi}] for type {t.name}"
        return ""
    return ""


def r18_0(ctx):
    ctx.rule("R18.0", "tables the conversion relies on: palette literals have the sizes their index ranges need and components in [0,255]; ColorType and ColorSystem agree on the values of their common names")
    it = _interp(ctx)
    pm = ctx.repo.mod("_palettes")
    for name, size in (("STANDARD_PALETTE", 16), ("WINDOWS_PALETTE", 16), ("EIGHT_BIT_PALETTE", 256)):
        node = pm.global_assign(name)
        if not (isinstance(node, ast.Call) and node.args):
            raise AnalysisError(f"{name} is not a Palette([...]) literal")
        cols = literal(node.args[0])
        ok = len(cols) == size and all(len(c) == 3 and all(isinstance(x, int) and 0 <= x <= 255 for x in c) for c in cols)
        ctx.check(ok, f"_palettes:{name}", f"{name} literal", f"{pm.relpath}:{node.lineno}", f"{name}: {size} RGB triples in [0,255]",
                  f"{name} has {len(cols)} entries (needs {size}) or a component outside [0,255]")
    ct, cs = it.enums.get("ColorType"), it.enums.get("ColorSystem")
    if not ct or not cs:
        raise AnchorVanished("ColorType / ColorSystem enums not found")
    cm = ctx.repo.mod("color")
    for n in cs:
        ctx.check(ct.get(n) == cs[n], "color:ColorSystem", f"{n}", f"{cm.relpath}:{ctx.repo.cls('color:ColorSystem').node.lineno}",
                  f"ColorType.{n} == ColorSystem.{n} == {cs[n]} (downgrade compares them by value)",
                  f"ColorType.{n}={ct.get(n)} but ColorSystem.{n}={cs[n]}: `self.type == system` and ColorSystem(int(type)) no longer mean the same colour space")


def r18_1(ctx):
    ctx.rule("R18.1-3", "abstract execution of Color.downgrade for every ColorType x ColorSystem: every returned colour is representable in the target (in gamut); already-representable and default colours return self; re-applying the conversion to each result returns it unchanged; greys land on {16,231} U [232,255]; the cube path is 16+36r+6g+b with r,g,b in [0,5]; no path raises")
    it = _interp(ctx)
    f = ctx.repo.fn("color:Color.downgrade")
    sysparam = f.params[1]
    ncases = 0
    for tname in TYPES:
        for sname in SYSTEMS:
            ncases += 1
            col = _color(it, tname)
            sysv = EnumV("ColorSystem", sname, it.enums["ColorSystem"][sname])
            it.hazards = []
            outs = it.run(f, {"self": col, sysparam: sysv})
            case = f"{tname}->{sname}"
            where_fn = f.where
            for hz in it.hazards:
                ctx.violation(f.fq, f"{case}: {hz}", where_fn, f"downgrade({case}): {hz}")
            already = tname == "DEFAULT" or tname == sname or sname == "TRUECOLOR" or (sname == "EIGHT_BIT" and tname in ("STANDARD", "WINDOWS"))
            for o in outs:
                where = f"{f.module.relpath}:{o.node.lineno}" if o.node is not None else where_fn
                cond = " & ".join(o.path.conds) or "always"
                if o.kind == "raise":
                    ctx.violation(f.fq, f"{case}: raise {o.value!r} under {cond}", where, f"downgrade({case}) can raise {o.value!r} on a valid colour (path: {cond})")
                    continue
                v = o.value
                why = _representable(v, sname)
                ctx.check(not why, f.fq, f"{case}: return {short(o.node) if o.node is not None else v!r}", where,
                          f"{case} [{cond}] -> {v!r} representable in {sname}",
                          f"downgrade({case}) under [{cond}] returns {v!r}: {why}")
                if already:
                    ctx.check(isinstance(v, Rec) and v.ident == "self", f.fq, f"{case}: unchanged", where,
                              f"{case}: colour already representable / default is returned unchanged",
                              f"downgrade({case}) returns {v!r} under [{cond}] instead of the colour itself (already representable / default must be unchanged)")
                # idempotence
                if isinstance(v, Rec) and v.ident != "self" and not why:
                    again = Rec(v.cls, dict(v.fields), v.order, "self")
                    it.hazards = []
                    outs2 = it.run(f, {"self": again, sysparam: sysv})
                    ok = all(o2.kind == "return" and isinstance(o2.value, Rec) and o2.value.ident == "self" for o2 in outs2) and not it.hazards
                    ctx.check(ok, f.fq, f"{case}: idempotent", where, f"{case}: converting the result again returns it unchanged",
                              f"downgrade({case}) is not idempotent: converting {v!r} to {sname} again gives {[repr(o2.value) for o2 in outs2]}")
                # greys / cube
                if tname == "TRUECOLOR" and sname == "EIGHT_BIT" and isinstance(v, Rec):
                    num = as_iv(v.fields.get("number"))
                    grey = any(c.startswith("s <") or c.startswith("s <=") for c in o.path.conds) or any("s <" in c and not c.startswith("not") for c in o.path.conds)
                    if num:
                        if grey:
                            ok = (num[0] == num[1] and num[0] in (16, 231)) or (num[0] >= 232 and num[1] <= 255)
                            ctx.check(ok, f.fq, f"grey: {short(o.node)} [{cond}]", where, f"grey path -> {v.fields['number']!r} on the grey ramp / black / white",
                                      f"low-saturation colour maps to {v.fields['number']!r} under [{cond}]: not within {{16, 231}} U [232,255]")
                        else:
                            ok = num[0] >= 16 and num[1] <= 231
                            ctx.check(ok, f.fq, f"cube: {short(o.node)}", where, f"cube path -> {v.fields['number']!r} within [16,231]",
                                      f"saturated colour maps to {v.fields['number']!r}: outside the 6x6x6 cube [16,231]")
    ctx.extra["cases_type_x_system"] = ncases
    # cube formula: positional base-6 encoding
    found = False
    for n in walk_local(f.node):
        if isinstance(n, ast.Assign) and isinstance(n.value, ast.BinOp):
            form = lin(n.value)
            atoms = [k for k in form if k]
            if len(atoms) == 3 and all("round" in a for a in atoms) and form.get("", 0):
                found = True
                coefs = sorted(form[a] for a in atoms)
                by = {("red" in a and "r") or ("green" in a and "g") or ("blue" in a and "b") or a: form[a] for a in atoms}
                ok = form.get("") == 16 and by.get("r") == 36 and by.get("g") == 6 and by.get("b") == 1 and all("* 5" in a for a in atoms)
                ctx.check(ok, f.fq, short(n), f"{f.module.relpath}:{n.lineno}", "cube index = 16 + 36*r + 6*g + b with r,g,b = round(c*5)",
                          f"cube index formula {form} is not 16 + 36*round(red*5) + 6*round(green*5) + round(blue*5)")
    if not found:
        ctx.note("no affine cube formula over round(component*5) found in downgrade (cube check skipped; gamut still checked)")


def r18_4(ctx):
    ctx.rule("R18.4", "abstract execution of Color.get_ansi_codes for every ColorType x foreground/background: 39/49; 30-37/90-97 and 40-47/100-107 as n+30|n+82 / n+40|n+92; (38|48,'5',n); (38|48,'2',r,g,b) in that order")
    it = _interp(ctx)
    f = ctx.repo.fn("color:Color.get_ansi_codes")
    fg_param = f.params[1]
    for tname in TYPES:
        for fg in (True, False):
            col = _color(it, tname)
            it.hazards = []
            outs = it.run(f, {"self": col, fg_param: Const(fg)})
            case = f"{tname}/{'fg' if fg else 'bg'}"
            for o in outs:
                where = f"{f.module.relpath}:{o.node.lineno}" if o.node is not None else f.where
                cond = " & ".join(o.path.conds) or "always"
                if o.kind != "return" or not isinstance(o.value, Tup):
                    ctx.violation(f.fq, f"{case}: {o!r}", where, f"get_ansi_codes({case}) does not return a tuple of parameters under [{cond}]: {o!r}")
                    continue
                items = o.value.items
                ok, why = _check_codes(tname, fg, items, col)
                ctx.check(ok, f.fq, f"{case}: {short(o.node)} [{cond}]", where, f"{case} [{cond}] -> {items!r}", f"get_ansi_codes({case}) under [{cond}] yields {items!r}: {why}")


def _sval(v):
    if isinstance(v, Const) and isinstance(v.v, str):
        return v.v
    return None


def _check_codes(tname, fg, items, col):
    if tname == "DEFAULT":
        want = "39" if fg else "49"
        return (len(items) == 1 and _sval(items[0]) == want), f"expected ({want!r},)"
    if tname in ("STANDARD", "WINDOWS"):
        if len(items) != 1 or not isinstance(items[0], StrOf):
            return False, "expected a single str(code)"
        iv = as_iv(items[0].inner)
        if iv is None:
            return False, "code is not an integer"
        base = (30, 90) if fg else (40, 100)
        ok = (iv[0], iv[1]) in ((base[0], base[0] + 7), (base[1], base[1] + 7))
        return ok, f"expected {base[0]}-{base[0] + 7} for n<8 or {base[1]}-{base[1] + 7} for n>=8 (exact ranges)"
    if tname == "EIGHT_BIT":
        lead = "38" if fg else "48"
        ok = len(items) == 3 and _sval(items[0]) == lead and _sval(items[1]) == "5" and isinstance(items[2], StrOf) and isinstance(items[2].inner, IntIv) and items[2].inner.sym == "self.number"
        return ok, f"expected ({lead!r}, '5', str(self.number))"
    if tname == "TRUECOLOR":
        lead = "38" if fg else "48"
        ok = len(items) == 5 and _sval(items[0]) == lead and _sval(items[1]) == "2"
        if ok:
            torder = col.fields["triplet"].order
            for it_, k in zip(items[2:], torder):
                if not (isinstance(it_, StrOf) and isinstance(it_.inner, IntIv) and it_.inner.sym == f"self.triplet.{k}"):
                    ok = False
        return ok, f"expected ({lead!r}, '2', str(red), str(green), str(blue)) in that order"
    return False, "unknown type"


def _argmin_loop_normal_form(f):
    """`D = []; for i in range(len(self._colors)): BODY; D.append(E)` followed by `return D.index(min(D))` is the closure form
    `def _distance(i): BODY; return E` with `return min(range(len(self._colors)), key=_distance)` - list.index(min(..)) and min(range,
    key=..) both pick the FIRST minimal element.  Returns a FuncInfo whose node is that closure form (a rewritten copy; line numbers
    kept), or f itself when the loop form is not there."""
    import copy as _copy
    from ..astutil import alias_map as _am, expand_alias as _ea
    node = f.node
    al = _am(node)
    rets = [r for r in walk_local(node) if isinstance(r, ast.Return) and r.value is not None]
    if len(rets) != 1:
        return f
    v = rets[0].value
    if not (isinstance(v, ast.Call) and isinstance(v.func, ast.Attribute) and v.func.attr == "index" and isinstance(v.func.value, ast.Name) and len(v.args) == 1
            and isinstance(v.args[0], ast.Call) and call_name(v.args[0]) == "min" and len(v.args[0].args) == 1 and not v.args[0].keywords and norm(v.args[0].args[0]) == v.func.value.id):
        return f
    dname = v.func.value.id
    inits = [x for x in node.body if isinstance(x, (ast.Assign, ast.AnnAssign)) and x.value is not None and isinstance(x.value, ast.List) and not x.value.elts
             and norm(x.targets[0] if isinstance(x, ast.Assign) else x.target) == dname]
    loops = [x for x in node.body if isinstance(x, ast.For) and not x.orelse and isinstance(x.target, ast.Name) and norm(x.iter) == "range(len(self._colors))"]
    if len(inits) != 1 or len(loops) != 1:
        return f
    lp = loops[0]
    last = lp.body[-1] if lp.body else None
    if not (isinstance(last, ast.Expr) and isinstance(last.value, ast.Call) and len(last.value.args) == 1 and not last.value.keywords):
        return f
    fn_ = _ea(last.value.func, al) if isinstance(last.value.func, ast.Name) else last.value.func
    if norm(fn_) != f"{dname}.append":
        return f
    # nothing else touches the list, nothing leaves the loop early
    others = [x for x in ast.walk(node) if isinstance(x, ast.Name) and x.id == dname]
    if any(isinstance(x, (ast.Break, ast.Continue, ast.Return)) for b in lp.body for x in ast.walk(b)):
        return f
    uses = sum(1 for x in others)
    alias_uses = sum(1 for k_, v_ in al.items() if norm(v_) == f"{dname}.append")
    if uses != 1 + alias_uses + (0 if alias_uses else 1) + 2:
        return f
    new = _copy.deepcopy(node)
    nlp = [x for x in new.body if isinstance(x, ast.For)][0]
    body = nlp.body[:-1] + [ast.copy_location(ast.Return(value=nlp.body[-1].value.args[0]), nlp.body[-1])]
    closure = ast.FunctionDef(name="_loop_distance", args=ast.arguments(posonlyargs=[], args=[ast.arg(arg=nlp.target.id)], kwonlyargs=[], kw_defaults=[], defaults=[]), body=body, decorator_list=[], returns=None, type_comment=None, type_params=[])
    ast.copy_location(closure, nlp)
    nret = [r for r in new.body if isinstance(r, ast.Return)][0] if any(isinstance(r, ast.Return) for r in new.body) else None
    if nret is None:
        return f
    nret.value = ast.copy_location(ast.parse("min(range(len(self._colors)), key=_loop_distance)", mode="eval").body, nret.value)
    keep = []
    for x in new.body:
        if x is nlp:
            keep.append(closure)
        elif isinstance(x, (ast.Assign, ast.AnnAssign)) and norm(x.targets[0] if isinstance(x, ast.Assign) else x.target) == dname:
            continue
        elif isinstance(x, ast.Assign) and norm(x.value) == f"{dname}.append":
            continue
        else:
            keep.append(x)
    new.body = keep
    ast.fix_missing_locations(new)
    g = _copy.copy(f)
    g.node = new
    return g


def r18_5(ctx):
    ctx.rule("R18.5", "Palette.match returns builtin min over range(len(self._colors)) keyed by a distance closure that pairs component i of the query with component i of the entry; its result is an index in [0, len-1]")
    f = _argmin_loop_normal_form(ctx.repo.fn("palette:Palette.match"))
    color_p = f.params[1]
    rets = [r for r in walk_local(f.node) if isinstance(r, ast.Return)]
    # resolve returned name to its definition
    defs = {}
    for n in walk_local(f.node):
        if isinstance(n, ast.Assign) and len(n.targets) == 1 and isinstance(n.targets[0], ast.Name):
            defs.setdefault(n.targets[0].id, []).append(n.value)
        elif isinstance(n, ast.AnnAssign) and isinstance(n.target, ast.Name) and n.value is not None:
            defs.setdefault(n.target.id, []).append(n.value)
    mincall = None
    for r in rets:
        v = r.value
        if isinstance(v, ast.Name) and len(defs.get(v.id, [])) == 1:
            v = defs[v.id][0]
        if isinstance(v, ast.Call) and call_name(v) == "min":
            mincall = v
    other = []
    for r in rets:
        v = r.value
        if isinstance(v, ast.Name) and len(defs.get(v.id, [])) == 1:
            v = defs[v.id][0]
        if v is mincall:
            continue
        # a cache hit (value read back from a container; soundness of that cache is R18.6's job)
        if isinstance(v, ast.Call) and isinstance(v.func, ast.Attribute) and v.func.attr == "get":
            continue
        if isinstance(v, ast.Subscript):
            continue
        other.append(norm(r))
    # shape B: distances = [D(q.., entry(i)) for i in range(len(self._colors))]; return distances.index(min(distances))
    # (the index of the first minimum - the same element builtin min(range, key=...) picks)
    shape_b = None
    if mincall is None:
        for r in rets:
            v = r.value
            if isinstance(v, ast.Name) and len(defs.get(v.id, [])) == 1:
                v = defs[v.id][0]
            if (isinstance(v, ast.Call) and isinstance(v.func, ast.Attribute) and v.func.attr == "index" and isinstance(v.func.value, ast.Name) and len(v.args) == 1
                    and isinstance(v.args[0], ast.Call) and call_name(v.args[0]) == "min" and len(v.args[0].args) == 1 and not v.args[0].keywords and norm(v.args[0].args[0]) == v.func.value.id):
                lst = defs.get(v.func.value.id, [])
                if len(lst) == 1 and isinstance(lst[0], ast.ListComp) and len(lst[0].generators) == 1 and not lst[0].generators[0].ifs:
                    shape_b = (r, lst[0])
        if shape_b is not None:
            other = [o for o in other if o != norm(shape_b[0])]
    # shape C: _d, index = min((D(entry(i)), i) for i in range(len(self._colors))); return index
    # (tuples compare by distance first, then by index: the lowest index among equal distances - the element min(key=) picks)
    shape_c = None
    if mincall is None and shape_b is None:
        from ..astutil import alias_map as _am, expand_alias as _ea
        al_ = _am(f.node)
        for x in walk_local(f.node):
            if isinstance(x, ast.Assign) and isinstance(x.targets[0], ast.Tuple) and len(x.targets[0].elts) == 2 and isinstance(x.value, ast.Call) and call_name(x.value) == "min" and len(x.value.args) == 1 and not x.value.keywords and isinstance(x.value.args[0], (ast.GeneratorExp, ast.ListComp)):
                ge = x.value.args[0]
                gen = ge.generators[0]
                if (len(ge.generators) == 1 and not gen.ifs and isinstance(ge.elt, ast.Tuple) and len(ge.elt.elts) == 2 and isinstance(gen.target, ast.Name) and norm(ge.elt.elts[1]) == gen.target.id
                        and isinstance(gen.iter, ast.Call) and call_name(gen.iter) == "range" and len(gen.iter.args) == 1 and norm(_ea(gen.iter.args[0].args[0], al_) if isinstance(gen.iter.args[0], ast.Call) and gen.iter.args[0].args else gen.iter.args[0]) == "self._colors"):
                    idxname = norm(x.targets[0].elts[1])
                    if any(isinstance(r.value, ast.Name) and r.value.id == idxname for r in rets):
                        shape_c = (x, ge)
        if shape_c is not None:
            other = [o for o in other if o != f"return {norm(shape_c[0].targets[0].elts[1])}"]
    if shape_c is not None:
        x, ge = shape_c
        dcall = ge.elt.elts[0]
        keyfn = None
        if isinstance(dcall, ast.Call) and isinstance(dcall.func, ast.Name) and len(dcall.args) == 1:
            for n in walk_local(f.node):
                if isinstance(n, ast.FunctionDef) and n.name == dcall.func.id:
                    keyfn = n
        entry_ok = keyfn is not None and isinstance(dcall.args[0], (ast.Subscript, ast.Call)) and "self._colors" in norm(_ea(dcall.args[0].value if isinstance(dcall.args[0], ast.Subscript) else dcall.args[0].func, al_)) and norm(dcall.args[0].slice if isinstance(dcall.args[0], ast.Subscript) else dcall.args[0].args[0]) == ge.generators[0].target.id
        ctx.check(not other and entry_ok, f.fq, short(x), f"{f.module.relpath}:{x.lineno}", "match returns the index of the first minimum of (distance, index) over every palette index",
                  f"Palette.match does not take the minimum of (distance(entry i), i) over every index of self._colors: {other}")
        if not entry_ok:
            return
        q_names = None
        for n in walk_local(f.node):
            if isinstance(n, ast.Assign) and isinstance(n.targets[0], ast.Tuple) and norm(n.value) == color_p:
                q_names = [e.id for e in n.targets[0].elts]
        ep = keyfn.args.args[0].arg
        e_names = None
        for n in ast.walk(keyfn):
            if isinstance(n, ast.Assign) and isinstance(n.targets[0], ast.Tuple) and norm(n.value) == ep:
                e_names = [e.id for e in n.targets[0].elts]
        if q_names is None or e_names is None or len(q_names) != 3 or len(e_names) != 3:
            raise AnalysisError("Palette.match: cannot find the component unpacks of the query colour and the palette entry")
        pairs = 0
        for n in ast.walk(keyfn):
            if isinstance(n, ast.BinOp) and isinstance(n.op, (ast.Sub, ast.Add)) and isinstance(n.left, ast.Name) and isinstance(n.right, ast.Name):
                l, r_ = n.left.id, n.right.id
                if (l in q_names and r_ in e_names) or (l in e_names and r_ in q_names):
                    qi = q_names.index(l) if l in q_names else q_names.index(r_)
                    ei = e_names.index(r_) if r_ in e_names else e_names.index(l)
                    pairs += 1
                    ctx.check(qi == ei, f.fq, norm(n), f"{f.module.relpath}:{n.lineno}", f"component {qi} of the query paired with component {ei} of the entry",
                              f"distance mixes component {qi} of the query with component {ei} of the palette entry: `{norm(n)}`")
        ctx.floor(pairs, 3, "component differences in the distance closure")
        return
    def _entry_keyfn_check(dname, x, idxname):
        keyfn = next((n for n in walk_local(f.node) if isinstance(n, ast.FunctionDef) and n.name == dname), None)
        if keyfn is None:
            return False
        other_d = [o for o in other if o != f"return {idxname}"]
        ctx.check(not other_d, f.fq, short(x), f"{f.module.relpath}:{x.lineno}", "match returns the position of the first minimum of the distances of all palette entries, in order",
                  f"Palette.match returns something else besides the argmin: {other_d}")
        q_names = None
        for n in walk_local(f.node):
            if isinstance(n, ast.Assign) and isinstance(n.targets[0], ast.Tuple) and norm(n.value) == color_p:
                q_names = [e.id for e in n.targets[0].elts]
        ep = keyfn.args.args[0].arg
        e_names = None
        for n in ast.walk(keyfn):
            if isinstance(n, ast.Assign) and isinstance(n.targets[0], ast.Tuple) and norm(n.value) == ep:
                e_names = [e.id for e in n.targets[0].elts]
        if q_names is None or e_names is None or len(q_names) != 3 or len(e_names) != 3:
            raise AnalysisError("Palette.match: cannot find the component unpacks of the query colour and the palette entry")
        pairs = 0
        for n in ast.walk(keyfn):
            if isinstance(n, ast.BinOp) and isinstance(n.op, (ast.Sub, ast.Add)) and isinstance(n.left, ast.Name) and isinstance(n.right, ast.Name):
                l, r_ = n.left.id, n.right.id
                if (l in q_names and r_ in e_names) or (l in e_names and r_ in q_names):
                    qi = q_names.index(l) if l in q_names else q_names.index(r_)
                    ei = e_names.index(r_) if r_ in e_names else e_names.index(l)
                    pairs += 1
                    ctx.check(qi == ei, f.fq, norm(n), f"{f.module.relpath}:{n.lineno}", f"component {qi} of the query paired with component {ei} of the entry",
                              f"distance mixes component {qi} of the query with component {ei} of the palette entry: `{norm(n)}`")
        ctx.floor(pairs, 3, "component differences in the distance closure")
        return True

    # shape B2:  L = [D(entry) for entry in self._colors];  return L.index(min(L))   (D takes the entry itself)
    if mincall is None and shape_b is not None:
        lc_ = shape_b[1]
        g_ = lc_.generators[0]
        if norm(g_.iter) == "self._colors" and isinstance(lc_.elt, ast.Call) and isinstance(lc_.elt.func, ast.Name) and len(lc_.elt.args) == 1 and norm(lc_.elt.args[0]) == norm(g_.target) and not g_.ifs:
            if any(isinstance(n, ast.FunctionDef) and n.name == lc_.elt.func.id for n in walk_local(f.node)):
                if _entry_keyfn_check(lc_.elt.func.id, shape_b[0], None):
                    return
    # shape D:  index, _d = min(enumerate(<D(entry) for every entry of self._colors, in order>), key=<second item>)
    # (first minimum by distance; enumerate numbers the entries from 0 - the element min(range, key=..) picks)
    if mincall is None and shape_b is None:
        for x in walk_local(f.node):
            if not (isinstance(x, ast.Assign) and isinstance(x.targets[0], ast.Tuple) and len(x.targets[0].elts) == 2 and isinstance(x.value, ast.Call) and call_name(x.value) == "min" and len(x.value.args) == 1):
                continue
            en_ = x.value.args[0]
            key_ = next((k.value for k in x.value.keywords if k.arg == "key"), None)
            key_ok = key_ is not None and (norm(key_) in ("itemgetter(1)", "operator.itemgetter(1)") or (isinstance(key_, ast.Lambda) and isinstance(key_.body, ast.Subscript) and norm(key_.body.slice) == "1"))
            if not (isinstance(en_, ast.Call) and call_name(en_) == "enumerate" and len(en_.args) == 1 and not en_.keywords and key_ok):
                continue
            from ..astutil import inline as _inl185, single_defs as _sdf185
            it_ = _inl185(en_.args[0], _sdf185(f.node))
            dname = None
            if isinstance(it_, ast.Call) and call_name(it_) == "map" and len(it_.args) == 2 and isinstance(it_.args[0], ast.Name) and norm(it_.args[1]) == "self._colors":
                dname = it_.args[0].id
            elif isinstance(it_, (ast.GeneratorExp, ast.ListComp)) and len(it_.generators) == 1 and not it_.generators[0].ifs and norm(it_.generators[0].iter) == "self._colors" and isinstance(it_.elt, ast.Call) and isinstance(it_.elt.func, ast.Name) and len(it_.elt.args) == 1 and norm(it_.elt.args[0]) == norm(it_.generators[0].target):
                dname = it_.elt.func.id
            idxname = norm(x.targets[0].elts[0])
            if dname is None or not any(isinstance(r.value, ast.Name) and r.value.id == idxname for r in rets):
                continue
            if _entry_keyfn_check(dname, x, idxname):
                return
            continue
    # an explicit search loop (running minimum kept in locals that are re-assigned inside a for loop) is another algorithm: not read here
    loop_assigned = {t.id for lp_ in walk_local(f.node) if isinstance(lp_, (ast.For, ast.While)) for x_ in ast.walk(lp_) if isinstance(x_, ast.Assign) for t in x_.targets if isinstance(t, ast.Name)}
    for r in rets:
        if isinstance(r.value, ast.Name) and r.value.id in loop_assigned:
            raise AnalysisError(f"Palette.match: `{norm(r)}` returns a value maintained by an explicit search loop; R18.5 interprets min(range(..), key=..), list.index(min(..)) and min((distance, index) ..) only")
    if mincall is None and shape_b is None:
        for r in rets:
            v = r.value
            if isinstance(v, ast.Name) and len(defs.get(v.id, [])) == 1:
                v = defs[v.id][0]
            if isinstance(v, ast.Call) and call_name(v) == "max":
                ctx.violation(f.fq, short(r), f"{f.module.relpath}:{r.lineno}", f"Palette.match returns `{short(v)}`: the entry of MAXIMUM distance, not the nearest one")
                return
        raise AnalysisError(f"Palette.match: the argmin over the palette is not written as min(range(..), key=..), list.index(min(..)), min((distance, index) ..) or min(enumerate(distances), key=second); returns: {[norm(r) for r in rets]}")
    ctx.check(not other, f.fq, "return min(...)", f.where, "match returns the result of builtin min (or a cached copy of it)",
              f"Palette.match returns something other than the builtin min(...) over the palette indices: {other}")
    if shape_b is not None:
        lc = shape_b[1]
        ge = lc.generators[0]
        ok = isinstance(ge.iter, ast.Call) and call_name(ge.iter) == "range" and len(ge.iter.args) == 1 and norm(ge.iter.args[0]) == "len(self._colors)" and isinstance(ge.target, ast.Name)
        ctx.check(ok, f.fq, short(lc), f"{f.module.relpath}:{lc.lineno}", "one distance per index of self._colors, in index order",
                  f"the distances are computed over `{norm(ge.iter)}`, not over range(len(self._colors)): list positions are not palette indices")
        el = lc.elt
        D = f.module.functions.get(el.func.id) if isinstance(el, ast.Call) and isinstance(el.func, ast.Name) else None
        if not ok or D is None:
            raise AnalysisError("Palette.match: the list of distances is not built by a module-level distance function")
        q_names = None
        for n in walk_local(f.node):
            if isinstance(n, ast.Assign) and isinstance(n.targets[0], ast.Tuple) and norm(n.value) == color_p:
                q_names = [x.id for x in n.targets[0].elts]
        aliases = {k: v[0] for k, v in defs.items() if len(v) == 1}
        qpos, epos = {}, None
        for i, a in enumerate(el.args):
            if isinstance(a, ast.Name) and q_names and a.id in q_names:
                qpos[q_names.index(a.id)] = D.params[i]
            else:
                callee = a.func if isinstance(a, ast.Call) else (a.value if isinstance(a, ast.Subscript) else None)
                if isinstance(callee, ast.Name) and callee.id in aliases:
                    callee = aliases[callee.id]
                arg0 = (a.args[0] if isinstance(a, ast.Call) and a.args else (a.slice if isinstance(a, ast.Subscript) else None))
                if callee is not None and "self._colors" in norm(callee) and arg0 is not None and norm(arg0) == ge.target.id:
                    epos = D.params[i]
        if q_names is None or len(qpos) != 3 or epos is None:
            raise AnalysisError("Palette.match: cannot relate the arguments of the distance function to the query components and the palette entry")
        dq = [qpos[0], qpos[1], qpos[2]]
        de = None
        for n in walk_local(D.node):
            if isinstance(n, ast.Assign) and isinstance(n.targets[0], ast.Tuple) and norm(n.value) == epos:
                de = [x.id for x in n.targets[0].elts]
        if de is None or len(de) != 3:
            raise AnalysisError("Palette.match: the distance function does not unpack the palette entry into three components")
        pairs = 0
        for n in ast.walk(D.node):
            if isinstance(n, ast.BinOp) and isinstance(n.op, (ast.Sub, ast.Add)) and isinstance(n.left, ast.Name) and isinstance(n.right, ast.Name):
                l, r_ = n.left.id, n.right.id
                if (l in dq and r_ in de) or (l in de and r_ in dq):
                    qi = dq.index(l) if l in dq else dq.index(r_)
                    ei = de.index(r_) if r_ in de else de.index(l)
                    pairs += 1
                    ctx.check(qi == ei, D.fq, norm(n), f"{f.module.relpath}:{n.lineno}", f"component {qi} of the query paired with component {ei} of the entry",
                              f"distance mixes component {qi} of the query with component {ei} of the palette entry: `{norm(n)}`")
        ctx.floor(pairs, 3, "component differences in the distance function")
        gi = ctx.repo.cls("palette:Palette").method("__getitem__")
        if gi is not None:
            r2 = [x for x in walk_local(gi.node) if isinstance(x, ast.Return)]
            ok = len(r2) == 1 and "self._colors[" + gi.params[1] + "]" in norm(r2[0].value)
            ctx.check(ok, gi.fq, norm(r2[0]) if r2 else "?", gi.where, "palette[n] is entry n", "Palette.__getitem__ does not return entry `number`")
        return
    it = mincall.args[0] if mincall.args else None
    ok = isinstance(it, ast.Call) and call_name(it) == "range" and len(it.args) == 1 and norm(it.args[0]) == "len(self._colors)"
    ctx.check(ok, f.fq, short(mincall), f"{f.module.relpath}:{mincall.lineno}", "min ranges over every index of self._colors",
              f"min ranges over `{norm(it) if it is not None else None}`, not over range(len(self._colors)): some entries can never be picked")
    key = None
    for k in mincall.keywords:
        if k.arg == "key":
            key = k.value
    keyfn = None
    if isinstance(key, ast.Name):
        for n in walk_local(f.node):
            if isinstance(n, ast.FunctionDef) and n.name == key.id:
                keyfn = n
    ctx.check(keyfn is not None, f.fq, "key=distance closure", f.where, "min is keyed by a local distance function", "min has no local distance function as key")
    if keyfn is None:
        return
    # component pairing
    q_names = e_names = None
    for n in walk_local(f.node):
        if isinstance(n, ast.Assign) and isinstance(n.targets[0], ast.Tuple) and norm(n.value) == color_p:
            q_names = [x.id for x in n.targets[0].elts]
    idx = keyfn.args.args[0].arg
    aliases = {k: v[0] for k, v in defs.items() if len(v) == 1}
    for n in ast.walk(keyfn):
        if isinstance(n, ast.Assign) and isinstance(n.targets[0], ast.Tuple) and isinstance(n.value, ast.Call) and len(n.value.args) == 1 and norm(n.value.args[0]) == idx:
            callee = n.value.func
            if isinstance(callee, ast.Name) and callee.id in aliases:
                callee = aliases[callee.id]
            if "self._colors" in norm(callee):
                e_names = [x.id for x in n.targets[0].elts]
    if q_names is None or e_names is None or len(q_names) != 3 or len(e_names) != 3:
        raise AnalysisError("Palette.match: cannot find the component unpacks of the query colour and the palette entry")
    pairs = 0
    for n in ast.walk(keyfn):
        if isinstance(n, ast.BinOp) and isinstance(n.op, (ast.Sub, ast.Add)) and isinstance(n.left, ast.Name) and isinstance(n.right, ast.Name):
            l, r = n.left.id, n.right.id
            if (l in q_names and r in e_names) or (l in e_names and r in q_names):
                qi = q_names.index(l) if l in q_names else q_names.index(r)
                ei = e_names.index(r) if r in e_names else e_names.index(l)
                pairs += 1
                ctx.check(qi == ei, f.fq, norm(n), f"{f.module.relpath}:{n.lineno}", f"component {qi} of the query paired with component {ei} of the entry",
                          f"distance mixes component {qi} of the query with component {ei} of the palette entry: `{norm(n)}`")
    ctx.floor(pairs, 3, "component differences in the distance closure")
    # the distance returned is monotone in the accumulated sum: sqrt(...) of a sum containing all three squared differences
    # Palette.__getitem__ -> ColorTriplet(*self._colors[number])
    gi = ctx.repo.cls("palette:Palette").method("__getitem__")
    if gi is not None:
        r = [x for x in walk_local(gi.node) if isinstance(x, ast.Return)]
        ok = len(r) == 1 and "self._colors[" + gi.params[1] + "]" in norm(r[0].value)
        ctx.check(ok, gi.fq, norm(r[0]) if r else "?", gi.where, "palette[n] is entry n", "Palette.__getitem__ does not return entry `number`")


def r18_7(ctx):
    ctx.rule("R18.7", "every site that builds a numbered Color classifies the number the same way: STANDARD exactly for the 16 indices of the standard palette, EIGHT_BIT above (evaluated for n = 0..255 at each site)")
    it = _interp(ctx)
    from ..absint import Path
    cm = ctx.repo.mod("color")
    nstd = len(literal(ctx.repo.mod("_palettes").global_assign("STANDARD_PALETTE").args[0]))
    sites = 0
    for fn in cm.functions.values():
        if cm.in_main_guard(fn.node):
            continue
        for n in walk_local(fn.node):
            if not isinstance(n, ast.Call):
                continue
            kw = {k.arg: k.value for k in n.keywords if k.arg}
            t, num = kw.get("type"), kw.get("number")
            if isinstance(t, ast.Name):
                # a temporary holding the classification
                from ..astutil import single_defs as _sdf
                t = _sdf(fn.node).get(t.id, t)
            if t is None or num is None or not isinstance(t, ast.IfExp) or not isinstance(num, ast.Name):
                continue
            sites += 1
            wrong = []
            for v in range(256):
                res = it.eval(t, Path({num.id: IntIv(v, v)}, []))
                names = {r.name if isinstance(r, EnumV) else repr(r) for r, _p in res}
                want = "STANDARD" if v < nstd else "EIGHT_BIT"
                if names != {want}:
                    wrong.append((v, sorted(names)))
            ctx.check(not wrong, fn.fq, f"type={short(t)}", f"{cm.relpath}:{n.lineno}", f"numbers 0..{nstd - 1} -> STANDARD, {nstd}..255 -> EIGHT_BIT",
                      f"colour number classification differs from the 16-entry standard palette at n={wrong[:3]}: the same number gets a different type (and compares unequal / indexes the wrong palette) depending on how the colour was built")
    ctx.floor(sites, 1, "numbered Color construction sites")


def r18_6(ctx):
    from .common import memo_rule
    memo_rule(ctx, "R18.6", ["color", "palette", "color_triplet", "_palettes"], 4)


_METRIC_REF = "(((512 + (q0 + e0) // 2) * (q0 - e0) * (q0 - e0)) >> 8) + 4 * (q1 - e1) * (q1 - e1) + (((767 - (q0 + e0) // 2) * (q2 - e2) * (q2 - e2)) >> 8)"
_MONOTONE = ("sqrt", "math.sqrt")  # STRICTLY increasing on the non-negative integers met here
_COARSE = ("isqrt", "math.isqrt", "int", "round", "floor", "math.floor", "ceil", "math.ceil")  # non-decreasing only: they create ties


def r18_8(ctx):
    ctx.rule("R18.8", "the distance minimised by Palette.match IS Rich's weighted-RGB metric: after inlining its temporaries and stripping the monotone sqrt, the distance closure's result has the same integer-polynomial normal form as ((512+rm)*dr^2 >> 8) + 4*dg^2 + ((767-rm)*db^2 >> 8) with rm = (r1+r2)//2 (x>>8 and x//256 identified, products expanded); leaving integer arithmetic (true division, float weights) or other weights changes which of two near-equidistant entries wins")
    from .. import poly
    from ..astutil import inline as _inl, single_defs as _sdf
    f = _argmin_loop_normal_form(ctx.repo.fn("palette:Palette.match"))
    m = f.module
    color_p = f.params[1]
    q_names = None
    for n in walk_local(f.node):
        if isinstance(n, ast.Assign) and isinstance(n.targets[0], ast.Tuple) and norm(n.value) == color_p and len(n.targets[0].elts) == 3:
            q_names = [norm(e) for e in n.targets[0].elts]
    # candidate distance functions: closures of match, or module-level helpers it calls (parameters bound to the call's arguments)
    keyfns = [(n, {}) for n in ast.walk(f.node) if isinstance(n, ast.FunctionDef) and n is not f.node]
    for c in walk_local(f.node):
        if isinstance(c, ast.Call) and isinstance(c.func, ast.Name):
            g = m.functions.get(c.func.id)
            if g is not None and g.cls is None and g.parent is None and not c.keywords and len(c.args) == len(g.node.args.args):
                keyfns.append((g.node, dict(zip([a.arg for a in g.node.args.args], c.args))))
    cands = []
    for k, binding in keyfns:
        e_names = None
        qn = list(q_names) if q_names else None
        pre = {}
        for pname, arg in binding.items():
            if q_names and isinstance(arg, ast.Name) and arg.id in q_names:
                pre[pname] = q_names.index(arg.id)
        for n in ast.walk(k):
            if isinstance(n, ast.Assign) and isinstance(n.targets[0], ast.Tuple) and len(n.targets[0].elts) == 3:
                src = n.value
                if isinstance(src, ast.Name) and src.id in binding:
                    src = binding[src.id]
                if norm(src) == color_p:
                    qn = [norm(e) for e in n.targets[0].elts]
                else:
                    e_names = [norm(e) for e in n.targets[0].elts]
        rets = [r for r in ast.walk(k) if isinstance(r, ast.Return) and r.value is not None]
        if pre and len(pre) == 3:
            qn = [None, None, None]
            for pname, i in pre.items():
                qn[i] = pname
        if e_names and qn and all(qn) and len(rets) == 1:
            cands.append((k, qn, e_names, rets[0]))
    if len(cands) != 1:
        raise AnalysisError("Palette.match: cannot find the single distance function with 3-component query and entry unpacks")
    k, q_names, e_names, ret = cands[0]
    sd = {a: b for a, b in _sdf(k).items() if a not in e_names and a not in q_names}
    expr = _inl(ret.value, sd)
    from ..astutil import alias_map as _am188, expand_alias as _ea188
    al188 = dict(_am188(f.node))
    al188.update(_am188(k))

    def fname(e):
        nm = norm(_ea188(e.func, al188)) if isinstance(e.func, ast.Name) else norm(e.func)
        imp = m.imports.get(nm) if hasattr(m, "imports") else None
        if imp and len(imp) >= 2 and imp[1]:
            nm = imp[1]  # `from math import isqrt as sqrt`: the imported object, not its local name
        return nm
    while isinstance(expr, ast.Call) and len(expr.args) == 1 and not expr.keywords and fname(expr) in _MONOTONE + _COARSE:
        if fname(expr) in _COARSE:
            ctx.violation(f.fq, short(ret), f"{m.relpath}:{ret.lineno}", f"the distance is passed through `{fname(expr)}`, which is non-decreasing but not strictly increasing: palette entries at different distances get the same value, and min() then keeps the one with the lower index even when it is farther away - for some colours downgrade() does not return the nearest entry (a strictly increasing function such as sqrt, or no function at all, keeps the order)")
            return
        expr = _inl(expr.args[0], sd)
    env = {}
    for i in range(3):
        env[q_names[i]] = poly.var(f"q{i}")
        env[e_names[i]] = poly.var(f"e{i}")
    ref = poly.of_expr(ast.parse(_METRIC_REF, mode="eval").body)
    where = f"{m.relpath}:{ret.lineno}"
    try:
        got = poly.of_expr(expr, env)
    except poly.NotInteger as ex:
        ctx.violation(f.fq, short(ret), where, f"the distance leaves integer arithmetic ({ex}): without the two floor operations of Rich's metric ((..)>>8) the order of two palette entries whose integer distances differ by 1 can flip, so for some colours downgrade() no longer returns the entry of minimum distance under the metric")
        return
    except poly.Unsupported as ex:
        raise AnalysisError(f"Palette.match: distance expression not in the integer-polynomial fragment ({ex}): `{short(ret)}`")
    free = {a for mono in got for a in mono if isinstance(a, str)} - {f"q{i}" for i in range(3)} - {f"e{i}" for i in range(3)}
    if free:
        raise AnalysisError(f"Palette.match: distance expression depends on names that are neither query nor entry components: {sorted(free)}")
    if got == ref:
        ctx.ok(where, "distance == Rich's integer weighted-RGB metric (normal forms equal)", f.fq)
        return
    # normal forms differ: look for a witness that the two distances ORDER two palette entries differently for some colour
    # (exact evaluation of the two normal forms - terms of the checker, not code of the package - at integer points; a monotone
    # re-scaling of the metric orders every pair the same way and yields no witness)
    import random
    pal = []
    for pname in ("STANDARD_PALETTE", "WINDOWS_PALETTE"):
        try:
            pal.append([tuple(t) for t in literal(ctx.repo.mod("_palettes").global_assign(pname).args[0])])
        except Exception:
            pass
    if not pal:
        raise AnalysisError("R18.8: palettes not readable for the order comparison")
    rng = random.Random(int(os.environ.get("VERIF_SEED", "0") or 0))
    sign = lambda x: (x > 0) - (x < 0)
    witness = None
    for trial in range(60000):
        entries = pal[trial % len(pal)]
        q = (rng.randrange(256), rng.randrange(256), rng.randrange(256))
        i, j = rng.sample(range(len(entries)), 2)
        d = []
        for e in (entries[i], entries[j]):
            env_ = {"q0": q[0], "q1": q[1], "q2": q[2], "e0": e[0], "e1": e[1], "e2": e[2]}
            d.append((poly.evaluate(ref, env_), poly.evaluate(got, env_)))
        if sign(d[0][0] - d[1][0]) != sign(d[0][1] - d[1][1]):
            witness = (q, entries[i], entries[j], d)
            break
    if witness is not None:
        q, e1, e2, d = witness
        ctx.violation(f.fq, short(ret), where, f"the distance is not Rich's metric and orders palette entries differently: for rgb{q} Rich's metric gives {d[0][0]} to {e1} and {d[1][0]} to {e2}, this expression {d[0][1]} and {d[1][1]} - the nearest entry changes. got: {poly.show(got)}")
        return
    raise AnalysisError(f"Palette.match: cannot show the distance equal to Rich's metric, and no colour was found that it orders differently: {poly.show(got)}")


def r18_9(ctx):
    from ..yieldpaths import Unsupported, paths_of, resolve, select, show
    ctx.rule("R18.9", "the nearest entry is searched for the colour itself: on every path of Color.downgrade to a 16-colour system (path normal form, temporaries inlined) a truecolor source returns Color(.., number=<target palette>.match(self.triplet)) - the unmodified triplet, one search - and an 8-bit source matches ColorTriplet(*EIGHT_BIT_PALETTE[self.number]) (or keeps its number where the branch says so); a triplet that was masked / rounded first, or a detour through another conversion (truecolor -> 256 -> 16 quantises twice), picks an entry that is not the nearest one under the metric")
    f = ctx.repo.fn("color:Color.downgrade")
    m = f.module
    try:
        P = [resolve(p_) for p_ in paths_of(f.node)]
    except Unsupported as u:
        raise AnalysisError(f"Color.downgrade uses a statement the path normal form does not cover ({u})")
    n = 0
    for target, pal in (("STANDARD", "STANDARD_PALETTE"), ("WINDOWS", "WINDOWS_PALETTE")):
        for src, want_arg in (("TRUECOLOR", "self.triplet"), ("EIGHT_BIT", "ColorTriplet(*EIGHT_BIT_PALETTE[self.number])")):
            scen = {f"system == ColorSystem.{target}": True, "self.system == ColorSystem.TRUECOLOR": src == "TRUECOLOR", "self.type == ColorType.DEFAULT": False, "self.type == system": False}
            for other in ("STANDARD", "WINDOWS", "EIGHT_BIT", "TRUECOLOR"):
                if other != target:
                    scen[f"system == ColorSystem.{other}"] = False
            sel = select(P, scen)
            if not sel:
                raise AnalysisError(f"Color.downgrade: no path for {src} -> {target}")
            for p_ in sel:
                rets = [e for e in p_ if e[0] == "return"]
                n += 1
                where = f.where
                if len(rets) != 1:
                    raise AnalysisError(f"Color.downgrade: path without a single return: {show(p_)[:200]}")
                try:
                    e = ast.parse(rets[0][1], mode="eval").body
                except SyntaxError:
                    raise AnalysisError(f"Color.downgrade: unreadable return `{rets[0][1][:80]}`")
                matches = [c for c in ast.walk(e) if isinstance(c, ast.Call) and isinstance(c.func, ast.Attribute) and c.func.attr == "match"]
                if not matches:
                    if src == "EIGHT_BIT" and isinstance(e, ast.Call) and norm(e.func) == "Color" and kwarg(e, "number") is not None and norm(kwarg(e, "number")) == "self.number":
                        ctx.ok(where, f"{src}->{target}: the number is kept on this branch (R18.1-3 decides the gamut)", f.fq)
                        continue
                    ctx.violation(f.fq, rets[0][1][:120], where, f"{src} -> {target}: `return {rets[0][1][:120]}` does not search the {target.lower()} palette for the colour itself" + (" - the colour is first converted to another system and that result is converted again, i.e. quantised twice: #ff8800 ends on 11 instead of 9" if "downgrade" in rets[0][1] else ""))
                    continue
                c = matches[0]
                if not norm(c.func.value).endswith("_PALETTE"):
                    raise AnalysisError(f"Color.downgrade: the palette searched on the {src} -> {target} path is `{norm(c.func.value)}`, not resolved to a palette constant")
                okp = norm(c.func.value) == pal
                oka = len(c.args) == 1 and norm(c.args[0]) == want_arg
                if not oka and len(c.args) == 1 and isinstance(c.args[0], ast.Call) and isinstance(c.args[0].func, ast.Attribute) and norm(c.args[0].func.value) == "self" and not c.args[0].args and not c.args[0].keywords:
                    # a helper method that picks the triplet: every return of it that is consistent with the source kind must be the wanted triplet
                    h = ctx.repo.cls("color:Color").method(c.args[0].func.attr)
                    if h is None:
                        raise AnalysisError(f"Color.downgrade: helper `{norm(c.args[0])}` not found")
                    try:
                        HP = [resolve(hp) for hp in paths_of(h.node)]
                    except Unsupported as u:
                        raise AnalysisError(f"Color.{h.node.name}: outside the path normal form ({u})")
                    hs = select(HP, {"self.system == ColorSystem.TRUECOLOR": src == "TRUECOLOR", "self.system != ColorSystem.TRUECOLOR": src != "TRUECOLOR", "self.system == ColorSystem.EIGHT_BIT": src == "EIGHT_BIT"})
                    hrets = [e_[1] for hp in hs for e_ in hp if e_[0] == "return"]
                    if not hrets:
                        raise AnalysisError(f"Color.{h.node.name}: no return consistent with a {src} source")
                    oka = all(r_ == want_arg for r_ in hrets)
                    if not oka:
                        ctx.violation(f.fq, short(c), where, f"{src} -> {target}: the helper `{norm(c.args[0])}` hands the palette search {sorted(set(hrets))} instead of `{want_arg}`")
                        continue
                if not okp:
                    ctx.violation(f.fq, short(c), where, f"{src} -> {target}: the search runs over `{norm(c.func.value)}`, not over {pal}")
                elif not oka:
                    ctx.violation(f.fq, short(c), where, f"{src} -> {target}: the palette is searched for `{norm(c.args[0]) if c.args else ''}` instead of `{want_arg}`: a modified triplet has a different nearest entry for colours near a decision boundary (rgb(0,34,85) -> 0 where 8 is nearer)")
                else:
                    ctx.ok(where, f"{src}->{target}: {pal}.match({want_arg})", f.fq)
    ctx.floor(n, 4, "paths of Color.downgrade to a 16-colour system")


def r18_10(ctx):
    ctx.rule("R18.10", "the grey step is the documented one: in the truecolor -> 256 branch of Color.downgrade the step on the 24-grey ramp is `round(l * 25.0)` of the lightness - Python's round(), ties to even. `int(x + 0.5)` / `floor(x + 0.5)` round ties up and give the next step for lightness values exactly half way (rgb(127,128,127): 244 instead of 243); `int(x)` truncates. Both still land on the ramp (R18.1-3), so only this clause notices them")
    f = ctx.repo.fn("color:Color.downgrade")
    from ..astutil import inline as _inl, single_defs as _sdf
    sd = _sdf(f.node)
    cands = []
    for x in walk_local(f.node):
        if isinstance(x, ast.Assign) and len(x.targets) == 1 and isinstance(x.targets[0], ast.Name):
            v = x.value
            txt = norm(v)
            if ("25" in txt) and any(isinstance(y, ast.Name) and y.id in ("l", "lightness", "light") for y in ast.walk(v)) and not any(isinstance(y, ast.Compare) for y in ast.walk(v)):
                cands.append(x)
    if not cands:
        raise AnalysisError("Color.downgrade: the grey-step computation (lightness * 25) was not found; written differently, the rounding clause is not decided")
    for x in cands:
        v = x.value
        where = f"{f.module.relpath}:{x.lineno}"
        if isinstance(v, ast.Call) and norm(v.func) == "round" and len(v.args) == 1:
            ctx.ok(where, f"`{short(x)}`: builtin round (ties to even)", f.fq)
        elif isinstance(v, ast.Call) and norm(v.func) in ("int", "math.floor", "floor", "math.ceil", "ceil", "math.trunc"):
            ctx.violation(f.fq, short(x), where, f"`{short(x)}` does not round the grey step the documented way (round(lightness * 25), ties to even): on exact ties (rgb(127,128,127), rgb(25,26,25) ..) the colour written to a 256-colour terminal is the neighbouring grey")
        else:
            raise AnalysisError(f"Color.downgrade: `{short(x)}` - cannot tell how the grey step is rounded")


RULES = [r18_0, r18_1, r18_4, r18_5, r18_6, r18_7, r18_8, r18_9, r18_10]
