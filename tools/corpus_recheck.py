#!/venv/bin/python
"""Maintenance tool: re-run every check on every committed corpus patch, applied IN MEMORY (sa.patchvariants).
 - seeded/<id>/meta.json gets fresh `checks_fired` / `checks_analysis_error` (violation lines only); the confirmation fields
   (demo, tests) written by tools/seed_eval.py are kept.
 - benign/*.patch.diff must be silent on all checks.
usage: corpus_recheck.py [seed|benign] [id-prefix ...]"""
import json
import os
import sys
from concurrent.futures import ProcessPoolExecutor

sys.path.insert(0, "/verif")
from sa.patchvariants import corpus, run_on  # noqa: E402

PROPS = [l.split('"id": "')[1][:3] for l in open("/verif/properties.jsonl")]


def job(args):
    cid, kind, text, prop = args
    return cid, kind, prop, run_on(prop, text)


def main(argv):
    kinds = {a for a in argv if a in ("seed", "benign")} or {"seed", "benign"}
    pref = [a for a in argv if a not in ("seed", "benign")]
    items = [(cid, kind, text, meta) for cid, kind, text, meta in corpus() if kind in kinds and (not pref or any(cid.startswith(p) for p in pref))]
    jobs = [(cid, kind, text, p) for cid, kind, text, _m in items for p in PROPS]
    res = {}
    with ProcessPoolExecutor(max_workers=16) as ex:
        for cid, kind, prop, (status, detail) in ex.map(job, jobs, chunksize=4):
            res.setdefault(cid, {})[prop] = (status, detail)
    bad = 0
    for cid, kind, text, meta in items:
        r = res[cid]
        fired = {p: d for p, (s, d) in r.items() if s == "violation"}
        errs = {p: d for p, (s, d) in r.items() if s == "error"}
        stale = any(s == "stale" for s, _d in r.values())
        if kind == "seed":
            own = meta.get("property", cid[:3])
            mp = f"/verif/seeded/{cid}/meta.json"
            if os.path.exists(mp) and not stale:
                m = json.load(open(mp))
                m["checks_fired"] = {p: [d] for p, d in sorted(fired.items())}
                m["checks_analysis_error"] = {p: [d] for p, d in sorted(errs.items())}
                m["detected_by_own_property_check"] = own in fired
                m["rechecked"] = "tools/corpus_recheck.py: patch applied in memory to the current /repo source, all 20 checks"
                json.dump(m, open(mp, "w"), indent=1)
            tag = "STALE" if stale else ("caught" if fired else ("ERROR-ONLY" if errs else "MISSED"))
            if tag in ("MISSED", "ERROR-ONLY"):
                bad += 1
            print(f"{cid:8} seed   {tag:10} fired={sorted(fired)} errors={sorted(errs)}")
        else:
            tag = "STALE" if stale else ("silent" if not fired and not errs else "FALSE-ALARM")
            if tag == "FALSE-ALARM":
                bad += 1
            print(f"{cid:8} benign {tag:11} " + (json.dumps({**fired, **errs})[:400] if tag == "FALSE-ALARM" else ""))
    if "benign" in kinds and not pref:
        st = {}
        for cid, kind, text, meta in items:
            if kind != "benign":
                continue
            r = res[cid]
            fired = sorted(p for p, (s_, _d) in r.items() if s_ == "violation")
            errs = sorted(p for p, (s_, _d) in r.items() if s_ == "error")
            st[cid] = "silent" if not fired and not errs else (("VIOLATION " + ",".join(fired) + " ") if fired else "") + (("cannot decide (exit 2): " + ",".join(errs)) if errs else "")
        json.dump(st, open("/verif/benign/status.json", "w"), indent=1, sort_keys=True)
    print(f"{len(items)} corpus entries, {bad} need attention")


if __name__ == "__main__":
    main(sys.argv[1:])
