"""Sensitivity sweep: in-memory variants of the current source (never written to disk, never
executed) on which a property's rules must fire (breaking variants) or stay silent (benign
variants).  A rule that stays silent on its own broken instance is vacuous.

Used by the thorough tier of every check and by `python -m sa.selftest`.
"""
from __future__ import annotations

import os
from typing import Dict, List, Optional, Tuple

from .index import Repo, REPO_ROOT

# (id, property, file, old, new, expected rule prefix or None for benign)
Variant = Tuple[str, str, str, str, str, Optional[str]]

VARIANTS: List[Variant] = []


def V(id_, prop, file, old, new, rule):
    VARIANTS.append((id_, prop, file, old, new, rule))


def load_catalogue():
    if VARIANTS:
        return VARIANTS
    from . import sweep_catalogue  # noqa: F401  (fills VARIANTS)
    return VARIANTS


def apply_variant(v: Variant, root: Optional[str] = None) -> Optional[Dict[str, str]]:
    """overrides dict for Repo, or None if the variant does not apply to the current tree (stale)."""
    _id, _prop, file, old, new, _rule = v
    path = os.path.join(root or REPO_ROOT, file)
    try:
        src = open(path, encoding="utf-8").read()
    except OSError:
        return None
    pairs = old if isinstance(old, list) else [(old, new)]
    for o, n in pairs:
        if src.count(o) != 1:
            return None
        src = src.replace(o, n)
    return {file: src}


def run_variant(v: Variant) -> Tuple[str, str, str]:
    """(id, status, detail); status in detected / missed / silent / false-alarm / stale / error."""
    from .check import run_property

    vid, prop, file, old, new, rule = v
    ov = apply_variant(v)
    if ov is None:
        return vid, "stale", "pattern not found exactly once in " + file
    try:
        repo = Repo(overrides=ov)
    except Exception as e:
        return vid, "error", f"variant does not parse: {e}"
    ctx = run_property(prop, "quick", repo=repo, quiet=True, write_evidence=False)
    fired = [x for x in ctx.unlisted]
    if rule is None:
        if ctx.exit_code == 0:
            return vid, "silent", ""
        if ctx.exit_code == 2:
            return vid, "false-alarm", "ANALYSIS-ERROR on a behaviour-preserving variant: " + "; ".join(ctx.errors[:2])
        return vid, "false-alarm", "; ".join(f"{x.rule} {x.function}: {x.message[:120]}" for x in fired[:2])
    if ctx.exit_code == 1 and any(x.rule.startswith(rule) for x in fired):
        return vid, "detected", "; ".join(f"{x.rule} {x.where}" for x in fired if x.rule.startswith(rule))[:200]
    if ctx.exit_code == 1:
        return vid, "detected-other", "; ".join(f"{x.rule} {x.where}" for x in fired)[:200]
    if ctx.exit_code == 2:
        return vid, "missed", "ANALYSIS-ERROR instead of a violation: " + "; ".join(ctx.errors[:2])
    return vid, "missed", "no rule fired"


def sweep_property(ctx) -> None:
    """Thorough tier: run every catalogue variant of ctx.prop; record results in ctx."""
    from concurrent.futures import ProcessPoolExecutor

    cat = [v for v in load_catalogue() if v[1] == ctx.prop]
    ctx.rule("SWEEP", "sensitivity sweep: each rule instance broken in an in-memory variant of the current source must be reported by the named rule; behaviour-preserving variants must stay silent")
    if not cat:
        ctx.note("no sweep variants catalogued for this property")
        return
    # only meaningful on a tree where the property currently holds
    results = []
    workers = min(16, len(cat))
    try:
        with ProcessPoolExecutor(max_workers=workers) as ex:
            results = list(ex.map(run_variant, cat))
    except Exception:
        results = [run_variant(v) for v in cat]
    counts: Dict[str, int] = {}
    for (vid, status, detail), v in zip(results, cat):
        counts[status] = counts.get(status, 0) + 1
        where = v[2]
        if status in ("detected", "detected-other", "silent"):
            ctx.ok(where, f"variant {vid}: {status} {detail}")
        elif status == "stale":
            ctx.note(f"variant {vid} stale (source changed): {detail}")
        elif status == "missed":
            if ctx.violations:
                ctx.note(f"variant {vid} not evaluated against a clean baseline (tree already violates): {detail}")
            else:
                ctx.error(f"sweep variant {vid} ({v[5]}) NOT detected - the rule is vacuous for this instance: {detail}")
        elif status == "false-alarm":
            if ctx.violations or ctx.errors:
                ctx.note(f"benign variant {vid} not silent, but the tree itself is not clean: {detail}")
            else:
                ctx.error(f"benign variant {vid} raised an alarm - the rule is too strict: {detail}")
        else:
            ctx.error(f"sweep variant {vid}: {status} {detail}")
    ctx.extra["sweep"] = counts
    ctx.extra["sweep_variants"] = len(cat)


def _corpus_job(args):
    from .patchvariants import run_on
    cid, kind, text, prop = args
    return cid, kind, run_on(prop, text)


def corpus_property(ctx) -> None:
    """Thorough tier, second part: the committed corpora of /verif (sa.patchvariants), applied in memory to the current source.
    Seeded property-breaking changes that this check is recorded to catch (seeded/<id>/meta.json) must still be reported;
    behaviour-preserving refactorings written for this property (benign/<Cxx>-<n>.patch.diff) must stay silent."""
    from concurrent.futures import ProcessPoolExecutor
    from .patchvariants import corpus

    ctx.rule("CORPUS", "committed corpora applied in memory: every seeded change this check is recorded to catch is still reported; every behaviour-preserving refactoring written for this property is silent, and none of those written for the other properties raises a VIOLATION here")
    jobs = []
    for cid, kind, text, meta in corpus():
        if kind == "seed" and ctx.prop in (meta.get("checks_fired") or {}):
            jobs.append((cid, kind, text, ctx.prop))
        elif kind == "benign":
            # refactorings written for OTHER properties count too: they edit shared code and must not alarm this check either
            jobs.append((cid, kind if meta.get("property") == ctx.prop else "benign-other", text, ctx.prop))
    if not jobs:
        ctx.note("no corpus entries for this property")
        return
    try:
        with ProcessPoolExecutor(max_workers=min(16, len(jobs))) as ex:
            results = list(ex.map(_corpus_job, jobs))
    except Exception:
        results = [_corpus_job(j) for j in jobs]
    counts: Dict[str, int] = {}
    dirty = bool(ctx.violations or ctx.errors)
    for cid, kind, (status, detail) in results:
        key = f"{kind}:{status}"
        counts[key] = counts.get(key, 0) + 1
        where = f"/verif/{'seeded/' + cid + '/patch.diff' if kind == 'seed' else 'benign/' + cid + '.patch.diff'}"
        if kind == "benign-other":
            if status == "violation" and not dirty:
                ctx.error(f"behaviour-preserving refactoring {cid} (written for another property) raises an alarm in this check ({detail[:200]}) - the rule is too strict")
            continue
        if status == "stale":
            ctx.note(f"corpus entry {cid} stale (its hunks no longer match the source)")
        elif kind == "seed":
            if status == "violation":
                ctx.ok(where, f"seeded change {cid}: reported ({detail[:160]})")
            elif dirty:
                ctx.note(f"seeded change {cid} not evaluated against a clean baseline: {status} {detail[:120]}")
            else:
                ctx.error(f"seeded change {cid} is no longer reported by this check ({status}: {detail[:160]})")
        else:
            if status == "ok":
                ctx.ok(where, f"behaviour-preserving refactoring {cid}: silent")
            elif status == "error":
                # "cannot decide" (exit 2) on a rewritten algorithm is the honest answer of a structural rule, not a false alarm
                ctx.note(f"refactoring {cid}: ANALYSIS-ERROR (the rewritten code is outside what the rule interprets): {detail[:160]}")
            elif dirty:
                ctx.note(f"refactoring {cid} not silent, but the tree itself is not clean: {status} {detail[:120]}")
            else:
                ctx.error(f"behaviour-preserving refactoring {cid} raises an alarm ({status}: {detail[:200]}) - the rule is too strict")
    ctx.extra["corpus"] = counts
