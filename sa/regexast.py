"""Regex literals as ASTs (re._parser): discovery, normal forms, group structure, digit-only predicates."""
from __future__ import annotations

import ast
import re
from typing import Any, Dict, List, Optional, Tuple

try:
    import re._parser as sre_parse  # py311+
    import re._constants as sre_c
except ImportError:  # pragma: no cover
    import sre_parse
    import sre_constants as sre_c

from .index import AnalysisError, norm


def flags_of(call: ast.Call) -> int:
    """flags argument of re.compile(pattern, flags) evaluated from re.X names."""
    fl = 0
    arg = None
    if len(call.args) > 1:
        arg = call.args[1]
    for k in call.keywords:
        if k.arg == "flags":
            arg = k.value
    if arg is None:
        return 0

    def ev(e):
        if isinstance(e, ast.BinOp) and isinstance(e.op, ast.BitOr):
            return ev(e.left) | ev(e.right)
        if isinstance(e, ast.Attribute):
            return int(getattr(re, e.attr))
        raise AnalysisError(f"regex flags not constant: {norm(e)}")

    return ev(arg)


def compile_call(node: ast.AST) -> Optional[ast.Call]:
    """The re.compile(...) call inside `node` (handles re.compile(..).sub / .match attribute)."""
    for n in ast.walk(node):
        if isinstance(n, ast.Call) and norm(n.func) in ("re.compile", "compile") and n.args and isinstance(n.args[0], ast.Constant) and isinstance(n.args[0].value, str):
            return n
    return None


def parse(pattern: str, flags: int = 0):
    return sre_parse.parse(pattern, flags)


def parse_call(call: ast.Call):
    return parse(call.args[0].value, flags_of(call))


def normal_form(sp, keep_groups: bool = False) -> List[Any]:
    """Token list with capture groups flattened (group structure removed)."""
    out: List[Any] = []
    for op, av in sp:
        name = str(op)
        if op is sre_c.SUBPATTERN:
            group, add, dele, sub = av
            inner = normal_form(sub, keep_groups)
            if keep_groups and group is not None:
                out.append(("GROUP", group, inner))
            else:
                out.extend(inner)
        elif op in (sre_c.MAX_REPEAT, sre_c.MIN_REPEAT):
            lo, hi, sub = av
            out.append((name, lo, int(hi) if hi != sre_c.MAXREPEAT else "inf", tuple(map(_freeze, normal_form(sub, keep_groups)))))
        elif op is sre_c.BRANCH:
            _, alts = av
            out.append((name, tuple(tuple(map(_freeze, normal_form(a, keep_groups))) for a in alts)))
        elif op is sre_c.IN:
            out.append((name, tuple(sorted(_freeze(x) for x in _norm_in(av)))))
        elif op is sre_c.LITERAL:
            out.append((name, av))
        else:
            out.append((name, _freeze(av)))
    return out


def _norm_in(items):
    res = []
    for op, av in items:
        res.append((str(op), _freeze(av)))
    return res


def _freeze(x):
    if isinstance(x, (list, tuple)):
        return tuple(_freeze(i) for i in x)
    if hasattr(x, "data"):
        return tuple(_freeze(i) for i in x.data)
    if isinstance(x, (int, str)) or x is None:
        return x
    return str(x)


def group_count(sp) -> int:
    return sp.state.groups - 1


def group_subpattern(sp, index: int):
    """The sub-pattern of capture group `index` (1-based)."""
    found = [None]

    def walk(s):
        for op, av in s:
            if op is sre_c.SUBPATTERN:
                group, add, dele, sub = av
                if group == index:
                    found[0] = sub
                walk(sub)
            elif op in (sre_c.MAX_REPEAT, sre_c.MIN_REPEAT):
                walk(av[2])
            elif op is sre_c.BRANCH:
                for a in av[1]:
                    walk(a)

    walk(sp)
    return found[0]


def chars_of(sp) -> Optional[set]:
    """Set of characters a sub-pattern can consume (None if unbounded / not enumerable);
    returned as a set of (kind, value) atoms: ('lit', ch) / ('cat', name) / ('range', lo, hi)."""
    out = set()

    def walk(s) -> bool:
        for op, av in s:
            if op is sre_c.LITERAL:
                out.add(("lit", chr(av)))
            elif op is sre_c.IN:
                for o2, a2 in av:
                    if o2 is sre_c.LITERAL:
                        out.add(("lit", chr(a2)))
                    elif o2 is sre_c.RANGE:
                        out.add(("range", chr(a2[0]), chr(a2[1])))
                    elif o2 is sre_c.CATEGORY:
                        out.add(("cat", str(a2)))
                    elif o2 is sre_c.NEGATE:
                        return False
                    else:
                        return False
            elif op in (sre_c.MAX_REPEAT, sre_c.MIN_REPEAT):
                if not walk(av[2]):
                    return False
            elif op is sre_c.SUBPATTERN:
                if not walk(av[3]):
                    return False
            elif op is sre_c.BRANCH:
                for a in av[1]:
                    if not walk(a):
                        return False
            elif op is sre_c.ANY:
                return False
            elif op is sre_c.NOT_LITERAL:
                return False
            elif op is sre_c.AT:
                continue
            else:
                return False
        return True

    return out if walk(sp) else None


def only_ascii_digits(sp, base: int = 10) -> bool:
    """True if every string matched by sp consists only of ASCII digits valid for int(.., base)
    and the pattern has minimum width >= 1."""
    cs = chars_of(sp)
    if cs is None:
        return False
    lo, _hi = sp.getwidth()
    if lo < 1:
        return False
    allowed = "0123456789" if base == 10 else "0123456789abcdefABCDEF"
    for atom in cs:
        if atom[0] == "lit":
            if atom[1] not in allowed:
                return False
        elif atom[0] == "range":
            for c in range(ord(atom[1]), ord(atom[2]) + 1):
                if chr(c) not in allowed:
                    return False
        else:
            return False  # \d matches non-ASCII decimal digits too; those are fine for int() base 10,
            # but \s etc. are not: a category makes the predicate fail conservatively unless handled by caller
    return True


def int_safe(sp, base: int = 10) -> Tuple[bool, str]:
    """Is int(s, base) total for every s matched by sp?  (True, '') or (False, reason)."""
    cs = chars_of(sp)
    if cs is None:
        return False, "pattern can match arbitrary characters"
    lo, _hi = sp.getwidth()
    if lo < 1:
        return False, "pattern can match the empty string"
    allowed = "0123456789" if base == 10 else "0123456789abcdefABCDEF"
    for atom in sorted(cs):
        if atom[0] == "lit" and atom[1] not in allowed:
            return False, f"pattern admits {atom[1]!r}"
        if atom[0] == "range":
            for c in range(ord(atom[1]), ord(atom[2]) + 1):
                if chr(c) not in allowed:
                    return False, f"pattern admits {chr(c)!r}"
        if atom[0] == "cat":
            if "DIGIT" in atom[1] and "NOT" not in atom[1] and base == 10:
                continue  # \d = Unicode decimal digits: int() accepts all of them
            return False, f"pattern admits category {atom[1]}"
    return True, ""


# ---- alternatives and character classes (language-level reading of a pattern) -----------------------
def alternatives(sp) -> List[List[Any]]:
    """The pattern as a list of alternatives, each a list of items ('lit', ch) / ('group', index, sub) / ('other', op, av);
    non-capturing groups and branches are flattened (sre factors a common prefix out of a branch - it is multiplied back in)."""
    def seqs(items) -> List[List[Any]]:
        outs: List[List[Any]] = [[]]
        for op, av in items:
            if op is sre_c.LITERAL:
                outs = [o + [("lit", chr(av))] for o in outs]
            elif op is sre_c.BRANCH:
                alts: List[List[Any]] = []
                for a in av[1]:
                    alts.extend(seqs(a))
                outs = [o + a for o in outs for a in alts]
            elif op is sre_c.SUBPATTERN:
                group, _add, _del, sub = av
                if group is None:
                    subs = seqs(sub)
                    outs = [o + s for o in outs for s in subs]
                else:
                    outs = [o + [("group", group, sub)] for o in outs]
            else:
                outs = [o + [("other", op, av)] for o in outs]
            if len(outs) > 64:
                raise AnalysisError("regex has too many alternatives to enumerate")
        return outs

    return seqs(sp)


def class_accepts(op, av, ch: str) -> Optional[bool]:
    """Does the single-character item (op, av) accept `ch`?  None when the item is not a single-character class."""
    o = ord(ch)
    if op is sre_c.LITERAL:
        return o == av
    if op is sre_c.NOT_LITERAL:
        return o != av
    if op is sre_c.ANY:
        return ch != "\n"
    if op is sre_c.IN:
        neg, hit = False, False
        for o2, a2 in av:
            if o2 is sre_c.NEGATE:
                neg = True
            elif o2 is sre_c.LITERAL:
                hit = hit or o == a2
            elif o2 is sre_c.RANGE:
                hit = hit or a2[0] <= o <= a2[1]
            elif o2 is sre_c.CATEGORY:
                name = str(a2)
                if name.endswith("CATEGORY_DIGIT"):
                    hit = hit or ch.isdigit()
                elif name.endswith("CATEGORY_NOT_DIGIT"):
                    hit = hit or not ch.isdigit()
                elif name.endswith("CATEGORY_SPACE"):
                    hit = hit or ch.isspace()
                elif name.endswith("CATEGORY_NOT_SPACE"):
                    hit = hit or not ch.isspace()
                elif name.endswith("CATEGORY_WORD"):
                    hit = hit or ch.isalnum() or ch == "_"
                elif name.endswith("CATEGORY_NOT_WORD"):
                    hit = hit or not (ch.isalnum() or ch == "_")
                else:
                    return None
            else:
                return None
        return hit != neg
    return None


def repeated_class(sub) -> Optional[Tuple[int, Any, Any, Any]]:
    """A group body of the form  <class>* / <class>+ / <class>*? ...: (min, max, op, av) of the repeated single-character item."""
    if len(sub) != 1:
        return None
    op, av = sub[0]
    if op not in (sre_c.MAX_REPEAT, sre_c.MIN_REPEAT):
        return None
    lo, hi, body = av
    if len(body) != 1:
        return None
    bop, bav = body[0]
    if class_accepts(bop, bav, "0") is None:
        return None
    return lo, hi, bop, bav
