#!/venv/bin/python
"""import_benign.py <round-dir>: copy <dir>/<Cxx>/<n>.patch.diff to /verif/benign/<Cxx>-<n>.patch.diff and merge notes_*.json into
benign/notes.json (maintenance tool)."""
import glob, json, os, shutil, sys
src = sys.argv[1]
notes = json.load(open("/verif/benign/notes.json"))
have = {(n["property"], int(n["n"])) for n in notes}
k = 0
for p in sorted(glob.glob(f"{src}/C*/*.patch.diff")):
    prop = p.split("/")[-2]
    n = os.path.basename(p).split(".")[0]
    shutil.copy(p, f"/verif/benign/{prop}-{n}.patch.diff")
    k += 1
for nf in sorted(glob.glob(f"{src}/notes_*.json")):
    for e in json.load(open(nf)):
        key = (e["property"], int(e["n"]))
        if key not in have:
            e["round"] = os.path.basename(src.rstrip("/"))
            notes.append(e)
            have.add(key)
notes.sort(key=lambda e: (e["property"], int(e["n"])))
json.dump(notes, open("/verif/benign/notes.json", "w"), indent=1)
print("imported", k, "patches;", len(notes), "notes")
