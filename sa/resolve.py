"""Light-weight type resolution: which rich class does an expression denote?

Sources of type facts: parameter / variable / attribute annotations, constructor calls,
`self.x = <typed param>` assignments in __init__, dataclass field annotations, property return
annotations, single-assignment local aliases.
"""
from __future__ import annotations

import ast
from typing import Dict, List, Optional

from .index import ClassInfo, FuncInfo, Module, Repo, norm, walk_local


def ann_names(node: Optional[ast.AST]) -> List[str]:
    """Candidate class names mentioned by an annotation (handles strings, Optional[..], List[..])."""
    if node is None:
        return []
    if isinstance(node, ast.Constant) and isinstance(node.value, str):
        try:
            return ann_names(ast.parse(node.value, mode="eval").body)
        except SyntaxError:
            return []
    if isinstance(node, ast.Name):
        return [node.id]
    if isinstance(node, ast.Attribute):
        return [node.attr]
    if isinstance(node, ast.Subscript):
        head = norm(node.value).split(".")[-1]
        inner = node.slice
        if head in ("Optional",):
            return ann_names(inner)
        if head in ("Union",):
            out = []
            elts = inner.elts if isinstance(inner, ast.Tuple) else [inner]
            for e in elts:
                out += ann_names(e)
            return out
        return []  # containers: element type handled separately
    return []


def elem_ann_names(node: Optional[ast.AST]) -> List[str]:
    """Element class names for List[X] / Iterable[X] / Dict[K, X] / Deque[X] annotations."""
    if node is None:
        return []
    if isinstance(node, ast.Constant) and isinstance(node.value, str):
        try:
            return elem_ann_names(ast.parse(node.value, mode="eval").body)
        except SyntaxError:
            return []
    if isinstance(node, ast.Subscript):
        head = norm(node.value).split(".")[-1]
        inner = node.slice
        if head in ("List", "Iterable", "Sequence", "Deque", "Set", "Tuple", "Iterator", "list"):
            e = inner.elts[0] if isinstance(inner, ast.Tuple) else inner
            return ann_names(e)
        if head in ("Dict", "Mapping", "dict") and isinstance(inner, ast.Tuple) and len(inner.elts) == 2:
            return ann_names(inner.elts[1])
        if head == "Optional":
            return elem_ann_names(inner)
    return []


class Types:
    def __init__(self, repo: Repo):
        self.repo = repo
        self._attr_cache: Dict[str, Dict[str, str]] = {}
        self._elem_cache: Dict[str, Dict[str, str]] = {}
        self._local_cache: Dict[int, Dict[str, str]] = {}
        self.by_name: Dict[str, List[ClassInfo]] = {}
        for c in repo.all_classes():
            self.by_name.setdefault(c.name, []).append(c)

    def cls(self, name: str, module: Optional[Module] = None) -> Optional[ClassInfo]:
        if module is not None:
            c = self.repo.resolve_class(module, name)
            if c is not None:
                return c
        lst = self.by_name.get(name)
        if lst and len(lst) == 1:
            return lst[0]
        if lst and module is not None:
            for c in lst:
                if c.module is module:
                    return c
        return None

    def mro(self, c: ClassInfo) -> List[ClassInfo]:
        out = [c]
        seen = {c.fq}
        i = 0
        while i < len(out):
            cur = out[i]
            i += 1
            for b in cur.bases:
                bn = b.split("[")[0].split(".")[-1]
                bc = self.cls(bn, cur.module)
                if bc is not None and bc.fq not in seen:
                    seen.add(bc.fq)
                    out.append(bc)
        return out

    def find_method(self, c: ClassInfo, name: str, which: str = "first") -> Optional[FuncInfo]:
        for k in self.mro(c):
            m = k.method(name, which)
            if m is not None:
                return m
        return None

    # -- attribute types -------------------------------------------------
    def attr_types(self, c: ClassInfo) -> Dict[str, str]:
        if c.fq in self._attr_cache:
            return self._attr_cache[c.fq]
        out: Dict[str, str] = {}
        elem: Dict[str, str] = {}
        self._attr_cache[c.fq] = out
        self._elem_cache[c.fq] = elem
        for k in reversed(self.mro(c)):
            # class-level annotations (dataclass fields etc.)
            for st in k.node.body:
                if isinstance(st, ast.AnnAssign) and isinstance(st.target, ast.Name):
                    for n in ann_names(st.annotation):
                        if self.cls(n, k.module):
                            out[st.target.id] = n
                    for n in elem_ann_names(st.annotation):
                        if self.cls(n, k.module):
                            elem[st.target.id] = n
            # properties
            for mname, lst in k.methods.items():
                for f in lst:
                    if f.is_property and not f.is_setter:
                        for n in ann_names(f.node.returns):
                            if self.cls(n, k.module):
                                out[mname] = n
                        for n in elem_ann_names(f.node.returns):
                            if self.cls(n, k.module):
                                elem[mname] = n
            # self.x = ... in any method (init first)
            for mname, lst in k.methods.items():
                for f in lst:
                    if not f.params:
                        continue
                    selfn = f.params[0]
                    ptypes = self.param_types(f)
                    for n in walk_local(f.node):
                        tgt = val = ann = None
                        if isinstance(n, ast.Assign) and len(n.targets) == 1:
                            tgt, val = n.targets[0], n.value
                        elif isinstance(n, ast.AnnAssign):
                            tgt, val, ann = n.target, n.value, n.annotation
                        if not (isinstance(tgt, ast.Attribute) and isinstance(tgt.value, ast.Name) and tgt.value.id == selfn):
                            continue
                        a = tgt.attr
                        if ann is not None:
                            for nm in ann_names(ann):
                                if self.cls(nm, k.module):
                                    out.setdefault(a, nm)
                            for nm in elem_ann_names(ann):
                                if self.cls(nm, k.module):
                                    elem.setdefault(a, nm)
                        if val is not None and a not in out:
                            t = self._simple_expr_type(val, ptypes, k.module)
                            if t:
                                out[a] = t
        return out

    def elem_types(self, c: ClassInfo) -> Dict[str, str]:
        self.attr_types(c)
        return self._elem_cache.get(c.fq, {})

    def _simple_expr_type(self, val, ptypes: Dict[str, str], module: Module) -> Optional[str]:
        if isinstance(val, ast.Name) and val.id in ptypes:
            return ptypes[val.id]
        if isinstance(val, ast.Call) and isinstance(val.func, ast.Name) and self.cls(val.func.id, module):
            return val.func.id
        if isinstance(val, ast.BoolOp):
            for v in val.values:
                t = self._simple_expr_type(v, ptypes, module)
                if t:
                    return t
        if isinstance(val, ast.IfExp):
            return self._simple_expr_type(val.body, ptypes, module) or self._simple_expr_type(val.orelse, ptypes, module)
        return None

    def param_types(self, f: FuncInfo) -> Dict[str, str]:
        out: Dict[str, str] = {}
        a = f.node.args
        for arg in a.posonlyargs + a.args + a.kwonlyargs:
            for n in ann_names(arg.annotation):
                if self.cls(n, f.module):
                    out[arg.arg] = n
                    break
        if f.cls is not None and f.params and not f.is_staticmethod:
            if f.is_classmethod:
                out[f.params[0]] = "type:" + f.cls.name
            else:
                out[f.params[0]] = f.cls.name
        return out

    def local_types(self, f: FuncInfo) -> Dict[str, str]:
        """name -> class name for parameters and single-assignment locals."""
        if id(f) in self._local_cache:
            return self._local_cache[id(f)]
        env = dict(self.param_types(f))
        # closures see the enclosing function's locals
        if f.parent is not None:
            for k, v in self.local_types(f.parent).items():
                env.setdefault(k, v)
        self._local_cache[id(f)] = env
        counts: Dict[str, int] = {}
        for n in walk_local(f.node):
            if isinstance(n, ast.Name) and isinstance(n.ctx, ast.Store):
                counts[n.id] = counts.get(n.id, 0) + 1
        for _ in range(3):
            for n in walk_local(f.node):
                tgt = val = ann = None
                if isinstance(n, ast.Assign) and len(n.targets) == 1:
                    tgt, val = n.targets[0], n.value
                elif isinstance(n, ast.AnnAssign):
                    tgt, val, ann = n.target, n.value, n.annotation
                elif isinstance(n, ast.withitem) and n.optional_vars is not None:
                    tgt, val = n.optional_vars, n.context_expr
                elif isinstance(n, ast.For):
                    if isinstance(n.target, ast.Name) and n.target.id not in env:
                        t = self.elem_type(f, n.iter, env)
                        if t:
                            env[n.target.id] = t
                    continue
                if not isinstance(tgt, ast.Name):
                    continue
                if tgt.id in env:
                    continue
                if ann is not None:
                    for nm in ann_names(ann):
                        if self.cls(nm, f.module):
                            env[tgt.id] = nm
                            break
                if tgt.id not in env and val is not None and counts.get(tgt.id, 0) <= 1:
                    c = self.infer(f, val, env)
                    if c is not None:
                        env[tgt.id] = c.name
        return env

    def elem_type(self, f: FuncInfo, expr, env: Dict[str, str]) -> Optional[str]:
        """Element class of an iterable expression (self._render_hooks -> RenderHook)."""
        if isinstance(expr, ast.Attribute):
            base = self.infer(f, expr.value, env)
            if base is not None:
                return self.elem_types(base).get(expr.attr)
        if isinstance(expr, ast.Call) and isinstance(expr.func, ast.Attribute) and expr.func.attr in ("values",):
            return self.elem_type(f, expr.func.value, env)
        if isinstance(expr, ast.Name):
            # parameter annotated List[X]
            a = f.node.args
            for arg in a.posonlyargs + a.args + a.kwonlyargs:
                if arg.arg == expr.id:
                    for n in elem_ann_names(arg.annotation):
                        if self.cls(n, f.module):
                            return n
        return None

    def infer(self, f: FuncInfo, expr, env: Optional[Dict[str, str]] = None) -> Optional[ClassInfo]:
        """Class of the object `expr` evaluates to (None if unknown)."""
        env = env if env is not None else self.local_types(f)
        if isinstance(expr, ast.Name):
            t = env.get(expr.id)
            if t and not t.startswith("type:"):
                return self.cls(t, f.module)
            return None
        if isinstance(expr, ast.Attribute):
            base = self.infer(f, expr.value, env)
            if base is not None:
                t = self.attr_types(base).get(expr.attr)
                if t:
                    return self.cls(t, base.module)
            return None
        if isinstance(expr, ast.Call):
            fn = expr.func
            if isinstance(fn, ast.Name):
                c = self.cls(fn.id, f.module) if (fn.id in f.module.classes or fn.id in f.module.imports) else None
                if c is not None:
                    return c
                g = self.repo.resolve_function(f.module, fn.id)
                if g is not None:
                    for n in ann_names(g.node.returns):
                        c = self.cls(n, g.module)
                        if c is not None:
                            return c
                return None
            if isinstance(fn, ast.Attribute):
                # method call: return annotation
                base = self.infer(f, fn.value, env)
                if base is not None:
                    m = self.find_method(base, fn.attr)
                    if m is not None:
                        for n in ann_names(m.node.returns):
                            c = self.cls(n, m.module)
                            if c is not None:
                                return c
                # Class.method(...) classmethod constructors
                if isinstance(fn.value, ast.Name):
                    c = self.cls(fn.value.id, f.module) if (fn.value.id in f.module.classes or fn.value.id in f.module.imports) else None
                    if c is not None:
                        m = self.find_method(c, fn.attr)
                        if m is not None:
                            for n in ann_names(m.node.returns):
                                cc = self.cls(n, m.module)
                                if cc is not None:
                                    return cc
            return None
        if isinstance(expr, ast.Subscript) and not isinstance(expr.slice, ast.Slice):
            t = self.elem_type(f, expr.value, env)
            if t:
                return self.cls(t, f.module)
            return None
        if isinstance(expr, ast.BoolOp):
            for v in expr.values:
                c = self.infer(f, v, env)
                if c is not None:
                    return c
        if isinstance(expr, ast.IfExp):
            return self.infer(f, expr.body, env) or self.infer(f, expr.orelse, env)
        return None
