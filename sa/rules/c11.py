"""C11 Console output is thread-safe under every interleaving (lock discipline decided statically)."""
from __future__ import annotations

import ast
from typing import Dict, List, Set

from .. import cfg as cfgmod
from ..astutil import alias_map, call_name, expand_alias, is_attr_of
from ..index import AnalysisError, AnchorVanished, norm, short, walk_local
from .common import fmt_locks, get_cg, must_held

LEVEL = "other"
UNDECIDED = [
    "actual interleavings (no schedule is explored); the composed screen invariant under preemption",
    "the erase height read in process_renderables and the later file write are in different critical sections; whether that is observable needs a schedule",
    "behaviour of user-supplied file objects and user renderables that take their own locks",
]
TRUSTED = ["CPython ast parser", "threading.RLock re-entrancy, threading.local per-thread attribute storage, `with` releases on every exit"]

CONSOLE_LOCK = ("Console", "_lock")
RECORD_LOCK = ("Console", "_record_buffer_lock")
LIVE_LOCK = ("Live", "_lock")

# accepted idioms: one named symbol, one reason
WRITE_EXCEPTIONS = {
    "console:Console.input": "prompt echo written directly to the file before reading input; not print output (documented behaviour of input())",
}


def _file_write_sites(ctx):
    """(function, call node, what) for every write()/flush() on a Console's file."""
    cg, locks = get_cg(ctx)
    T = cg.types
    out = []
    for f in ctx.repo.all_functions():
        aliases = alias_map(f.node)
        for n in walk_local(f.node):
            if not isinstance(n, ast.Call):
                continue
            fn = n.func
            if isinstance(fn, ast.Name) and fn.id in aliases:
                fn = expand_alias(fn, aliases)
            if not (isinstance(fn, ast.Attribute) and fn.attr in ("write", "flush", "writelines")):
                continue
            recv = fn.value
            if isinstance(recv, ast.Name) and recv.id in aliases:
                recv = expand_alias(recv, aliases)
            if isinstance(recv, ast.Attribute) and recv.attr in ("file", "_file"):
                c = T.infer(f, recv.value)
                if c is not None and c.name == "Console":
                    out.append((f, n, f"{norm(recv)}.{fn.attr}"))
    return out


def _file_write_sites_ext(ctx):
    """_file_write_sites plus calls of same-class helpers that write their parameter to the file (`self._write_text(text)`):
    such a call is a write of its argument at the call site."""
    base = _file_write_sites(ctx)
    out = list(base)
    writers = {}
    for f, call, what in base:
        if not what.endswith(".write") or not call.args or not isinstance(call.args[0], ast.Name) or f.cls is None:
            continue
        a = call.args[0].id
        param = None
        if a in f.params[1:]:
            param = a
        else:
            for loop in walk_local(f.node):
                if isinstance(loop, ast.For) and isinstance(loop.target, ast.Name) and loop.target.id == a and isinstance(loop.iter, ast.Call) and isinstance(loop.iter.func, ast.Attribute) and isinstance(loop.iter.func.value, ast.Name) and loop.iter.func.value.id in f.params[1:]:
                    param = loop.iter.func.value.id
        if param is not None:
            writers.setdefault(f.fq, (f, set()))[1].add(param)
    for fq, (h, params) in writers.items():
        if len(params) != 1:
            continue
        pidx = h.params.index(next(iter(params))) - 1
        for f in ctx.repo.all_functions():
            if f.cls is not h.cls or f is h:
                continue
            for c in walk_local(f.node):
                if isinstance(c, ast.Call) and isinstance(c.func, ast.Attribute) and isinstance(c.func.value, ast.Name) and c.func.value.id == "self" and c.func.attr == h.name and len(c.args) > pidx:
                    synth = ast.Call(func=c.func, args=[c.args[pidx]], keywords=[])
                    ast.copy_location(synth, c)
                    f.module.parent_of[synth] = f.module.parent_of.get(c)
                    out.append((f, c if pidx == 0 and len(c.args) == 1 else synth, f"self.{h.name}->file.write"))
    return out


def r11_1(ctx):
    ctx.rule("R11.1", "one writer: every write()/flush() on a Console's file anywhere in the package executes with Console._lock held (lexically or on entry from every caller)")
    sites = _file_write_sites(ctx)
    n = 0
    for f, call, what in sites:
        where = f"{f.module.relpath}:{call.lineno}"
        if f.fq in WRITE_EXCEPTIONS:
            ctx.note(f"exception {f.fq} {where}: {WRITE_EXCEPTIONS[f.fq]}")
            continue
        n += 1
        held = must_held(ctx, f, call)
        ctx.check(CONSOLE_LOCK in held, f.fq, short(call), where, f"{what} under {fmt_locks(held)}",
                  f"{what} executes without Console._lock (held: {fmt_locks(held)}): two threads' output can interleave inside one print")
    ctx.floor(n, 2, "file write/flush sites outside the exception table")


def r11_2(ctx):
    ctx.rule("R11.2", "contiguous, exactly once, recorded in file order: in Console._check_buffer the buffer snapshot, its rendering (which records), `del buffer[:]` and the write(s) of that one rendered string sit in one Console._lock region guarded by _buffer_index == 0; the non-Windows path writes once, not in a loop")
    f = ctx.repo.fn("console:Console._check_buffer")
    cg, locks = get_cg(ctx)
    g = cfgmod.build(f.node)
    aliases = alias_map(f.node)
    mod = f.module
    render_calls = [n for n in walk_local(f.node) if isinstance(n, ast.Call) and call_name(n).endswith("._render_buffer")]
    if not render_calls:
        raise AnchorVanished("Console._check_buffer no longer calls _render_buffer")
    writes = [(ff, c, w) for ff, c, w in _file_write_sites_ext(ctx) if ff is f and w.endswith(".write")]
    if not writes:
        ctx.violation(f.fq, "no write", f.where, "_check_buffer never writes the rendered buffer to the file")
        return
    # the with-lock statement(s)
    regions = [w for w, ls, _h in locks.lock_withs(f) if CONSOLE_LOCK in ls]
    ctx.check(len(regions) >= 1, f.fq, "with self._lock", f.where, "a Console._lock region exists", "Console._check_buffer has no Console._lock region")

    def region_of(node):
        cur = mod.parent_of.get(node)
        while cur is not None and cur is not f.node:
            if cur in regions:
                return cur
            cur = mod.parent_of.get(cur)
        return None

    for rc in render_calls:
        st = rc
        while not isinstance(st, ast.stmt):
            st = mod.parent_of[st]
        reg = region_of(rc)
        # snapshot argument is the thread's buffer
        arg = rc.args[0] if rc.args else None
        from ..astutil import inline as _inl, single_defs as _sdf
        _sd = _sdf(f.node)
        if arg is not None:
            arg = _inl(arg, _sd)
        ctx.check(arg is not None and "self._buffer" in norm(arg), f.fq, short(rc), f"{mod.relpath}:{rc.lineno}",
                  "renders the calling thread's own buffer", f"renders `{norm(arg) if arg is not None else None}`, not the thread's buffer")
        target = st.targets[0].id if isinstance(st, ast.Assign) and isinstance(st.targets[0], ast.Name) else None
        for _ff, wc, what in writes:
            wreg = region_of(wc)
            ok = reg is not None and wreg is reg
            ctx.check(ok, f.fq, f"{short(rc)} ... {short(wc)}", f"{mod.relpath}:{wc.lineno}",
                      "rendering (which records) and the file write are in the same Console._lock region",
                      "the buffer is rendered/recorded and written in different critical sections: another thread can write in between, so the record order differs from the file order and output can interleave")
            # written value is the rendered text (or a piece of it from iterating text.splitlines)
            a0 = wc.args[0] if wc.args else None
            okv = False
            if isinstance(a0, ast.Name) and target:
                if a0.id == target:
                    okv = True
                else:
                    for loop in walk_local(f.node):
                        if isinstance(loop, ast.For) and isinstance(loop.target, ast.Name) and loop.target.id == a0.id and norm(loop.iter).startswith(target + ".splitlines("):
                            okv = True
                    from .common import chunk_source as _chunk_source
                    cs_ = _chunk_source(f.node, a0.id)
                    if cs_ is not None and cs_[0] == target:
                        okv = True
            ctx.check(okv, f.fq, short(wc), f"{mod.relpath}:{wc.lineno}", "the value written is the string rendered from the snapshot",
                      f"write() is given `{norm(a0) if a0 is not None else None}`, not the text rendered from the buffer snapshot")
            # guarded by _buffer_index == 0
            stw = wc
            while not isinstance(stw, ast.stmt):
                stw = mod.parent_of[stw]
            for nid in g.nodes_of(stw):
                facts = g.branch_facts(nid)
                okg = any(v is True and "_buffer_index == 0" in norm(t) for t, v in facts) or any(v is False and "_buffer_index != 0" in norm(t) or v is False and "_buffer_index > 0" in norm(t) for t, v in facts)
                ctx.check(okg, f.fq, f"guard of {short(wc)}", f"{mod.relpath}:{wc.lineno}", "write only when no buffer context is open (_buffer_index == 0)",
                          "file write is not guarded by `_buffer_index == 0`: output printed inside a capture / nested context would reach the file")
        # the buffer is cleared in the same region
        dels = [d for d in walk_local(f.node) if isinstance(d, ast.Delete) and any("self._buffer" in norm(_inl(t, _sd)) for t in d.targets)]
        okd = any(region_of(d) is reg and reg is not None for d in dels)
        ctx.check(okd, f.fq, "del self._buffer[:]", f"{mod.relpath}:{st.lineno}", "buffer cleared in the region that rendered it (nothing written twice)",
                  "the rendered buffer is not cleared inside the same lock region: the same segments can be written again")
    # exactly once: a write not inside a loop exists on the non-Windows branch
    nonloop = []
    for _ff, wc, what in writes:
        inloop = False
        cur = mod.parent_of.get(wc)
        while cur is not None and cur is not f.node:
            if isinstance(cur, (ast.For, ast.While)):
                inloop = True
            cur = mod.parent_of.get(cur)
        if not inloop:
            nonloop.append(wc)
        else:
            # `for chunk in (text.splitlines(True) if WINDOWS else [text]): write(chunk)` - off Windows the loop runs exactly once, with
            # the whole text: that is the one write of the print
            from .common import chunk_source as _chunk_source2
            a0_ = wc.args[0] if wc.args else None
            cs2 = _chunk_source2(f.node, a0_.id) if isinstance(a0_, ast.Name) else None
            if cs2 is not None and cs2[1] in ("pieces-or-whole:WINDOWS",):
                nonloop.append(wc)
    ctx.check(len(nonloop) == 1, f.fq, "single write call", f.where, "one write() call outside loops (one print -> one write)",
              f"{len(nonloop)} write() calls outside loops in _check_buffer: a print no longer reaches the file in exactly one write")


def r11_3(ctx):
    ctx.rule("R11.3", "thread confinement: Console._buffer/_buffer_index are properties over a threading.local subclass whose list field has a per-thread default_factory; nothing stores to Console._buffer or replaces _thread_locals outside __init__")
    cons = ctx.repo.cls("console:Console")
    cm = ctx.repo.mod("console")
    tl_attr = None
    for pname in ("_buffer", "_buffer_index"):
        m = cons.method(pname)
        if m is None or not m.is_property:
            ctx.violation(cons.fq, pname, cons.node and f"{cm.relpath}:{cons.node.lineno}", f"Console.{pname} is no longer a property over per-thread storage")
            continue
        rets = [r for r in walk_local(m.node) if isinstance(r, ast.Return)]
        ok = len(rets) == 1 and isinstance(rets[0].value, ast.Attribute) and isinstance(rets[0].value.value, ast.Attribute) and is_attr_of(rets[0].value.value, "self")
        if ok:
            tl_attr = rets[0].value.value.attr
        ctx.check(ok, m.fq, norm(rets[0]) if rets else "?", m.where, f"{pname} reads self.{tl_attr}.<field>", f"Console.{pname} does not return a field of the thread-local object")
    if tl_attr is None:
        raise AnalysisError("cannot identify the thread-local holder attribute")
    init = cons.method("__init__")
    tl_cls = None
    for n in walk_local(init.node):
        if isinstance(n, ast.Assign) and any(is_attr_of(t, "self", tl_attr) for t in n.targets) and isinstance(n.value, ast.Call):
            tl_cls = ctx.repo.resolve_class(cm, norm(n.value.func))
    if tl_cls is None:
        raise AnalysisError(f"cannot resolve the class of Console.{tl_attr}")
    ok = any(b.split(".")[-1] == "local" for b in tl_cls.bases)
    ctx.check(ok, tl_cls.fq, f"class {tl_cls.name}({', '.join(tl_cls.bases)})", f"{cm.relpath}:{tl_cls.node.lineno}", "holder subclasses threading.local",
              f"{tl_cls.name} does not subclass threading.local: all threads share one buffer and one nesting counter")
    # list field default
    for st in tl_cls.node.body:
        if isinstance(st, ast.AnnAssign) and isinstance(st.target, ast.Name) and "List" in norm(st.annotation):
            v = st.value
            okf = isinstance(v, ast.Call) and call_name(v) == "field" and any(k.arg == "default_factory" for k in v.keywords)
            ctx.check(okf, tl_cls.fq, norm(st), f"{cm.relpath}:{st.lineno}", f"{st.target.id}: fresh list per thread (default_factory)",
                      f"thread-local field `{st.target.id}` has a shared default `{norm(v) if v is not None else None}`: every thread would append to the same list")
    # no stores
    bad = []
    for f in ctx.repo.all_functions():
        for n in walk_local(f.node):
            if isinstance(n, ast.Attribute) and isinstance(n.ctx, ast.Store):
                if n.attr == "_buffer" and f.module.short in ("console", "live", "progress", "file_proxy", "live_render", "status"):
                    bad.append((f, n, "store to ._buffer"))
                if n.attr == tl_attr and not (f.cls is cons and f.name == "__init__"):
                    bad.append((f, n, f"store to .{tl_attr}"))
    for f, n, what in bad:
        ctx.violation(f.fq, what, f"{f.module.relpath}:{n.lineno}", f"{what} replaces the per-thread buffer with a shared object")
    if not bad:
        ctx.ok(f"{cm.relpath}:{cons.node.lineno}", f"no store to Console._buffer / {tl_attr} outside __init__")


def r11_4(ctx):
    ctx.rule("R11.4", "guarded-by: every access to Console._record_buffer outside __init__ holds _record_buffer_lock; every access of Live methods to the live renderer's state (self._live_render.*) and of _LiveRender.__rich_console__ to renderable/_shape holds Live._lock")
    cg, locks = get_cg(ctx)
    T = cg.types
    n = 0
    for f in ctx.repo.all_functions():
        if f.name == "__init__":
            continue
        for x in walk_local(f.node):
            if isinstance(x, ast.Attribute) and x.attr == "_record_buffer":
                c = T.infer(f, x.value)
                if c is None or c.name != "Console":
                    continue
                n += 1
                held = must_held(ctx, f, x)
                ctx.check(RECORD_LOCK in held, f.fq, short(f.module.parent_of.get(x, x)), f"{f.module.relpath}:{x.lineno}", f"_record_buffer accessed under {fmt_locks(held)}",
                          f"Console._record_buffer accessed without _record_buffer_lock (held: {fmt_locks(held)}): export can see a half-extended record or lose segments")
    ctx.floor(n, 6, "_record_buffer accesses")
    live = ctx.repo.cls("live:Live")
    m = 0
    for name, lst in live.methods.items():
        if name == "__init__":
            continue
        for f in lst:
            for x in walk_local(f.node):
                if isinstance(x, ast.Attribute) and isinstance(x.value, ast.Attribute) and is_attr_of(x.value, "self", "_live_render"):
                    m += 1
                    held = must_held(ctx, f, x)
                    ctx.check(LIVE_LOCK in held, f.fq, norm(x), f"{f.module.relpath}:{x.lineno}", f"{norm(x)} under {fmt_locks(held)}",
                              f"{norm(x)} used without Live._lock (held: {fmt_locks(held)}): races with update()/the refresh thread on the renderable and frame shape")
    ctx.floor(m, 4, "Live accesses to _live_render state")
    lr = ctx.repo.cls("live:_LiveRender")
    rc = lr.method("__rich_console__")
    if rc is None:
        raise AnchorVanished("live:_LiveRender.__rich_console__ not found")
    k = 0
    for x in walk_local(rc.node):
        if isinstance(x, ast.Attribute) and is_attr_of(x, "self") and x.attr in ("renderable", "_shape"):
            k += 1
            held = must_held(ctx, rc, x)
            ctx.check(LIVE_LOCK in held, rc.fq, norm(x), f"{rc.module.relpath}:{x.lineno}", f"{norm(x)} under {fmt_locks(held)}",
                      f"{norm(x)} accessed while rendering without Live._lock: update() can swap the renderable mid-frame")
    ctx.floor(k, 2, "_LiveRender state accesses")


def r11_5(ctx):
    ctx.rule("R11.5", "no lock-order cycle: the graph `held -> acquired` over all RLocks (lexical with-nesting x may-held-on-entry x acquires-transitively, protocol dispatch over-approximated class-hierarchy style) is acyclic")
    cg, locks = get_cg(ctx)
    edges = locks.order_edges()
    ctx.extra["lock_order_edges"] = [f"{a[0]}.{a[1]} -> {b[0]}.{b[1]} ({len(w)} sites)" for (a, b), w in sorted(edges.items())]
    graph: Dict = {}
    for (a, b) in edges:
        graph.setdefault(a, set()).add(b)
    # cycle detection
    color: Dict = {}
    cycle: List = []

    def dfs(u, stack):
        color[u] = 1
        for v in sorted(graph.get(u, ())):
            if color.get(v, 0) == 1:
                cycle.extend(stack[stack.index(v):] + [v]) if v in stack else cycle.extend([u, v])
                return True
            if color.get(v, 0) == 0 and dfs(v, stack + [v]):
                return True
        color[u] = 2
        return False

    found = False
    for u in sorted(graph):
        if color.get(u, 0) == 0 and dfs(u, [u]):
            found = True
            break
    if found:
        path = []
        for a, b in zip(cycle, cycle[1:]):
            w = edges.get((a, b), ["?"])
            path.append(f"{a[0]}.{a[1]} -> {b[0]}.{b[1]}: {w[0]}")
        ctx.violation("locks", " -> ".join(f"{a}.{b}" for a, b in cycle), "rich/", "lock-order cycle: two threads taking these locks in opposite order can deadlock", path)
    else:
        for (a, b), w in sorted(edges.items()):
            ctx.ok(w[0].split("(")[1].split(")")[0] if "(" in w[0] else "rich/", f"order edge {a[0]}.{a[1]} -> {b[0]}.{b[1]} ({len(w)} sites), no reverse path")
    ctx.floor(len(edges), 3, "lock-order edges")
    ctx.floor(len(locks.lock_ids), 4, "lock identities")


def r11_6(ctx):
    ctx.rule("R11.6", "no join()/untimed wait() while holding a lock the awaited thread needs: locks possibly held at the site ∩ locks the thread's run() acquires transitively = ∅")
    cg, locks = get_cg(ctx)
    T = cg.types
    may = locks.may_held_on_entry()
    acq = locks.acquires()
    n = 0
    for f in ctx.repo.all_functions():
        for x in walk_local(f.node):
            if not (isinstance(x, ast.Call) and isinstance(x.func, ast.Attribute) and x.func.attr == "join" and not x.args):
                continue
            c = T.infer(f, x.func.value)
            if c is None or not cg.is_thread(c):
                continue
            run = T.find_method(c, "run")
            if run is None:
                continue
            n += 1
            held = may.get(f.fq, frozenset()) | locks.held_lex(f, x)
            need = acq.get(run.fq, frozenset())
            inter = held & need
            ctx.check(not inter, f.fq, short(x), f"{f.module.relpath}:{x.lineno}", f"join of {c.name} with {fmt_locks(held)} held; run() needs {fmt_locks(need)}",
                      f"{norm(x)} waits for {c.name}.run() while {fmt_locks(inter)} may be held, which run() acquires: deadlock when the thread is blocked on that lock")
    ctx.floor(n, 3, "thread join sites")


def r11_7(ctx):
    ctx.rule("R11.7", "test-and-set atomicity: in the classes that own a lock, a state flag that a method writes under that lock is also tested under it in the same lock region - a check outside the region followed by a set inside it lets two threads both pass the check (e.g. two concurrent start() calls both push the render hook)")
    cg, locks = get_cg(ctx)
    n = 0
    for cname, lock in (("Live", LIVE_LOCK), ("Progress", ("Progress", "_lock"))):
        c = ctx.repo.cls(("live:" if cname == "Live" else "progress:") + cname)
        for name, lst in c.methods.items():
            for f in lst:
                if name == "__init__":
                    continue
                stores = {}
                for x in walk_local(f.node):
                    if isinstance(x, ast.Assign):
                        for t in x.targets:
                            if is_attr_of(t, "self") and lock in must_held(ctx, f, x):
                                stores.setdefault(t.attr, []).append(x)
                if not stores:
                    continue
                withs = [w for w, ls, _h in locks.lock_withs(f) if lock in ls]

                def region(node):
                    cur = f.module.parent_of.get(node)
                    while cur is not None and cur is not f.node:
                        if cur in withs:
                            return cur
                        cur = f.module.parent_of.get(cur)
                    return None

                for x in walk_local(f.node):
                    if isinstance(x, ast.If):
                        for a in ast.walk(x.test):
                            if is_attr_of(a, "self") and a.attr in stores and isinstance(a.ctx, ast.Load):
                                later = [st for st in stores[a.attr] if st.lineno > x.lineno]
                                if not later:
                                    continue
                                n += 1
                                ok = lock in must_held(ctx, f, x.test) and all(region(st) is region(x) or region(x) is None and lock in locks.must_held_on_entry().get(f.fq, frozenset()) for st in later)
                                ctx.check(ok, f.fq, f"if {norm(x.test)} ... {short(later[0])}", f"{f.module.relpath}:{x.lineno}", f"self.{a.attr} tested and set inside one {lock[0]}.{lock[1]} region",
                                          f"`self.{a.attr}` is tested at line {x.lineno} outside the {lock[0]}.{lock[1]} region in which it is set at line {later[0].lineno}: two threads can both pass the test before either sets the flag, so the guarded action (e.g. pushing the render hook, starting the refresh thread) happens twice")
    ctx.floor(n, 3, "test-and-set sites")


def r11_8(ctx):
    from .common import return_forms
    ctx.rule("R11.8", "per-use state is not shared between threads: Console.capture() (and Console.pager / status-like factories that hand out a context manager holding a result slot) return an object constructed in that very call - never one stored on the console, which every thread would share (one thread's captured text overwriting another's)")
    c = ctx.repo.cls("console:Console")
    n = 0
    for name in ("capture",):
        f = c.method(name)
        if f is None:
            raise AnchorVanished(f"Console.{name} not found")
        forms = return_forms(f, depth=0)
        for facts, v in forms:
            n += 1
            fresh = isinstance(v, ast.Call) and isinstance(v.func, ast.Name) and v.func.id[:1].isupper()
            ctx.check(fresh, f.fq, norm(v)[:120], f.where, f"returns a new `{norm(v.func) if fresh else '?'}` per call",
                      f"Console.{name}() returns `{norm(v)[:100]}`, an object that outlives the call (stored on the console): its result slot is shared by every thread using the console, so one thread's capture can return another thread's text")
        stores = [x for x in walk_local(f.node) if isinstance(x, ast.Assign) and any(isinstance(t, ast.Attribute) and isinstance(t.value, ast.Name) and t.value.id == "self" for t in x.targets)]
        ctx.check(not stores, f.fq, "no store on self", f.where, "the factory keeps nothing on the console", f"Console.{name}() stores state on the console ({[short(x) for x in stores][:2]})")
    ctx.floor(n, 1, "factory return forms")


def r11_9(ctx):
    ctx.rule("R11.9", "guarded-by for the display's lifecycle state: every store to `_started` and `_refresh_thread` of Live / Progress outside __init__ executes with the display's own lock held (lexically or on entry from every caller); a store made after the lock is released races with a concurrent start() - stop() clearing `_refresh_thread` after the locked section drops the reference of the thread another caller has just started, which then keeps refreshing a stopped display and keeps the process alive")
    n = 0
    for spec, lock_attr in (("live:Live", "_lock"), ("progress:Progress", "_lock")):
        cls = ctx.repo.cls(spec)
        lock_id = None
        for name, lst in cls.methods.items():
            if name == "__init__":
                continue
            for f in lst:
                for x in walk_local(f.node):
                    tgts = []
                    if isinstance(x, ast.Assign):
                        tgts = x.targets
                    elif isinstance(x, (ast.AugAssign, ast.AnnAssign)):
                        tgts = [x.target]
                    flat = []
                    for t in tgts:
                        flat += list(t.elts) if isinstance(t, (ast.Tuple, ast.List)) else [t]
                    for t in flat:
                        if isinstance(t, ast.Attribute) and is_attr_of(t, "self") and t.attr in ("_started", "_refresh_thread"):
                            n += 1
                            held = must_held(ctx, f, x)
                            own = {l for l in held if l[1] == lock_attr and l[0] == cls.name}
                            ctx.check(bool(own), f.fq, short(x), f"{f.module.relpath}:{x.lineno}", f"`{norm(t)}` stored under {fmt_locks(held)}",
                                      f"`{short(x)}` stores the display's `{t.attr}` without {cls.name}.{lock_attr} (held: {fmt_locks(held)}): a concurrent start() can have replaced the value in between - the new refresh thread's reference is overwritten with None, nobody ever stops or joins it")
    ctx.floor(n, 6, "stores to _started / _refresh_thread in Live and Progress")


_SHARED_CONTAINER_OK = {
    "_record_buffer": "every access holds _record_buffer_lock (R11.4)",
    "_render_hooks": "pushed / popped only by start() / stop() of a live display, under that display's lock (R11.7, R10.1); read by print/log",
}


def r11_10(ctx):
    ctx.rule("R11.10", "no unguarded per-console scratch state: a list / dict / set that Console.__init__ stores on the instance and that a Console method mutates afterwards (append / extend / del / clear, directly or through a local alias) is shared by every thread using the console; each such attribute must be one of the listed guarded ones (_record_buffer under its lock, the render-hook stack) - per-thread data lives in the thread-local buffer (R11.3), per-call working lists are locals. A reused instance-level work list in the render path lets one thread's output overwrite another's (end_capture renders without the console lock)")
    cls = ctx.repo.cls("console:Console")
    init = cls.method("__init__")
    if init is None:
        raise AnchorVanished("Console.__init__ not found")
    containers = {}
    for x in walk_local(init.node):
        tgt = val = None
        if isinstance(x, ast.Assign) and len(x.targets) == 1:
            tgt, val = x.targets[0], x.value
        elif isinstance(x, ast.AnnAssign) and x.value is not None:
            tgt, val = x.target, x.value
        if tgt is not None and is_attr_of(tgt, "self") and (isinstance(val, (ast.List, ast.Dict, ast.Set)) or (isinstance(val, ast.Call) and norm(val.func) in ("list", "dict", "set", "deque", "OrderedDict", "defaultdict"))):
            containers[tgt.attr] = x
    ctx.floor(len(containers), 2, "containers created by Console.__init__")
    MUT = ("append", "extend", "insert", "pop", "clear", "remove", "update", "setdefault", "popitem", "sort", "reverse", "appendleft", "add", "discard")
    n = 0
    for name, lst in cls.methods.items():
        if name == "__init__":
            continue
        for f in lst:
            al = alias_map(f.node)
            for x in walk_local(f.node):
                hit = None
                if isinstance(x, ast.Call) and isinstance(x.func, ast.Attribute) and x.func.attr in MUT:
                    e = expand_alias(x.func.value, al)
                    if is_attr_of(e, "self") and e.attr in containers:
                        hit = e.attr
                elif isinstance(x, ast.Call) and isinstance(x.func, ast.Name) and x.func.id in al and isinstance(al[x.func.id], ast.Attribute) and al[x.func.id].attr in MUT:
                    e = expand_alias(al[x.func.id].value, al)
                    if is_attr_of(e, "self") and e.attr in containers:
                        hit = e.attr
                elif isinstance(x, ast.Delete):
                    for t in x.targets:
                        b = t.value if isinstance(t, ast.Subscript) else t
                        e = expand_alias(b, al)
                        if is_attr_of(e, "self") and e.attr in containers:
                            hit = e.attr
                elif isinstance(x, (ast.Assign, ast.AugAssign)):
                    for t in (x.targets if isinstance(x, ast.Assign) else [x.target]):
                        if isinstance(t, ast.Subscript):
                            e = expand_alias(t.value, al)
                            if is_attr_of(e, "self") and e.attr in containers:
                                hit = e.attr
                if hit is None:
                    continue
                n += 1
                where = f"{f.module.relpath}:{x.lineno}"
                if hit in _SHARED_CONTAINER_OK:
                    ctx.ok(where, f"self.{hit}: {_SHARED_CONTAINER_OK[hit]}", f.fq)
                    continue
                held = must_held(ctx, f, x)
                ctx.check(CONSOLE_LOCK in held, f.fq, short(x), where, f"self.{hit} mutated under {fmt_locks(held)}",
                          f"`{short(x)}` mutates the instance-level container self.{hit} (created once in __init__, shared by all threads) without Console._lock on every way in (held: {fmt_locks(held)}): two threads rendering at the same time - e.g. one leaving capture(), which renders without the lock, while another prints - fill and clear the same list, and one thread's text ends up in the other's output")
    ctx.floor(n, 3, "mutations of Console's instance containers")


def r11_11(ctx):
    ctx.rule("R11.11", "a refresh is written while the display lock is held: in Live.refresh / Progress.refresh every `with self.console:` buffer context (whose exit renders and writes the frame) is entered with the display's lock already held - an earlier item of the same with statement or an enclosing one - so the lock is released only after the write; with the items the other way round the lock is dropped first and a second refresh can erase as many rows as the first one rendered, not as many as are on screen")
    n = 0
    for spec, lock in (("live:Live", ("Live", "_lock")), ("progress:Progress", ("Progress", "_lock"))):
        f = ctx.repo.cls(spec).method("refresh")
        if f is None:
            raise AnchorVanished(f"{spec}.refresh not found")
        al = alias_map(f.node)
        for x in walk_local(f.node):
            if not isinstance(x, ast.With):
                continue
            items = [norm(expand_alias(i.context_expr, al)) for i in x.items]
            if "self.console" not in items:
                continue
            idx = items.index("self.console")
            inner_lock = any(isinstance(y, ast.With) and y is not x and any(norm(expand_alias(i.context_expr, al)) == "self._lock" for i in y.items) for y in ast.walk(x))
            if "self._lock" not in items and not inner_lock and lock not in get_cg(ctx)[1].held_lex(f, x):
                # no display lock involved here at all: fine only in the branch for files / dumb terminals after stop(), where the
                # display is known to be finished (`not self._started`) - no refresh thread, nothing to interleave with
                from ..yieldpaths import canon_test as _ct
                gg = cfgmod.build(f.node)
                finished = False
                for nid in gg.nodes_of(x):
                    for t, v in gg.branch_facts(nid):
                        for a, tv in _ct(t, v):
                            if a == "self._started" and tv is False:
                                finished = True
                if finished:
                    continue
            n += 1
            # refresh() is public API: only what the method itself acquires counts, not what its internal callers happen to hold
            cg_, locks_ = get_cg(ctx)
            held_before = lock in locks_.held_lex(f, x) or "self._lock" in items[:idx]
            ctx.check(held_before, f.fq, short(x), f"{f.module.relpath}:{x.lineno}", "the console context is entered (and left) inside the display lock",
                      f"`with {', '.join(items)}:` enters the console's buffer context before the display lock (or without it): the lock is released before the buffered frame is written, so another refresh can interleave between computing the erase sequence and writing it")
    ctx.floor(n, 1, "`with self.console` contexts in refresh()")


def r11_12(ctx):
    from .c10 import r10_1
    from .common import borrow as _borrow
    _borrow(ctx, r10_1, "R10.1", "R11.12", " [a refresh that was waiting for the display lock while stop() ran must find the render hook already removed: the hook is popped inside the locked cleanup, not after the lock is released]")


RULES = [r11_1, r11_2, r11_3, r11_4, r11_5, r11_6, r11_7, r11_8, r11_9, r11_10, r11_11, r11_12]


def _xcheck(ctx):
    from .common import mypy_crosscheck
    mypy_crosscheck(ctx)


THOROUGH = [_xcheck]
