"""python -m sa.selftest [PROP ...]  - run the sweep catalogue (in-memory variants) and print a table.
Not a property check: exit 0 iff every breaking variant is detected and every benign one is silent."""
from __future__ import annotations

import sys
from concurrent.futures import ProcessPoolExecutor

from .sweep import load_catalogue, run_variant


def main(argv):
    cat = load_catalogue()
    if argv:
        cat = [v for v in cat if v[1] in argv or v[0] in argv]
    with ProcessPoolExecutor(max_workers=16) as ex:
        res = list(ex.map(run_variant, cat))
    bad = 0
    counts = {}
    for (vid, status, detail), v in zip(res, cat):
        counts[status] = counts.get(status, 0) + 1
        flag = ""
        if status in ("missed", "false-alarm", "error", "stale"):
            flag = "  <<<<"
            bad += 1
        if status == "detected-other":
            flag = "  (other rule)"
        print(f"{v[1]} {vid:40s} {str(v[5]):8s} {status:14s} {detail[:150]}{flag}")
    print(counts)
    return 1 if bad else 0


if __name__ == "__main__":
    sys.exit(main(sys.argv[1:]))
