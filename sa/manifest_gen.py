"""Regenerate /verif/MANIFEST.json from the per-property table below:  python -m sa.manifest_gen"""
from __future__ import annotations

import json
import os

from .check import load_rules

VERIF = os.path.dirname(os.path.dirname(os.path.abspath(__file__)))

BASELINE = "cd /repo && /venv/bin/python -m pytest -ra -q -p no:cacheprovider --timeout=900 --continue-on-collection-errors"

COMMON_NOTE = (
    "Trusted base: CPython's ast parser and the Python semantics of the constructs the rules interpret; "
    "rich is never imported or executed. Dynamic dispatch to user classes, monkey-patching and subclass overrides outside rich/ are not seen. "
)

# property -> dict(category, text, note, technique, design_ref)
CLAIMS = {
    "C06": dict(
        category="other",
        text="Static rules over rich/style.py decide, for every input, the structural clauses of the property: (R6.1) __eq__ and the hash use the same fields; "
             "(R6.2) on every __new__ construction route each derived slot (_hash, _style_definition, _ansi) is recomputed from the new object's own fields, reset for lazy refill, or copied only when all fields it depends on are copied unchanged - this is 'equal styles hash equal however constructed' and 'str() reflects a link update'; "
             "(R6.3) every route fills every slot; (R6.4) per-bit truth tables of the extracted & | ~ expressions prove right-bias, the attr-subset-of-set invariant and associativity of __add__, the colour/link picks are right-biased and null operands return the other operand; "
             "(R6.5) the attribute<->bit mapping agrees across _Bit descriptors, __init__ weights, __str__ words, parse() vocabulary and SGR emission; (R6.7) the _null flag can only be True on an empty style. "
             "Not decided: lru_cache interactions, URLs with whitespace, Color.parse accepting every Color.name value.",
        note=COMMON_NOTE + "Assumes tuple hashing is a function of element equality and Color is hashable by value (NamedTuple).",
        technique="field-dependency dataflow over construction routes + per-bit truth tables of extracted bitwise expressions + table agreement",
        design_ref="5/C06",
    ),
    "C13": dict(
        category="other",
        text="Static rules decide the structural clauses: (R13.1) the width table is well-formed for binary search (sorted, disjoint, widths in {-1,0,1,2}), agrees with the ASCII shortcut and has no writer - exhaustive over all entries; "
             "(R13.2) the search moves only the correct bound strictly past the probe on each comparison outcome, returns the table width on a hit and 1 on a miss; "
             "(R13.3/R13.6) every cache in cells.py/_lru_cache.py/segment.py is transparent: same key for lookup and store, stored value = returned value, value depends only on the key (def-use closure incl. control dependence) and never-written constants - this is 'regardless of what was measured before'; "
             "(R13.4) the style of every padding segment/helper has the `style` parameter as its only reaching definition; (R13.5) pad counts and crop targets are exactly requested length minus measured cells (linear forms + reaching definitions). "
             "Not decided: the table equals Unicode, chop_cells for all strings, character/style preservation of cropped lines.",
        note=COMMON_NOTE + "functools.lru_cache and OrderedDict behave as documented.",
        technique="literal-table validation + role-based check of the binary search + memoisation soundness by def-use/control-dependence closure + reaching definitions + linear forms",
        design_ref="5/C13",
    ),
    "C18": dict(
        category="proof",
        text="Abstract interpretation (intervals x enum constants x records, path-forking with refinement; sa/absint.py) of Color.downgrade for all 5 colour types x 4 target systems and of Color.get_ansi_codes for all types x fg/bg, "
             "over ALL component/number values at once: proves every result is in gamut ([0,15] for standard/windows, [0,255] else), default and already-representable colours return self, re-conversion returns the result unchanged, greys land on {16,231} U [232,255], the cube index is 16+36r+6g+b, no path raises or indexes a palette out of range, "
             "and the SGR parameter forms are exactly 39/49, 30-37/90-97, 40-47/100-107, 38;5;n, 38;2;r;g;b. (R18.5) match() is builtin min over every palette index keyed by a distance that pairs like components; (R18.6) caches in color/palette are sound; (R18.7) all construction sites classify numbers 0..255 identically. "
             "Obligations = (case, path) pairs; all must be discharged. Not decided: palette contents are the colours terminals use; the metric's weights.",
        note=COMMON_NOTE + "colorsys.rgb_to_hls maps [0,1]^3 to [0,1]^3; round is monotone; builtin min(key=) is an argmin; colours satisfy the constructor invariants (number/component ranges).",
        technique="abstract interpretation (interval/enum/record domains) of the conversion code over all colour types x systems",
        design_ref="5/C18",
    ),
}

NA = {
    "C02": "every clause is a relation between input and output strings decided by cell-width arithmetic (divide_line / chop_cells / truncate) over all strings x widths x span sets; "
           "no structural fact whose violation must break it exists that is not already owned by C05 (span bookkeeping of divide) or C13 (pad arithmetic); a static claim would be a brittle proxy (DESIGN.md section 8)",
}


def main() -> None:
    props = [json.loads(l) for l in open(os.path.join(VERIF, "properties.jsonl"))]
    checks = []
    na = []
    served = []
    for p in props:
        pid = p["id"]
        mod = load_rules(pid)
        if pid in CLAIMS and mod is not None:
            c = CLAIMS[pid]
            served.append(pid)
            checks.append({
                "property_id": pid,
                "quick_cmd": f"/venv/bin/python -m sa.check {pid} --tier quick",
                "thorough_cmd": f"/venv/bin/python -m sa.check {pid} --tier thorough",
                "evidence_file": f"/verif/evidence/{pid}.json",
                "replay_cmd_template": f"/venv/bin/python -m sa.check {pid} --replay {{path}}",
                "engine": "sa",
                "level_claimed": {"category": c["category"], "text": c["text"], "design_ref": c["design_ref"]},
                "level_note": c["note"],
                "technique": c["technique"],
            })
        else:
            na.append({
                "property_id": pid,
                "reason": NA.get(pid, "check not yet implemented (planned rules: DESIGN.md section 5); nothing is claimed for this property yet"),
            })
    m = {
        "version": 1,
        "setup_cmd": "/venv/bin/python -m sa.check --self",
        "hooks": {
            "guard": "RICH_VERIF",
            "enable": "no hooks are needed or present: every check reads /repo/rich source text only (guard name reserved, unused)",
            "baseline_off_cmd": BASELINE,
            "source_commits": [],
            "add_only": True,
        },
        "engines": [{
            "name": "sa",
            "path": "/verif/sa",
            "serves_properties": served,
            "kind_free_text": "repository-specific static analyser, pure stdlib: ast index, statement CFG with exceptional edges and per-continuation finally copies, "
                              "reaching definitions, call graph, lock regions, small abstract domains (intervals, bit truth tables, weak orderings), literal-table agreement",
        }],
        "checks": checks,
        "notes": "Static-analysis family only: every verdict is computed from /repo/rich/*.py as on disk at the start of the check. Exit 0 ok / 1 VIOLATION / 2 ANALYSIS-ERROR. See DESIGN.md.",
        "not_applicable": na,
    }
    with open(os.path.join(VERIF, "MANIFEST.json"), "w") as f:
        json.dump(m, f, indent=1)
    print(f"MANIFEST.json: {len(checks)} checks, {len(na)} not_applicable")


if __name__ == "__main__":
    main()
