"""Catalogue of in-memory source variants (see sweep.py).  rule=None => behaviour-preserving."""
from .sweep import V

S = "rich/style.py"
# ---- C06 -------------------------------------------------------------------
V("c06-eq-drops-link", "C06", S, "            and self._link == other._link\n", "", "R6.1")
V("c06-add-hash-copied", "C06", S, "        new_style._hash = None\n", "        new_style._hash = style._hash\n", "R6.2")
V("c06-update-link-keeps-def", "C06", S,
  "        style._ansi = self._ansi\n        style._style_definition = None\n",
  "        style._ansi = self._ansi\n        style._style_definition = self._style_definition\n", "R6.2")
V("c06-without-color-hash", "C06", S,
  "        style._link_id = f\"{time()}-{randint(0, 999999)}\" if self._link else \"\"\n        style._hash = None\n        style._null = False\n        return style\n\n    @classmethod\n    @lru_cache(maxsize=4096)",
  "        style._link_id = f\"{time()}-{randint(0, 999999)}\" if self._link else \"\"\n        style._hash = self._hash\n        style._null = False\n        return style\n\n    @classmethod\n    @lru_cache(maxsize=4096)", "R6.2")
V("c06-copy-hash-zero", "C06", S, "        style._hash = self._hash\n        style._null = False\n        return style\n\n    def update_link",
  "        style._hash = 0\n        style._null = False\n        return style\n\n    def update_link", "R6.2")
V("c06-from-color-forgets-link-id", "C06", S, "        style._link = None\n        style._link_id = \"\"\n", "        style._link = None\n", "R6.3")
V("c06-add-attrs-or", "C06", S,
  "        new_style._attributes = (self._attributes & ~style._set_attributes) | (\n            style._attributes & style._set_attributes\n        )",
  "        new_style._attributes = self._attributes | style._attributes", "R6.4")
V("c06-add-color-left-bias", "C06", S, "new_style._color = style._color or self._color", "new_style._color = self._color or style._color", "R6.4")
V("c06-add-null-exit-swapped", "C06", S, "        if self._null:\n            return style\n        new_style", "        if self._null:\n            return self\n        new_style", "R6.4")
V("c06-init-weight-swap", "C06", S, "                blink is not None and 16,\n                blink2 is not None and 32,", "                blink is not None and 32,\n                blink2 is not None and 16,", "R6.5")
V("c06-str-wrong-word", "C06", S, 'append("underline" if self.underline else "not underline")', 'append("underline2" if self.underline else "not underline2")', "R6.5")
V("c06-str-group-mask", "C06", S, "            if bits & 0b0000111110000:\n                if bits & (1 << 4):", "            if bits & 0b0000111100000:\n                if bits & (1 << 4):", "R6.5")
V("c06-parse-alias", "C06", S, '            "uu": "underline2",', '            "uu": "underline",\n            "underline2": "underline",', "R6.5")
V("c06-ansi-range", "C06", S, "                    for bit in range(9, 13):", "                    for bit in range(9, 12):", "R6.5")
V("c06-null-ignores-bgcolor", "C06", S, "        style._null = not (color or bgcolor)", "        style._null = not color", "R6.7")
V("c06-benign-rename-local", "C06", S, "        new_style = self.__new__(Style)\n        new_style._ansi = None", "        new_style = self.__new__(Style)\n        unused_tmp = 1\n        new_style._ansi = None", None)
V("c06-benign-add-method", "C06", S, "    def __bool__(self) -> bool:", "    def is_plain(self) -> bool:\n        return self._null\n\n    def __bool__(self) -> bool:", None)
V("c06-benign-parse-alias-added", "C06", S, '            "uu": "underline2",', '            "uu": "underline2",\n            "ul": "underline",', None)

# ---- C13 -------------------------------------------------------------------
CE = "rich/cells.py"
SG = "rich/segment.py"
V("c13-table-swap", "C13", "rich/_cell_widths.py", "    (768, 879, 0),\n    (1155, 1161, 0),", "    (1155, 1161, 0),\n    (768, 879, 0),", "R13.1")
V("c13-table-width3", "C13", "rich/_cell_widths.py", "    (768, 879, 0),", "    (768, 879, 3),", "R13.1")
V("c13-table-overlap", "C13", "rich/_cell_widths.py", "    (768, 879, 0),", "    (768, 1160, 0),", "R13.1")
V("c13-shortcut-too-wide", "C13", CE, "    if 127 > codepoint > 31:", "    if 160 > codepoint > 31:", "R13.1")
V("c13-search-upper-stuck", "C13", CE, "            upper_bound = index - 1", "            upper_bound = index", "R13.2")
V("c13-search-cmp-swapped", "C13", CE, "        if codepoint < start:\n            upper_bound = index - 1\n        elif codepoint > end:\n            lower_bound = index + 1",
  "        if codepoint < start:\n            lower_bound = index + 1\n        elif codepoint > end:\n            upper_bound = index - 1", "R13.2")
V("c13-search-hit-raw", "C13", CE, "            return 0 if width == -1 else width", "            return width", "R13.2")
V("c13-cache-key-prefix", "C13", CE, "    cached_result = _cache.get(text, None)", "    cached_result = _cache.get(text[:64], None)", "R13.3")
V("c13-cache-store-other", "C13", CE, "        _cache[text] = total_size\n", "        _cache[text] = total_size + 0 * len(_cache)\n", "R13.3")
V("c13-lru-getitem-wrong", "C13", "rich/_lru_cache.py", "        OrderedDict.__setitem__(self, key, value)\n        return value", "        OrderedDict.__setitem__(self, key, key)\n        return value", "R13.3")
V("c13-pad-style-rebound", "C13", SG, "                text, segment_style, _ = segment\n                while text:\n                    _text, new_line, text = text.partition(\"\\n\")\n                    if _text:\n                        append(cls(_text, segment_style))\n                    if new_line:\n                        cropped_line",
  "                text, style, _ = segment\n                while text:\n                    _text, new_line, text = text.partition(\"\\n\")\n                    if _text:\n                        append(cls(_text, style))\n                    if new_line:\n                        cropped_line", "R13.4")
V("c13-set-shape-unstyled-pad", "C13", SG, '        pad_line = [Segment(" " * width, style)]', '        pad_line = [Segment(" " * width)]', "R13.4")
V("c13-pad-off-by-one", "C13", SG, 'new_line = line + [cls(" " * (length - line_length), style)]', 'new_line = line + [cls(" " * (length - line_length - 1), style)]', "R13.5")
V("c13-set-cell-size-pad", "C13", CE, '        return text + " " * (total - cell_size)', '        return text + " " * (total - len(text))', "R13.5")
V("c13-crop-target", "C13", SG, "text = set_cell_size(text, length - line_length)", "text = set_cell_size(text, length)", "R13.5")
V("c13-chop-cache-missing-key", "C13", CE, "def chop_cells(text: str, max_size: int, position: int = 0) -> List[str]:\n    \"\"\"Break text in to equal (cell) length strings.\"\"\"\n",
  "def chop_cells(text: str, max_size: int, position: int = 0, _cache: Dict[str, List[str]] = LRUCache(64)) -> List[str]:\n    \"\"\"Break text in to equal (cell) length strings.\"\"\"\n    hit = _cache.get((text, max_size))\n    if hit is not None:\n        return hit\n    _cache[(text, max_size)] = [text[:max_size - position]]\n", "R13.6")
V("c13-benign-rename", "C13", CE, "    cell_size = cell_len(text)\n    if cell_size == total:\n        return text\n    if cell_size < total:\n        return text + \" \" * (total - cell_size)",
  "    measured = cell_len(text)\n    cell_size = measured\n    if measured == total:\n        return text\n    if measured < total:\n        return text + \" \" * (total - measured)", None)
V("c13-benign-alias-removed", "C13", SG, "        adjust_line_length = cls.adjust_line_length\n        new_line_segment = cls(\"\\n\")", "        adjust_line_length = cls.adjust_line_length\n        new_line_segment = cls(\"\\n\")\n        _unused = length", None)

# ---- C18 -------------------------------------------------------------------
CO = "rich/color.py"
V("c18-cube-plus-one", "C18", CO, "                16 + 36 * round(red * 5.0) + 6 * round(green * 5.0) + round(blue * 5.0)", "                17 + 36 * round(red * 5.0) + 6 * round(green * 5.0) + round(blue * 5.0)", "R18.1")
V("c18-grey-232", "C18", CO, "                    color_number = 231 + gray", "                    color_number = 232 + gray", "R18.1")
V("c18-grey-round-26", "C18", CO, "                gray = round(l * 25.0)", "                gray = round(l * 26.0)", "R18.1")
V("c18-windows-returns-standard", "C18", CO, "            color_number = WINDOWS_PALETTE.match(triplet)\n            return Color(self.name, ColorType.WINDOWS, number=color_number)",
  "            color_number = WINDOWS_PALETTE.match(triplet)\n            return Color(self.name, ColorType.STANDARD, number=color_number)", "R18.1")
V("c18-default-converted", "C18", CO, "        if self.type == ColorType.DEFAULT or self.type == system:\n            return self", "        if self.type == system:\n            return self", "R18.1")
V("c18-std-from-8bit-number", "C18", CO, "                if self.number < 16:\n                    return Color(self.name, ColorType.WINDOWS, number=self.number)", "                if self.number < 32:\n                    return Color(self.name, ColorType.WINDOWS, number=self.number)", "R18.1")
V("c18-sgr-bright-base", "C18", CO, "            fore, back = (30, 40) if number < 8 else (82, 92)\n            return (str(fore + number if foreground else back + number),)\n\n        elif _type == ColorType.STANDARD:",
  "            fore, back = (30, 40) if number < 8 else (90, 100)\n            return (str(fore + number if foreground else back + number),)\n\n        elif _type == ColorType.STANDARD:", "R18.4")
V("c18-sgr-bg-lead", "C18", CO, '            return ("38" if foreground else "48", "5", str(self.number))', '            return ("38" if foreground else "38", "5", str(self.number))', "R18.4")
V("c18-sgr-bgr", "C18", CO, '            return ("38" if foreground else "48", "2", str(red), str(green), str(blue))', '            return ("38" if foreground else "48", "2", str(blue), str(green), str(red))', "R18.4")
V("c18-sgr-default", "C18", CO, '            return ("39" if foreground else "49",)', '            return ("39",)', "R18.4")
V("c18-match-short-range", "C18", "rich/palette.py", "min(range(len(self._colors)), key=get_color_distance)", "min(range(len(self._colors) - 1), key=get_color_distance)", "R18.5")
V("c18-match-max", "C18", "rich/palette.py", "min(range(len(self._colors)), key=get_color_distance)", "max(range(len(self._colors)), key=get_color_distance)", "R18.5")
V("c18-match-mixed-components", "C18", "rich/palette.py", "            green = green1 - green2\n            blue = blue1 - blue2", "            green = green1 - blue2\n            blue = blue1 - green2", "R18.5")
V("c18-palette-15", "C18", "rich/_palettes.py", "        (12, 12, 12),\n        (197, 15, 31),", "        (197, 15, 31),", "R18.0")
V("c18-enum-values", "C18", CO, "    STANDARD = 1\n    EIGHT_BIT = 2\n    TRUECOLOR = 3\n    WINDOWS = 4\n\n\nclass ColorType", "    STANDARD = 1\n    EIGHT_BIT = 3\n    TRUECOLOR = 2\n    WINDOWS = 4\n\n\nclass ColorType", "R18.0")
V("c18-from-ansi-threshold", "C18", CO, "            type=(ColorType.STANDARD if number < 16 else ColorType.EIGHT_BIT),\n            number=number,\n        )\n\n    @classmethod\n    def from_triplet",
  "            type=(ColorType.STANDARD if number <= 16 else ColorType.EIGHT_BIT),\n            number=number,\n        )\n\n    @classmethod\n    def from_triplet", "R18.7")
V("c18-benign-temp", "C18", CO, "            color_number = STANDARD_PALETTE.match(triplet)\n            return Color(self.name, ColorType.STANDARD, number=color_number)",
  "            nearest = STANDARD_PALETTE.match(triplet)\n            color_number = nearest\n            return Color(self.name, ColorType.STANDARD, number=color_number)", None)
V("c18-benign-early-return", "C18", CO, "        if self.type == ColorType.DEFAULT or self.type == system:\n            return self", "        if self.type == ColorType.DEFAULT:\n            return self\n        if self.type == system:\n            return self", None)

# ---- C11 -------------------------------------------------------------------
CN = "rich/console.py"
LV = "rich/live.py"
PR = "rich/progress.py"
V("c11-line-writes-directly", "C11", CN, "        if count:\n            self._buffer.append(Segment(\"\\n\" * count))\n            self._check_buffer()", "        if count:\n            self.file.write(\"\\n\" * count)", "R11.1")
V("c11-render-outside-lock", "C11", CN, "        with self._lock:\n            if self._buffer_index == 0:\n                if self.is_jupyter:  # pragma: no cover\n                    from .jupyter import display\n\n                    display(self._buffer)\n                    del self._buffer[:]\n                else:\n                    text = self._render_buffer(self._buffer[:])\n                    del self._buffer[:]\n                    if text:\n                        try:\n                            if WINDOWS:  # pragma: no cover\n                                # https://bugs.python.org/issue37871\n                                write = self.file.write\n                                for line in text.splitlines(True):\n                                    write(line)\n                            else:\n                                self.file.write(text)\n                            self.file.flush()",
  "        if self._buffer_index == 0:\n            if self.is_jupyter:  # pragma: no cover\n                from .jupyter import display\n\n                display(self._buffer)\n                del self._buffer[:]\n            else:\n                text = self._render_buffer(self._buffer[:])\n                del self._buffer[:]\n                if text:\n                    with self._lock:\n                        try:\n                            if WINDOWS:  # pragma: no cover\n                                # https://bugs.python.org/issue37871\n                                write = self.file.write\n                                for line in text.splitlines(True):\n                                    write(line)\n                            else:\n                                self.file.write(text)\n                            self.file.flush()", "R11.2")
V("c11-write-unguarded", "C11", CN, "        with self._lock:\n            if self._buffer_index == 0:\n                if self.is_jupyter:", "        with self._lock:\n            if self._buffer_index >= 0:\n                if self.is_jupyter:", "R11.2")
V("c11-shared-buffer-default", "C11", CN, "    buffer: List[Segment] = field(default_factory=list)", "    buffer: List[Segment] = []", "R11.3")
V("c11-not-thread-local", "C11", CN, "class ConsoleThreadLocals(threading.local):", "class ConsoleThreadLocals:", "R11.3")
V("c11-export-text-outside-lock", "C11", CN, "        with self._record_buffer_lock:\n            if styles:\n                text = \"\".join(\n                    (style.render(text) if style else text)\n                    for text, style, _ in self._record_buffer\n                )",
  "        if styles:\n            text = \"\".join(\n                (style.render(text) if style else text)\n                for text, style, _ in self._record_buffer\n            )\n            return text\n        with self._record_buffer_lock:\n            if styles:\n                text = \"\"", "R11.4")
V("c11-record-outside-lock", "C11", CN, "            with self._record_buffer_lock:\n                self._record_buffer.extend(buffer)", "            self._record_buffer.extend(buffer)", "R11.4")
V("c11-live-update-no-lock", "C11", LV, "        with self._lock:\n            self._live_render.set_renderable(renderable)\n            if refresh:\n                self.refresh()", "        self._live_render.set_renderable(renderable)\n        if refresh:\n            self.refresh()", "R11.4")
V("c11-liverender-no-lock", "C11", LV, "        with self._live._lock:\n            lines = console.render_lines(self.renderable, options, pad=False)\n", "        if True:\n            lines = console.render_lines(self.renderable, options, pad=False)\n", "R11.4")
V("c11-lock-cycle", "C11", CN, "        if self.record:\n            with self._record_buffer_lock:\n                self._record_buffer.extend(buffer)", "        for hook in self._render_hooks:\n            hook.process_renderables([])\n        if self.record:\n            with self._record_buffer_lock:\n                self._record_buffer.extend(buffer)", "R11.5")
V("c11-join-under-lock", "C11", LV, "                else:\n                    # jupyter last refresh must occur after console pop render hook\n                    # i am not sure why this is needed\n                    self.refresh()\n        if self.auto_refresh and self._refresh_thread is not None:\n            self._refresh_thread.join()\n            self._refresh_thread = None",
  "                else:\n                    # jupyter last refresh must occur after console pop render hook\n                    # i am not sure why this is needed\n                    self.refresh()\n            if self.auto_refresh and self._refresh_thread is not None:\n                self._refresh_thread.join()\n                self._refresh_thread = None", "R11.6")
V("c11-progress-join-under-lock", "C11", PR, "                self._disable_redirect_io()\n                self.console.pop_render_hook()\n        if self._refresh_thread is not None:\n            self._refresh_thread.join()\n            self._refresh_thread = None",
  "                self._disable_redirect_io()\n                self.console.pop_render_hook()\n            if self._refresh_thread is not None:\n                self._refresh_thread.join()\n                self._refresh_thread = None", "R11.6")
V("c11-benign-lock-alias", "C11", CN, "    def _check_buffer(self) -> None:\n        \"\"\"Check if the buffer may be rendered.\"\"\"\n        with self._lock:", "    def _check_buffer(self) -> None:\n        \"\"\"Check if the buffer may be rendered.\"\"\"\n        lock = self._lock\n        with lock:", None)
V("c11-benign-split-with", "C11", LV, "            with self._lock, self.console:\n                self.console.print(Control(\"\"))", "            with self._lock:\n                with self.console:\n                    self.console.print(Control(\"\"))", None)

# ---- C12 -------------------------------------------------------------------
V("c12-advance-no-lock", "C12", PR, "        with self._lock:\n            current_time = self.get_time()\n            task = self._tasks[task_id]\n            completed_start = task.completed\n            task.completed += advance",
  "        if True:\n            current_time = self.get_time()\n            task = self._tasks[task_id]\n            completed_start = task.completed\n            task.completed += advance", "R12.1")
V("c12-remove-task-no-lock", "C12", PR, "        with self._lock:\n            del self._tasks[task_id]", "        del self._tasks[task_id]", "R12.1")
V("c12-clock-before-lock", "C12", PR, "        with self._lock:\n            current_time = self.get_time()\n            task = self._tasks[task_id]\n            completed_start = task.completed", "        current_time = self.get_time()\n        with self._lock:\n            task = self._tasks[task_id]\n            completed_start = task.completed", "R12.2")
V("c12-advance-drops-finish-test", "C12", PR, "            _progress.append(ProgressSample(current_time, update_completed))\n            if task.completed >= task.total and task.finished_time is None:\n                task.finished_time = task.elapsed\n\n    def refresh",
  "            _progress.append(ProgressSample(current_time, update_completed))\n\n    def refresh", "R12.3")
V("c12-finish-test-strict", "C12", PR, "                popleft()\n            _progress.append(ProgressSample(current_time, update_completed))\n            if task.completed >= task.total and task.finished_time is None:", "                popleft()\n            _progress.append(ProgressSample(current_time, update_completed))\n            if task.completed > task.total and task.finished_time is None:", "R12.3")
V("c12-update-total-no-reset", "C12", PR, "            if total is not None:\n                task.total = total\n                task._reset()", "            if total is not None:\n                task.total = total", "R12.3")
V("c12-percentage-no-guard", "C12", PR, "        if not self.total:\n            return 0.0\n        completed = (self.completed / self.total) * 100.0", "        completed = (self.completed / self.total) * 100.0", "R12.4")
V("c12-percentage-no-clamp", "C12", PR, "        completed = min(100.0, max(0.0, completed))\n", "        completed = max(0.0, completed)\n", "R12.4")
V("c12-speed-no-guard", "C12", PR, "        if total_time == 0:\n            return None\n", "", "R12.4")
V("c12-track-advance-two", "C12", PR, "                yield value\n                advance(task_id, 1)", "                yield value\n                advance(task_id, 2)", "R12.5")
V("c12-track-double-count", "C12", PR, "                    yield value\n                    track_thread.completed += 1", "                    track_thread.completed += 1\n                    yield value\n                    track_thread.completed += 1", "R12.5")
V("c12-track-slice", "C12", PR, "            for value in sequence:\n                yield value\n                advance(task_id, 1)", "            for value in sequence[1:]:\n                yield value\n                advance(task_id, 1)", "R12.5")
V("c12-trackthread-no-flush", "C12", PR, "        self.progress.update(self.task_id, completed=self.completed, refresh=True)\n", "        self.progress.refresh()\n", "R12.5")
V("c12-benign-rename", "C12", PR, "            task = self._tasks[task_id]\n            completed_start = task.completed\n            task.completed += advance\n            update_completed = task.completed - completed_start",
  "            task = self._tasks[task_id]\n            before = task.completed\n            task.completed += advance\n            update_completed = task.completed - before", None)
V("c12-benign-lock-alias", "C12", PR, "        with self._lock:\n            del self._tasks[task_id]", "        lock = self._lock\n        with lock:\n            del self._tasks[task_id]", None)

# ---- C10 -------------------------------------------------------------------
LR = "rich/live_render.py"
V("c10-live-pop-outside-finally", "C10", LV, "            finally:\n                self._disable_redirect_io()\n                self.console.pop_render_hook()\n                self.console.show_cursor(True)\n",
  "            finally:\n                self._disable_redirect_io()\n                self.console.show_cursor(True)\n            self.console.pop_render_hook()\n", "R10.1")
V("c10-progress-no-finally", "C10", PR, "            try:\n                if self.auto_refresh and self._refresh_thread is not None:\n                    self._refresh_thread.stop()\n                self.refresh()\n                if self.console.is_terminal:\n                    self.console.line()\n            finally:\n                self.console.show_cursor(True)\n                self._disable_redirect_io()\n                self.console.pop_render_hook()",
  "            if self.auto_refresh and self._refresh_thread is not None:\n                self._refresh_thread.stop()\n            self.refresh()\n            if self.console.is_terminal:\n                self.console.line()\n            self.console.show_cursor(True)\n            self._disable_redirect_io()\n            self.console.pop_render_hook()", "R10.1")
V("c10-progress-exit-swallows", "C10", PR, "    def __exit__(self, exc_type, exc_val, exc_tb) -> None:\n        self.stop()\n\n    def track(", "    def __exit__(self, exc_type, exc_val, exc_tb) -> None:\n        self.stop()\n        return True\n\n    def track(", "R10.1")
V("c10-live-exit-conditional", "C10", LV, "    def __exit__(self, exc_type, exc_val, exc_tb) -> None:\n        self.stop()\n\n    def _enable_redirect_io", "    def __exit__(self, exc_type, exc_val, exc_tb) -> None:\n        if exc_type is None:\n            self.stop()\n\n    def _enable_redirect_io", "R10.1")
V("c10-live-stop-no-cursor", "C10", LV, "                self.console.pop_render_hook()\n                self.console.show_cursor(True)\n\n            if self.transient:", "                self.console.pop_render_hook()\n\n            if self.transient:", "R10.1")
V("c10-restore-swapped", "C10", LV, "        if self._restore_stderr:\n            sys.stderr = self._restore_stderr", "        if self._restore_stderr:\n            sys.stderr = self._restore_stdout", "R10.1")
V("c10-crop-without-shape", "C10", LV, "                    lines = lines[: console.size.height]\n                    shape = Segment.get_shape(lines)\n", "                    lines = lines[: console.size.height]\n", "R10.2")
V("c10-ellipsis-after-store", "C10", LV, "            self._shape = shape\n\n            for last, line in loop_last(lines):", "            self._shape = shape\n            lines = lines + [[Segment(\"...\")]]\n\n            for last, line in loop_last(lines):", "R10.2")
V("c10-liverender-unshaped", "C10", LR, "        lines = _Segment.set_shape(lines, width, height)\n", "", "R10.2")
V("c10-position-cursor-height", "C10", LR, '"\\x1b[1A\\x1b[2K" * (height - 1))', '"\\x1b[1A\\x1b[2K" * height)', "R10.3")
V("c10-restore-cursor-short", "C10", LR, 'return Control("\\r" + "\\x1b[1A\\x1b[2K" * height)', 'return Control("\\r" + "\\x1b[1A\\x1b[2K" * (height - 1))', "R10.3")
V("c10-trailing-newline", "C10", LV, "                yield from line\n                if not last:\n                    yield Segment.line()", "                yield from line\n                yield Segment.line()", "R10.3")
V("c10-hook-order", "C10", PR, "            renderables = [\n                self._live_render.position_cursor(),\n                *renderables,\n                self._live_render,\n            ]\n        return renderables",
  "            renderables = [\n                *renderables,\n                self._live_render.position_cursor(),\n                self._live_render,\n            ]\n        return renderables", "R10.4")
V("c10-log-skips-hooks", "C10", CN, "            for hook in self._render_hooks:\n                renderables = hook.process_renderables(renderables)\n            new_segments: List[Segment] = []\n            extend = new_segments.extend\n            render = self.render\n            render_options = self.options",
  "            new_segments: List[Segment] = []\n            extend = new_segments.extend\n            render = self.render\n            render_options = self.options", "R10.4")
V("c10-benign-reorder-releases", "C10", LV, "                self._disable_redirect_io()\n                self.console.pop_render_hook()\n                self.console.show_cursor(True)\n", "                self.console.pop_render_hook()\n                self._disable_redirect_io()\n                self.console.show_cursor(True)\n", None)
V("c10-benign-temp-height", "C10", LR, "            _, height = self._shape\n            return Control(\"\\r\\x1b[2K\" + \"\\x1b[1A\\x1b[2K\" * (height - 1))", "            _, height = self._shape\n            ups = height - 1\n            return Control(\"\\r\\x1b[2K\" + \"\\x1b[1A\\x1b[2K\" * ups)", None)
