#!/venv/bin/python
"""mutprobe_tests.py <mutprobe.jsonl> [--out FILE] [--jobs N] [--status survived,undecided]

Maintenance / discovery tool, NOT a property check.  Second stage of tools/mutprobe.py: of the mutants that no check reported,
which would the repository's own test suite notice?  Each selected mutant is regenerated (same operators, same ids), written into
a throw-away copy of rich/ + tests/ under a temp dir outside /repo and /verif (removed afterwards) and the pinned suite is run with
-x against it (the 11 tests that fail on the clean tree are deselected).  Mutants that survive BOTH the checks and the tests are the
reading list for blind spots: realistic breakage could hide there."""
from __future__ import annotations

import ast
import json
import os
import shutil
import subprocess
import sys
import tempfile
from concurrent.futures import ThreadPoolExecutor

sys.path.insert(0, "/verif")
sys.path.insert(0, "/verif/tools")
import mutprobe  # noqa: E402
from sa.index import REPO_ROOT  # noqa: E402

BASE = json.load(open("/root/.vp/BASELINE.json"))
KNOWN_FAIL = set()
for t in BASE["always_fail"]:
    mod, name = t.rsplit("::", 1)
    KNOWN_FAIL.add(mod.replace(".", "/") + ".py::" + name)


def regen(wanted):
    """id -> (file, new_src) for the wanted ids"""
    out = {}
    mods = {w.split(":")[0] for w in wanted}
    for modname in sorted(mods):
        file = f"rich/{modname}.py"
        src = open(os.path.join(REPO_ROOT, file), encoding="utf-8").read()
        tree = ast.parse(src)
        for parent in ast.walk(tree):
            for ch in ast.iter_child_nodes(parent):
                if isinstance(parent, ast.Subscript) and ch is parent.slice:
                    ch._parent = parent
        m = mutprobe.Mut(src)
        for fq, node in mutprobe.fq_functions(tree, modname):
            if ".<locals>." in fq:
                continue
            for k, (op, line, before, after, new_src) in enumerate(mutprobe.mutants_of(m, node)):
                mid = f"{fq}#{op}@{line}.{k}"
                if mid in wanted and mid not in out:
                    out[mid] = (file, new_src)
    return out


def run_one(item):
    mid, (file, new_src) = item
    d = tempfile.mkdtemp(prefix="mp_", dir="/tmp")
    try:
        shutil.copytree(os.path.join(REPO_ROOT, "rich"), os.path.join(d, "rich"))
        shutil.copytree(os.path.join(REPO_ROOT, "tests"), os.path.join(d, "tests"))
        for extra in ("pyproject.toml", "README.md"):
            if os.path.exists(os.path.join(REPO_ROOT, extra)):
                shutil.copy(os.path.join(REPO_ROOT, extra), d)
        open(os.path.join(d, file), "w", encoding="utf-8").write(new_src)
        try:
            p = subprocess.run(["/venv/bin/python", "-m", "pytest", "-q", "-rfE", "-p", "no:cacheprovider", "--timeout=120", "tests"],
                               cwd=d, capture_output=True, text=True, timeout=900)
            tail = (p.stdout + p.stderr).strip().splitlines()[-1:] or [""]
            failed = [l.split(" - ")[0].split(" ", 1)[1] for l in (p.stdout or "").splitlines() if l.startswith("FAILED ") or l.startswith("ERROR ")]
            new = [f for f in failed if f not in KNOWN_FAIL]
            ok = not new and " passed" in tail[0] and "error" not in tail[0].lower()
            return mid, 0 if ok else 1, tail[0][:160], new[:3]
        except subprocess.TimeoutExpired:
            return mid, 124, "timeout", []
    finally:
        shutil.rmtree(d, ignore_errors=True)


def main(argv):
    src = argv[0]
    out = "/tmp/mutprobe_tests.jsonl"
    jobs = 12
    statuses = {"survived"}
    i = 1
    while i < len(argv):
        if argv[i] == "--out":
            out = argv[i + 1]; i += 2
        elif argv[i] == "--jobs":
            jobs = int(argv[i + 1]); i += 2
        elif argv[i] == "--status":
            statuses = set(argv[i + 1].split(",")); i += 2
        else:
            i += 1
    recs = [json.loads(l) for l in open(src)]
    wanted = {r["id"] for r in recs if r["status"] in statuses}
    byid = {r["id"]: r for r in recs}
    muts = regen(wanted)
    print(f"{len(wanted)} selected, {len(muts)} regenerated", flush=True)
    n = {"tests-pass": 0, "tests-fail": 0}
    with open(out, "w") as fo, ThreadPoolExecutor(jobs) as ex:
        for mid, rc, tail, failed in ex.map(run_one, sorted(muts.items())):
            r = dict(byid[mid])
            r.pop("by", None)
            r["tests"] = "pass" if rc == 0 else "fail"
            r["tests_tail"] = tail
            r["tests_failed"] = failed
            fo.write(json.dumps(r) + "\n")
            fo.flush()
            n["tests-pass" if rc == 0 else "tests-fail"] += 1
    print(json.dumps(n))


if __name__ == "__main__":
    main(sys.argv[1:])
